import SnootyVerif.Model.Flutter

/-! Helper lemmas for C16 (`check_type` model). -/
namespace SnootyVerif.Flutter

/-! ### `List.mapM` in `Except` -/

theorem mapM_nil_ok {ε α β} (f : α → Except ε β) : ([] : List α).mapM f = .ok [] := by
  simp [pure, Except.pure]

theorem mapM_cons_eq {ε α β} (f : α → Except ε β) (a : α) (l : List α) :
    (a :: l).mapM f =
      match f a with
      | .error e => .error e
      | .ok b => match l.mapM f with
        | .error e => .error e
        | .ok bs => .ok (b :: bs) := by
  rw [List.mapM_cons]
  cases h : f a with
  | error e => simp [bind, Except.bind]
  | ok b =>
    cases h2 : l.mapM f with
    | error e => simp [bind, Except.bind]
    | ok bs => simp [bind, Except.bind, pure, Except.pure]

/-- every output of a successful `mapM` comes from an input -/
theorem mapM_ok_mem {ε α β} {f : α → Except ε β} :
    ∀ {xs : List α} {ys : List β}, xs.mapM f = .ok ys → ∀ y ∈ ys, ∃ x ∈ xs, f x = .ok y
  | [], ys, h => by
    rw [mapM_nil_ok] at h; cases h; intro y hy; cases hy
  | a :: l, ys, h => by
    rw [mapM_cons_eq] at h
    cases h1 : f a with
    | error e => rw [h1] at h; cases h
    | ok b =>
      rw [h1] at h
      cases h2 : l.mapM f with
      | error e => rw [h2] at h; cases h
      | ok bs =>
        rw [h2] at h; cases h
        intro y hy
        cases hy with
        | head => exact ⟨a, List.mem_cons_self, h1⟩
        | tail _ hy' =>
          obtain ⟨x, hx, hfx⟩ := mapM_ok_mem h2 y hy'
          exact ⟨x, List.mem_cons_of_mem _ hx, hfx⟩

/-- every input of a successful `mapM` has an output -/
theorem mapM_ok_mem' {ε α β} {f : α → Except ε β} :
    ∀ {xs : List α} {ys : List β}, xs.mapM f = .ok ys → ∀ x ∈ xs, ∃ y ∈ ys, f x = .ok y
  | [], ys, h => by intro x hx; cases hx
  | a :: l, ys, h => by
    rw [mapM_cons_eq] at h
    cases h1 : f a with
    | error e => rw [h1] at h; cases h
    | ok b =>
      rw [h1] at h
      cases h2 : l.mapM f with
      | error e => rw [h2] at h; cases h
      | ok bs =>
        rw [h2] at h; cases h
        intro x hx
        cases hx with
        | head => exact ⟨b, List.mem_cons_self, h1⟩
        | tail _ hx' =>
          obtain ⟨y, hy, hfx⟩ := mapM_ok_mem' h2 x hx'
          exact ⟨y, List.mem_cons_of_mem _ hy, hfx⟩

theorem mapM_ok_length {ε α β} {f : α → Except ε β} :
    ∀ {xs : List α} {ys : List β}, xs.mapM f = .ok ys → ys.length = xs.length
  | [], ys, h => by rw [mapM_nil_ok] at h; cases h; rfl
  | a :: l, ys, h => by
    rw [mapM_cons_eq] at h
    cases h1 : f a with
    | error e => rw [h1] at h; cases h
    | ok b =>
      rw [h1] at h
      cases h2 : l.mapM f with
      | error e => rw [h2] at h; cases h
      | ok bs =>
        rw [h2] at h; cases h
        simp [mapM_ok_length h2]

/-- the first failing element decides the error of `mapM` -/
theorem mapM_error_mem {ε α β} {f : α → Except ε β} :
    ∀ {xs : List α} {e : ε}, xs.mapM f = .error e → ∃ x ∈ xs, f x = .error e
  | [], e, h => by rw [mapM_nil_ok] at h; cases h
  | a :: l, e, h => by
    rw [mapM_cons_eq] at h
    cases h1 : f a with
    | error e1 => rw [h1] at h; cases h; exact ⟨a, List.mem_cons_self, h1⟩
    | ok b =>
      rw [h1] at h
      cases h2 : l.mapM f with
      | error e2 =>
        rw [h2] at h; cases h
        obtain ⟨x, hx, hfx⟩ := mapM_error_mem h2
        exact ⟨x, List.mem_cons_of_mem _ hx, hfx⟩
      | ok bs => rw [h2] at h; cases h

/-- `mapM` succeeds when every element does -/
theorem mapM_all_ok {ε α β} {f : α → Except ε β} :
    ∀ {xs : List α}, (∀ x ∈ xs, ∃ y, f x = .ok y) → ∃ ys, xs.mapM f = .ok ys
  | [], _ => ⟨[], mapM_nil_ok f⟩
  | a :: l, h => by
    obtain ⟨b, hb⟩ := h a List.mem_cons_self
    obtain ⟨bs, hbs⟩ := mapM_all_ok (xs := l) (fun x hx => h x (List.mem_cons_of_mem _ hx))
    exact ⟨b :: bs, by rw [mapM_cons_eq, hb, hbs]⟩

/-- elements before the first failing one succeed: `mapM` returns that failure -/
theorem mapM_first_error {ε α β} {f : α → Except ε β} (x : α) (tail : List α) (e : ε) (hx : f x = .error e) :
    ∀ (pre : List α), (∀ a ∈ pre, ∃ b, f a = .ok b) → (pre ++ x :: tail).mapM f = .error e
  | [], _ => by simp only [List.nil_append]; rw [mapM_cons_eq, hx]
  | a :: pre, h => by
    obtain ⟨b, hb⟩ := h a List.mem_cons_self
    have ih := mapM_first_error x tail e hx pre (fun a ha => h a (List.mem_cons_of_mem _ ha))
    simp only [List.cons_append]
    rw [mapM_cons_eq, hb, ih]

theorem except_map_ok {ε α β} {g : α → β} {r : Except ε α} {y : β}
    (h : r.map g = .ok y) : ∃ x, r = .ok x ∧ y = g x := by
  cases r with
  | error e => cases h
  | ok x => cases h; exact ⟨x, rfl, rfl⟩

theorem except_map_error {ε α β} {g : α → β} {r : Except ε α} {e : ε}
    (h : r.map g = .error e) : r = .error e := by
  cases r with
  | error e' => cases h; rfl
  | ok x => cases h

/-! ### record bookkeeping -/

theorem mem_recordItems_keys (names : List String) (kvs : List (String × Val)) (n : String)
    (hn : n ∈ names) : ∃ it ∈ recordItems names kvs, it.1 = n := by
  unfold recordItems
  by_cases hk : kvs.any (fun kv => kv.1 == n) = true
  · rw [List.any_eq_true] at hk
    obtain ⟨kv, hkv, heq⟩ := hk
    refine ⟨(kv.1, kv.2, false), ?_, by simpa using heq⟩
    exact List.mem_append_left _ (List.mem_map.mpr ⟨kv, hkv, rfl⟩)
  · refine ⟨(n, Val.none, true), ?_, rfl⟩
    apply List.mem_append_right
    apply List.mem_map.mpr
    refine ⟨n, ?_, rfl⟩
    unfold missingKeys
    rw [List.mem_filter]
    refine ⟨hn, ?_⟩
    cases hb : kvs.any (fun kv => kv.1 == n) with
    | true => exact absurd hb hk
    | false => rfl


theorem enumByName_sound {name ms s x} (h : enumByName name ms s = .ok x) :
    HasType x (.enum name ms) := by
  unfold enumByName at h
  split at h
  · rename_i m hm
    cases h
    exact .enumMember ⟨m, List.mem_of_find?_eq_some hm, rfl⟩
  · cases h

theorem enumByValue_sound {name ms i x} (h : enumByValue name ms i = .ok x) :
    HasType x (.enum name ms) := by
  unfold enumByValue at h
  split at h
  · rename_i m hm
    cases h
    exact .enumMember ⟨m, List.mem_of_find?_eq_some hm, rfl⟩
  · cases h

/-! ### soundness: whatever `check` returns has the declared type -/
mutual
theorem check_sound : ∀ (ty : Ty) (v : Val) (x : TVal), check ty v = .ok x → HasType x ty
  | .str, v, x, h => by
    cases v <;> simp [check] at h <;> subst h <;> constructor
  | .int, v, x, h => by
    cases v <;> simp [check] at h <;> subst h <;> constructor
  | .float, v, x, h => by
    cases v <;> simp [check] at h <;> subst h <;> constructor
  | .bool, v, x, h => by
    cases v <;> simp [check] at h <;> subst h <;> constructor
  | .none, v, x, h => by
    cases v <;> simp [check] at h <;> subst h <;> constructor
  | .any, v, x, h => by
    simp [check] at h; subst h; exact .any _
  | .cls name, v, x, h => by
    simp only [check] at h
    split at h
    · cases h; exact .cls (by assumption)
    · cases h
  | .unsupported, v, x, h => by simp [check] at h
  | .enum name ms, v, x, h => by
    cases v with
    | str s => exact enumByName_sound (by simpa [check] using h)
    | int i => exact enumByValue_sound (by simpa [check] using h)
    | bool b => exact enumByValue_sound (by simpa [check] using h)
    | none | float _ | list _ | dict _ | obj _ =>
      simp only [check] at h
      split at h
      · cases h; exact .enumInstance (by assumption)
      · cases h
  | .list t, v, x, h => by
    cases v with
    | list xs =>
      simp only [check] at h
      obtain ⟨ys, hys, rfl⟩ := except_map_ok h
      refine .list (fun y hy => ?_)
      obtain ⟨a, _, ha⟩ := mapM_ok_mem hys y hy
      exact check_sound t a y ha
    | _ => simp [check] at h
  | .set t, v, x, h => by
    cases v with
    | list xs =>
      simp only [check] at h
      obtain ⟨ys, hys, rfl⟩ := except_map_ok h
      refine .set (fun y hy => ?_)
      obtain ⟨a, _, ha⟩ := mapM_ok_mem hys y hy
      exact check_sound t a y ha
    | _ => simp [check] at h
  | .dict kt vt, v, x, h => by
    cases v with
    | dict kvs =>
      simp only [check] at h
      obtain ⟨ys, hys, rfl⟩ := except_map_ok h
      have key : ∀ y ∈ ys, HasType y.1 kt ∧ HasType y.2 vt := by
        intro y hy
        obtain ⟨a, _, ha⟩ := mapM_ok_mem hys y hy
        cases hk : check kt (Val.str a.1) with
        | error e => simp [hk, bind, Except.bind] at ha
        | ok k =>
          cases hv : check vt a.2 with
          | error e => simp [hk, hv, bind, Except.bind] at ha
          | ok w =>
            simp [hk, hv, bind, Except.bind, pure, Except.pure] at ha
            subst ha
            exact ⟨check_sound kt _ k hk, check_sound vt _ w hv⟩
      exact .dict (fun y hy => (key y hy).1) (fun y hy => (key y hy).2)
    | _ => simp [check] at h
  | .tuple ts, v, x, h => by
    simp only [check] at h
    split at h
    · rename_i xs hxs
      split at h
      · rename_i hlen
        obtain ⟨ys, hys, rfl⟩ := except_map_ok h
        exact .tuple (checkTuple_sound ts xs ys hys (by simpa using hlen))
      · cases h
    · cases h
  | .union ts, v, x, h => by
    simp only [check] at h
    obtain ⟨t, ht, hx⟩ := checkUnion_sound ts v x h
    exact .union ht hx
  | .record name fs post, v, x, h => by
    cases v with
    | dict kvs =>
      simp only [check] at h
      split at h
      · cases h
      · rename_i res hres
        split at h
        · rename_i hpost
          cases h
          refine .record ?_ ?_ hpost
          · intro kv hkv
            obtain ⟨it, _, hit⟩ := mapM_ok_mem hres kv hkv
            obtain ⟨y, hy, rfl⟩ := except_map_ok hit
            exact checkKey_sound fs _ _ _ y hy
          · intro n hn
            obtain ⟨it, hit, rfl⟩ := mem_recordItems_keys fs.names kvs n hn
            obtain ⟨kv, hkv, hf⟩ := mapM_ok_mem' hres it hit
            obtain ⟨y, _, rfl⟩ := except_map_ok hf
            exact ⟨y, hkv⟩
        · cases h
    | _ => simp [check] at h

theorem checkUnion_sound : ∀ (ts : Tys) (v : Val) (x : TVal), checkUnion ts v = .ok x →
    ∃ t ∈ ts.toList, HasType x t
  | .nil, v, x, h => by simp [checkUnion] at h
  | .cons t ts, v, x, h => by
    simp only [checkUnion] at h
    split at h
    · rename_i y hy
      cases h
      exact ⟨t, by simp [Tys.toList], check_sound t v _ hy⟩
    · split at h
      · obtain ⟨t', ht', hx⟩ := checkUnion_sound ts v x h
        exact ⟨t', by simp [Tys.toList, ht'], hx⟩
      · cases h

theorem checkTuple_sound : ∀ (ts : Tys) (xs : List Val) (ys : List TVal), checkTuple ts xs = .ok ys →
    xs.length = ts.length → HasTypes ys ts
  | .nil, xs, ys, h, _ => by
    simp [checkTuple] at h; subst h; exact .nil
  | .cons t ts, [], ys, h, hl => by
    simp [Tys.length] at hl
  | .cons t ts, a :: xs, ys, h, hl => by
    simp only [checkTuple] at h
    split at h
    · cases h
    · rename_i y hy
      split at h
      · cases h
      · rename_i ys' hys'
        cases h
        exact .cons (check_sound t a y hy)
          (checkTuple_sound ts xs ys' hys' (by simpa [Tys.length] using hl))

theorem checkKey_sound : ∀ (fs : Fields) (k : String) (v : Val) (miss : Bool) (x : TVal),
    checkKey fs k v miss = .ok x → FieldOk fs k x
  | .nil, k, v, miss, x, h => by simp [checkKey] at h
  | .cons n t d fs, k, v, miss, x, h => by
    simp only [checkKey] at h
    split at h
    · rename_i hnk
      subst hnk
      split at h
      · rename_i hmd
        cases h
        have : d = true := by simp at hmd; exact hmd.2
        subst this
        exact .dflt
      · exact .here (check_sound t v x h)
    · rename_i hnk
      exact .there hnk (checkKey_sound fs k v miss x h)
end


/-! ### which exceptions can leave `check` -/
mutual
theorem check_err : ∀ (ty : Ty) (v : Val) (e : LoadErr), ty.noPost = true → check ty v = .error e →
    e.isLoadError = true
  | .str, v, e, _, h => by cases v <;> simp [check] at h <;> subst h <;> rfl
  | .int, v, e, _, h => by cases v <;> simp [check] at h <;> subst h <;> rfl
  | .float, v, e, _, h => by cases v <;> simp [check] at h <;> subst h <;> rfl
  | .bool, v, e, _, h => by cases v <;> simp [check] at h <;> subst h <;> rfl
  | .none, v, e, _, h => by cases v <;> simp [check] at h <;> subst h <;> rfl
  | .any, v, e, _, h => by simp [check] at h
  | .cls name, v, e, _, h => by
    simp only [check] at h
    split at h
    · cases h
    · cases h; rfl
  | .unsupported, v, e, _, h => by simp [check] at h; subst h; rfl
  | .enum name ms, v, e, _, h => by
    cases v with
    | str s =>
      simp only [check, enumByName] at h
      split at h
      · cases h
      · cases h; rfl
    | int i =>
      simp only [check, enumByValue] at h
      split at h
      · cases h
      · cases h; rfl
    | bool b =>
      simp only [check, enumByValue] at h
      split at h
      · cases h
      · cases h; rfl
    | none | float _ | list _ | dict _ | obj _ =>
      simp only [check] at h
      split at h
      · cases h
      · cases h; rfl
  | .list t, v, e, hp, h => by
    cases v with
    | list xs =>
      simp only [check] at h
      obtain ⟨a, _, ha⟩ := mapM_error_mem (except_map_error h)
      exact check_err t a e (by simpa [Ty.noPost] using hp) ha
    | _ => simp [check] at h; subst h; rfl
  | .set t, v, e, hp, h => by
    cases v with
    | list xs =>
      simp only [check] at h
      obtain ⟨a, _, ha⟩ := mapM_error_mem (except_map_error h)
      exact check_err t a e (by simpa [Ty.noPost] using hp) ha
    | _ => simp [check] at h; subst h; rfl
  | .dict kt vt, v, e, hp, h => by
    cases v with
    | dict kvs =>
      simp only [check] at h
      have hp' : kt.noPost = true ∧ vt.noPost = true := by simpa [Ty.noPost] using hp
      obtain ⟨a, _, ha⟩ := mapM_error_mem (except_map_error h)
      cases hk : check kt (Val.str a.1) with
      | error e1 =>
        simp [hk, bind, Except.bind] at ha
        subst ha
        exact check_err kt _ _ hp'.1 hk
      | ok k =>
        cases hv : check vt a.2 with
        | error e2 =>
          simp [hk, hv, bind, Except.bind] at ha
          subst ha
          exact check_err vt _ _ hp'.2 hv
        | ok w => simp [hk, hv, bind, Except.bind, pure, Except.pure] at ha
    | _ => simp [check] at h; subst h; rfl
  | .tuple ts, v, e, hp, h => by
    simp only [check] at h
    split at h
    · rename_i xs hxs
      split at h
      · exact checkTuple_err ts xs e (by simpa [Ty.noPost] using hp) (except_map_error h)
      · cases h; rfl
    · cases h; rfl
  | .union ts, v, e, hp, h => by
    simp only [check] at h
    exact checkUnion_err ts v e (by simpa [Ty.noPost] using hp) h
  | .record name fs post, v, e, hp, h => by
    have hp' : post = Post.none ∧ fs.noPost = true := by simpa [Ty.noPost] using hp
    cases v with
    | dict kvs =>
      simp only [check] at h
      split at h
      · rename_i e' he'
        cases h
        obtain ⟨it, _, hit⟩ := mapM_error_mem he'
        exact checkKey_err fs _ _ _ e hp'.2 (except_map_error hit)
      · split at h
        · cases h
        · rename_i hpost
          rw [hp'.1] at hpost
          simp [Post.ok] at hpost
    | _ => simp [check] at h; subst h; rfl

theorem checkUnion_err : ∀ (ts : Tys) (v : Val) (e : LoadErr), ts.noPost = true →
    checkUnion ts v = .error e → e.isLoadError = true
  | .nil, v, e, _, h => by simp [checkUnion] at h; subst h; rfl
  | .cons t ts, v, e, hp, h => by
    have hp' : t.noPost = true ∧ ts.noPost = true := by simpa [Tys.noPost] using hp
    simp only [checkUnion] at h
    split at h
    · cases h
    · split at h
      · exact checkUnion_err ts v e hp'.2 h
      · rename_i e1 he1 hne
        cases h
        exact check_err t v e hp'.1 he1

theorem checkTuple_err : ∀ (ts : Tys) (xs : List Val) (e : LoadErr), ts.noPost = true →
    checkTuple ts xs = .error e → e.isLoadError = true
  | .nil, xs, e, _, h => by simp [checkTuple] at h
  | .cons t ts, [], e, _, h => by simp [checkTuple] at h
  | .cons t ts, a :: xs, e, hp, h => by
    have hp' : t.noPost = true ∧ ts.noPost = true := by simpa [Tys.noPost] using hp
    simp only [checkTuple] at h
    split at h
    · rename_i e1 he1
      cases h
      exact check_err t a e hp'.1 he1
    · split at h
      · rename_i e2 he2
        cases h
        exact checkTuple_err ts xs e hp'.2 he2
      · cases h

theorem checkKey_err : ∀ (fs : Fields) (k : String) (v : Val) (miss : Bool) (e : LoadErr),
    fs.noPost = true → checkKey fs k v miss = .error e → e.isLoadError = true
  | .nil, k, v, miss, e, _, h => by simp [checkKey] at h; subst h; rfl
  | .cons n t d fs, k, v, miss, e, hp, h => by
    have hp' : t.noPost = true ∧ fs.noPost = true := by simpa [Fields.noPost] using hp
    simp only [checkKey] at h
    split at h
    · split at h
      · cases h
      · exact check_err t v e hp'.1 h
    · exact checkKey_err fs k v miss e hp'.2 h
end

/-! ### field lookup view of `checkKey` -/

/-- first declaration of `k` (dataclass field names are unique, so "first" is "the") -/
def Fields.lookup : Fields → String → Option (Ty × Bool)
  | .nil, _ => none
  | .cons n t d fs, k => if n = k then some (t, d) else fs.lookup k

theorem checkKey_eq_lookup : ∀ (fs : Fields) (k : String) (v : Val) (miss : Bool),
    checkKey fs k v miss =
      match fs.lookup k with
      | none => .error (.unknownField k)
      | some (t, d) => if miss && d then .ok .dflt else check t v
  | .nil, k, v, miss => by simp [checkKey, Fields.lookup]
  | .cons n t d fs, k, v, miss => by
    simp only [checkKey, Fields.lookup]
    split
    · rfl
    · exact checkKey_eq_lookup fs k v miss

theorem lookup_none_of_not_mem : ∀ (fs : Fields) (k : String), k ∉ fs.names → fs.lookup k = none
  | .nil, k, _ => rfl
  | .cons n t d fs, k, h => by
    simp only [Fields.names, List.mem_cons, not_or] at h
    simp only [Fields.lookup]
    rw [if_neg (fun hnk => h.1 hnk.symm)]
    exact lookup_none_of_not_mem fs k h.2

theorem mem_names_of_lookup : ∀ (fs : Fields) (k : String) (r : Ty × Bool), fs.lookup k = some r → k ∈ fs.names
  | .nil, k, r, h => by simp [Fields.lookup] at h
  | .cons n t d fs, k, r, h => by
    simp only [Fields.lookup] at h
    simp only [Fields.names, List.mem_cons]
    split at h
    · rename_i hnk; exact Or.inl hnk.symm
    · exact Or.inr (mem_names_of_lookup fs k r h)

/-- the items a successful record check was computed from -/
theorem record_ok_inv {name fs post kvs x} (h : check (.record name fs post) (.dict kvs) = .ok x) :
    ∃ res, x = .record name res ∧ post.ok res = true ∧
      (recordItems fs.names kvs).mapM
        (fun it => (checkKey fs it.1 it.2.1 it.2.2).map (fun y => (it.1, y))) = .ok res := by
  simp only [check] at h
  split at h
  · cases h
  · rename_i res hres
    split at h
    · rename_i hpost
      cases h
      exact ⟨res, rfl, hpost, hres⟩
    · cases h

theorem missing_mem_recordItems {names : List String} {kvs : List (String × Val)} {n : String}
    (hn : n ∈ names) (hk : ∀ kv ∈ kvs, kv.1 ≠ n) : (n, Val.none, true) ∈ recordItems names kvs := by
  unfold recordItems
  apply List.mem_append_right
  apply List.mem_map.mpr
  refine ⟨n, ?_, rfl⟩
  unfold missingKeys
  rw [List.mem_filter]
  refine ⟨hn, ?_⟩
  cases hb : kvs.any (fun kv => kv.1 == n) with
  | true =>
    rw [List.any_eq_true] at hb
    obtain ⟨kv, hkv, heq⟩ := hb
    exact absurd (by simpa using heq) (hk kv hkv)
  | false => rfl


/-! ### completeness for conforming input (types without raising `__post_init__`) -/

theorem conformsAll_length : ∀ {xs : List Val} {ts : Tys}, ConformsAll xs ts → xs.length = ts.length
  | _, _, .nil => rfl
  | _, _, .cons _ h => by simp [Tys.length, conformsAll_length h]

theorem find?_some_of_mem {α} {p : α → Bool} {l : List α} {a : α} (ha : a ∈ l) (hp : p a = true) :
    ∃ b, l.find? p = some b := by
  have : (l.find? p).isSome = true := by
    rw [List.find?_isSome]; exact ⟨a, ha, hp⟩
  cases h : l.find? p with
  | none => rw [h] at this; cases this
  | some b => exact ⟨b, rfl⟩

mutual
theorem check_complete : ∀ (ty : Ty) (v : Val), Conforms v ty → ty.noPost = true → ∃ x, check ty v = .ok x
  | .str, v, hc, _ => by cases hc; exact ⟨_, rfl⟩
  | .int, v, hc, _ => by cases hc <;> exact ⟨_, rfl⟩
  | .float, v, hc, _ => by cases hc; exact ⟨_, rfl⟩
  | .bool, v, hc, _ => by cases hc; exact ⟨_, rfl⟩
  | .none, v, hc, _ => by cases hc; exact ⟨_, rfl⟩
  | .any, v, _, _ => ⟨.raw v, by simp [check]⟩
  | .unsupported, v, hc, _ => by cases hc
  | .cls name, v, hc, _ => by
    cases hc with
    | cls h => exact ⟨.raw v, by simp [check, h]⟩
  | .enum name ms, v, hc, _ => by
    cases hc with
    | enumName h =>
      rename_i s
      obtain ⟨m, hm, hs⟩ := h
      obtain ⟨b, hb⟩ := find?_some_of_mem (p := fun (m : String × Option Int) => m.1 == s) hm (by simp [hs])
      exact ⟨.enumMember name b.1, by simp only [check, enumByName, hb]⟩
    | enumValue h =>
      rename_i i
      obtain ⟨m, hm, hs⟩ := h
      obtain ⟨b, hb⟩ := find?_some_of_mem (p := fun (m : String × Option Int) => m.2 == some i) hm (by simp [hs])
      exact ⟨.enumMember name b.1, by simp only [check, enumByValue, hb]⟩
  | .list t, v, hc, hp => by
    cases hc with
    | list h =>
      rename_i xs
      obtain ⟨ys, hys⟩ := mapM_all_ok (f := check t) (xs := xs)
        (fun x hx => check_complete t x (h x hx) (by simpa [Ty.noPost] using hp))
      exact ⟨.list ys, by simp only [check, hys]; rfl⟩
  | .set t, v, hc, hp => by
    cases hc with
    | set h =>
      rename_i xs
      obtain ⟨ys, hys⟩ := mapM_all_ok (f := check t) (xs := xs)
        (fun x hx => check_complete t x (h x hx) (by simpa [Ty.noPost] using hp))
      exact ⟨.set ys, by simp only [check, hys]; rfl⟩
  | .dict kt vt, v, hc, hp => by
    have hp' : kt.noPost = true ∧ vt.noPost = true := by simpa [Ty.noPost] using hp
    cases hc with
    | dict hk hv =>
      rename_i kvs
      obtain ⟨ys, hys⟩ := mapM_all_ok (xs := kvs)
        (f := fun (kv : String × Val) => do
          let k ← check kt (Val.str kv.1)
          let x ← check vt kv.2
          pure (k, x))
        (fun kv hkv => by
          obtain ⟨k, hk'⟩ := check_complete kt _ (hk kv hkv) hp'.1
          obtain ⟨x, hx'⟩ := check_complete vt _ (hv kv hkv) hp'.2
          exact ⟨(k, x), by simp [hk', hx', bind, Except.bind, pure, Except.pure]⟩)
      exact ⟨.dict ys, by simp only [check, hys]; rfl⟩
  | .tuple ts, v, hc, hp => by
    cases hc with
    | tuple h =>
      rename_i xs
      obtain ⟨ys, hys⟩ := checkTuple_complete ts xs h (by simpa [Ty.noPost] using hp)
      have hl := conformsAll_length h
      exact ⟨.tuple ys, by simp only [check, asItems, hl, hys, beq_self_eq_true, if_true]; rfl⟩
  | .union ts, v, hc, hp => by
    cases hc with
    | union hmem h =>
      rename_i t
      simp only [check]
      exact checkUnion_complete ts v t hmem h (by simpa [Ty.noPost] using hp)
  | .record name fs post, v, hc, hp => by
    have hp' : post = Post.none ∧ fs.noPost = true := by simpa [Ty.noPost] using hp
    cases hc with
    | record hk hm hpost =>
      rename_i kvs
      obtain ⟨res, hres⟩ := mapM_all_ok (xs := recordItems fs.names kvs)
        (f := fun it => (checkKey fs it.1 it.2.1 it.2.2).map (fun x => (it.1, x)))
        (fun it hit => by
          have : ∃ y, checkKey fs it.1 it.2.1 it.2.2 = .ok y := by
            unfold recordItems at hit
            rcases List.mem_append.mp hit with h1 | h1
            · obtain ⟨kv, hkv, rfl⟩ := List.mem_map.mp h1
              exact checkKey_complete fs _ _ _ (hk kv hkv) hp'.2
            · obtain ⟨n, hn, rfl⟩ := List.mem_map.mp h1
              exact checkKey_complete fs _ _ _ (hm n hn) hp'.2
          obtain ⟨y, hy⟩ := this
          exact ⟨(it.1, y), by simp [hy, Except.map]⟩)
      exact ⟨.record name res, by simp only [check, hres, hpost res, if_true]⟩

theorem checkUnion_complete : ∀ (ts : Tys) (v : Val) (t : Ty), t ∈ ts.toList → Conforms v t →
    ts.noPost = true → ∃ x, checkUnion ts v = .ok x
  | .nil, v, t, hmem, _, _ => by simp [Tys.toList] at hmem
  | .cons t' ts', v, t, hmem, hc, hp => by
    have hp' : t'.noPost = true ∧ ts'.noPost = true := by simpa [Tys.noPost] using hp
    simp only [checkUnion]
    cases h : check t' v with
    | ok x => exact ⟨x, rfl⟩
    | error e =>
      have hle := check_err t' v e hp'.1 h
      simp only [hle, if_true]
      simp only [Tys.toList, List.mem_cons] at hmem
      rcases hmem with heq | hmem
      · obtain ⟨x, hx⟩ := check_complete t' v (heq ▸ hc) hp'.1
        rw [hx] at h; cases h
      · exact checkUnion_complete ts' v t hmem hc hp'.2

theorem checkTuple_complete : ∀ (ts : Tys) (xs : List Val), ConformsAll xs ts → ts.noPost = true →
    ∃ ys, checkTuple ts xs = .ok ys
  | .nil, xs, _, _ => ⟨[], by simp [checkTuple]⟩
  | .cons t ts, xs, hc, hp => by
    have hp' : t.noPost = true ∧ ts.noPost = true := by simpa [Tys.noPost] using hp
    cases hc with
    | cons h1 h2 =>
      rename_i a xs'
      obtain ⟨y, hy⟩ := check_complete t a h1 hp'.1
      obtain ⟨ys, hys⟩ := checkTuple_complete ts xs' h2 hp'.2
      exact ⟨y :: ys, by simp only [checkTuple, hy, hys]⟩

theorem checkKey_complete : ∀ (fs : Fields) (k : String) (v : Val) (miss : Bool), ConformsKey fs k v miss →
    fs.noPost = true → ∃ y, checkKey fs k v miss = .ok y
  | .nil, k, v, miss, hc, _ => by cases hc
  | .cons n t d fs, k, v, miss, hc, hp => by
    have hp' : t.noPost = true ∧ fs.noPost = true := by simpa [Fields.noPost] using hp
    cases hc with
    | dflt => exact ⟨.dflt, by simp [checkKey]⟩
    | here h =>
      simp only [checkKey, if_true]
      split
      · exact ⟨_, rfl⟩
      · exact check_complete t v h hp'.1
    | there hne h =>
      simp only [checkKey, if_neg hne]
      exact checkKey_complete fs k v miss h hp'.2
end

end SnootyVerif.Flutter
