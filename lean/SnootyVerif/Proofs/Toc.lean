import SnootyVerif.Model.Toc

/-!
# Lemmas about the toctree model

`Walk` is the big-step semantics of `find_toctree_nodes` (fuel-free); every terminating run of
`walk` is a `Walk` derivation (`walk_sound`), and all invariants are proved by induction on it.
-/
namespace SnootyVerif.Toc

/-! ## generic list facts -/

theorem nodup_subset_length {α} [DecidableEq α] :
    ∀ (l₁ l₂ : List α), l₁.Nodup → l₁ ⊆ l₂ → l₁.length ≤ l₂.length := by
  intro l₁
  induction l₁ with
  | nil => intros; simp
  | cons a l ih =>
    intro l₂ hnd hsub
    have ha : a ∈ l₂ := hsub (List.mem_cons_self)
    rw [List.nodup_cons] at hnd
    have hsub' : l ⊆ l₂.erase a := by
      intro x hx
      have hne : x ≠ a := fun h => hnd.1 (h ▸ hx)
      exact (List.mem_erase_of_ne hne).2 (hsub (List.mem_cons_of_mem _ hx))
    have := ih (l₂.erase a) hnd.2 hsub'
    have hl := List.length_erase_of_mem ha
    have hpos : 0 < l₂.length := List.length_pos_of_mem ha
    simp only [List.length_cons]
    omega

/-! ## lookup -/

def keys (P : Pages) : List Slug := P.map (·.slug)

theorem lookup_slug {P : Pages} {s : Slug} {pg : Page} (h : lookup P s = some pg) : pg.slug = s := by
  have := List.find?_some h
  simpa using this

theorem lookup_mem {P : Pages} {s : Slug} {pg : Page} (h : lookup P s = some pg) : pg ∈ P :=
  List.mem_of_find?_eq_some h

theorem lookup_key {P : Pages} {s : Slug} {pg : Page} (h : lookup P s = some pg) : pg.slug ∈ keys P :=
  List.mem_map.2 ⟨pg, lookup_mem h, rfl⟩

theorem lookup_self {P : Pages} {s : Slug} {pg : Page} (h : lookup P s = some pg) :
    lookup P pg.slug = some pg := by rw [lookup_slug h]; exact h

/-! ## big-step semantics -/

inductive Walk (P : Pages) : Slug → List Entry → St → List Tree → St → Prop
  | nil {o st} : Walk P o [] st [] st
  | empty {o e es st ts st'} : classify e = .empty → Walk P o es st ts st' → Walk P o (e :: es) st ts st'
  | url {o e es st ts st' u} : classify e = .url u → Walk P o es st ts st' →
      Walk P o (e :: es) st (.node .url u (truthy e.title) [] :: ts) st'
  | project {o e es st ts st' p} : classify e = .project p → Walk P o es st ts st' →
      Walk P o (e :: es) st (.node .project p (truthy e.title) [] :: ts) st'
  | missing {o e es st ts st' s} : classify e = .page s → lookup P (cleanSlug s) = none →
      Walk P o es { st with missing := st.missing ++ [(o, cleanSlug s)] } ts st' →
      Walk P o (e :: es) st ts st'
  | seen {o e es st ts st' s pg} : classify e = .page s → lookup P (cleanSlug s) = some pg →
      pg.slug ∈ st.visited → Walk P o es st ts st' →
      Walk P o (e :: es) st (.node .page pg.slug (titleOf e pg) [] :: ts) st'
  | fresh {o e es st ts st1 st2 s pg kids} : classify e = .page s → lookup P (cleanSlug s) = some pg →
      pg.slug ∉ st.visited →
      Walk P pg.slug pg.entries { st with visited := pg.slug :: st.visited } kids st1 →
      Walk P o es st1 ts st2 →
      Walk P o (e :: es) st (.node .page pg.slug (titleOf e pg) kids :: ts) st2

theorem walkList_sound (P : Pages) (rec : Slug → List Entry → St → Option (List Tree × St))
    (hrec : ∀ c es st ts st', rec c es st = some (ts, st') → Walk P c es st ts st') (o : Slug) :
    ∀ es st ts st', walkList P rec o es st = some (ts, st') → Walk P o es st ts st' := by
  intro es
  induction es with
  | nil => intro st ts st' h; simp [walkList] at h; obtain ⟨rfl, rfl⟩ := h; exact .nil
  | cons e es ih =>
    intro st ts st' h
    unfold walkList at h
    split at h
    · rename_i hc; exact .empty hc (ih _ _ _ h)
    · rename_i u hc
      split at h
      · cases h
      · rename_i ts0 st0 h0; cases h; exact .url hc (ih _ _ _ h0)
    · rename_i p hc
      split at h
      · cases h
      · rename_i ts0 st0 h0; cases h; exact .project hc (ih _ _ _ h0)
    · rename_i s hc
      simp only at h
      split at h
      · rename_i hl; exact .missing hc hl (ih _ _ _ h)
      · rename_i pg hl
        split at h
        · rename_i hv
          split at h
          · cases h
          · rename_i ts0 st0 h0; cases h; exact .seen hc hl hv (ih _ _ _ h0)
        · rename_i hv
          split at h
          · cases h
          · rename_i kids st1 hk
            split at h
            · cases h
            · rename_i ts0 st2 h0; cases h
              exact .fresh hc hl hv (hrec _ _ _ _ _ hk) (ih _ _ _ h0)

theorem walk_sound (P : Pages) : ∀ n o es st ts st', walk P n o es st = some (ts, st') → Walk P o es st ts st' := by
  intro n
  induction n with
  | zero => intro o es st ts st' h; simp [walk] at h
  | succ n ih => intro o es st ts st' h; exact walkList_sound P (walk P n) ih o es st ts st' h

/-! ## visited only grows, stays duplicate free and inside the page set -/

theorem Walk.visited_grows {P o es st ts st'} (h : Walk P o es st ts st') :
    ∃ added, st'.visited = added ++ st.visited := by
  induction h with
  | nil => exact ⟨[], rfl⟩
  | empty _ _ ih => exact ih
  | url _ _ ih => exact ih
  | project _ _ ih => exact ih
  | missing _ _ _ ih => exact ih
  | seen _ _ _ _ ih => exact ih
  | @fresh o e es st ts st1 st2 s pg kids _ _ _ _ _ ih1 ih2 =>
    obtain ⟨a1, h1⟩ := ih1
    obtain ⟨a2, h2⟩ := ih2
    exact ⟨a2 ++ a1 ++ [pg.slug], by rw [h2, h1]; simp⟩

theorem Walk.visited_mono {P o es st ts st'} (h : Walk P o es st ts st') : st.visited ⊆ st'.visited := by
  obtain ⟨a, ha⟩ := h.visited_grows
  intro x hx; rw [ha]; exact List.mem_append_right _ hx

def Inv (P : Pages) (st : St) : Prop := st.visited.Nodup ∧ st.visited ⊆ keys P

theorem Walk.inv {P o es st ts st'} (h : Walk P o es st ts st') (hi : Inv P st) : Inv P st' := by
  induction h with
  | nil => exact hi
  | empty _ _ ih => exact ih hi
  | url _ _ ih => exact ih hi
  | project _ _ ih => exact ih hi
  | missing _ _ _ ih => exact ih hi
  | seen _ _ _ _ ih => exact ih hi
  | fresh _ hl hv _ _ ih1 ih2 =>
    apply ih2
    apply ih1
    refine ⟨List.nodup_cons.2 ⟨hv, hi.1⟩, ?_⟩
    intro x hx
    rcases List.mem_cons.1 hx with rfl | hx
    · exact lookup_key hl
    · exact hi.2 hx

/-! ## the fuel bound -/

theorem walkList_total (P : Pages) (n : Nat)
    (hrec : ∀ c es st, Inv P st → (keys P).length - st.visited.length < n → ∃ r, walk P n c es st = some r)
    (o : Slug) :
    ∀ es st, Inv P st → (keys P).length - st.visited.length < n + 1 →
      ∃ r, walkList P (walk P n) o es st = some r := by
  intro es
  induction es with
  | nil => intro st _ _; exact ⟨_, rfl⟩
  | cons e es ih =>
    intro st hi hb
    unfold walkList
    split
    · exact ih st hi hb
    · obtain ⟨r, hr⟩ := ih st hi hb; rw [hr]; exact ⟨_, rfl⟩
    · obtain ⟨r, hr⟩ := ih st hi hb; rw [hr]; exact ⟨_, rfl⟩
    · simp only
      split
      · exact ih _ hi hb
      · rename_i pg hl
        split
        · obtain ⟨r, hr⟩ := ih st hi hb; rw [hr]; exact ⟨_, rfl⟩
        · rename_i hv
          have hi1 : Inv P { st with visited := pg.slug :: st.visited } := by
            refine ⟨List.nodup_cons.2 ⟨hv, hi.1⟩, ?_⟩
            intro x hx
            rcases List.mem_cons.1 hx with rfl | hx
            · exact lookup_key hl
            · exact hi.2 hx
          have hlen := nodup_subset_length _ _ hi1.1 hi1.2
          simp only [List.length_cons] at hlen
          obtain ⟨⟨kids, st1⟩, hk⟩ := hrec pg.slug pg.entries _ hi1 (by simp only [List.length_cons]; omega)
          rw [hk]; simp only
          have hw := walk_sound P n _ _ _ _ _ hk
          have hi2 := hw.inv hi1
          obtain ⟨a, ha⟩ := hw.visited_grows
          have hb2 : (keys P).length - st1.visited.length < n + 1 := by
            rw [ha]; simp only [List.length_append, List.length_cons]; omega
          obtain ⟨r, hr⟩ := ih st1 hi2 hb2
          rw [hr]; exact ⟨_, rfl⟩

theorem walk_total (P : Pages) : ∀ n o es st, Inv P st → (keys P).length - st.visited.length < n →
    ∃ r, walk P n o es st = some r := by
  intro n
  induction n with
  | zero => intro o es st _ h; omega
  | succ n ih => intro o es st hi hb; exact walkList_total P n (fun c es st => ih c es st) o es st hi hb

/-! ## specification vocabulary -/

mutual
/-- all nodes of a tree, the node itself first (pre-order) -/
def nodes : Tree → List Tree
  | .node k l t cs => .node k l t cs :: nodesL cs
def nodesL : List Tree → List Tree
  | [] => []
  | t :: ts => nodes t ++ nodesL ts
end

/-- a page node that was built by recursing into the page: it has children -/
def isExpanded (t : Tree) : Bool := t.kind == .page && !t.children.isEmpty

/-- the pages that are expanded somewhere in the forest, one item per expanded node -/
def expandedL (ts : List Tree) : List Slug := ((nodesL ts).filter isExpanded).map Tree.label

/-- `a`'s toctrees hold a slug entry that names the existing page `b` -/
def Step (P : Pages) (a b : Slug) : Prop :=
  ∃ pa e s pb, lookup P a = some pa ∧ e ∈ pa.entries ∧ classify e = .page s ∧
    lookup P (cleanSlug s) = some pb ∧ pb.slug = b

/-- reachability by following toctree entries -/
inductive Reach (P : Pages) (a : Slug) : Slug → Prop
  | refl : Reach P a a
  | tail {b c} : Reach P a b → Step P b c → Reach P a c

theorem Reach.head {P a b c} (h : Step P a b) (r : Reach P b c) : Reach P a c := by
  induction r with
  | refl => exact .tail .refl h
  | tail _ hs ih => exact .tail ih hs

/-- what a node must look like -/
def NodeOk (P : Pages) : Tree → Prop
  | .node .page l t _ => ∃ e s pg, classify e = .page s ∧ lookup P (cleanSlug s) = some pg ∧
      pg.slug = l ∧ t = titleOf e pg
  | .node .url u t cs => cs = [] ∧ ∃ e, classify e = .url u ∧ t = truthy e.title
  | .node .project p t cs => cs = [] ∧ ∃ e, classify e = .project p ∧ t = truthy e.title

theorem nodesL_cons_node (k l t cs ts) :
    nodesL (.node k l t cs :: ts) = .node k l t cs :: (nodesL cs ++ nodesL ts) := by
  simp [nodesL, nodes]

theorem expandedL_nil : expandedL [] = [] := by simp [expandedL, nodesL]

theorem expandedL_cons_leaf (k l t ts) : expandedL (.node k l t [] :: ts) = expandedL ts := by
  rw [expandedL, nodesL_cons_node]
  simp [expandedL, nodesL, isExpanded, Tree.children]

theorem expandedL_cons_page (l t kids ts) :
    expandedL (.node .page l t kids :: ts) =
      (if kids.isEmpty then [] else [l]) ++ expandedL kids ++ expandedL ts := by
  simp only [expandedL, nodesL_cons_node, List.filter_cons, isExpanded, Tree.kind, Tree.children]
  cases kids <;> simp [Tree.label]

/-! ## every page is expanded at most once -/

theorem Walk.expanded_sub {P o es st ts st'} (h : Walk P o es st ts st') :
    ∃ added, st'.visited = added ++ st.visited ∧ (expandedL ts).reverse.Sublist added := by
  induction h with
  | nil => exact ⟨[], rfl, by simp [expandedL_nil]⟩
  | empty _ _ ih => exact ih
  | url _ _ ih => simpa [expandedL_cons_leaf] using ih
  | project _ _ ih => simpa [expandedL_cons_leaf] using ih
  | missing _ _ _ ih => exact ih
  | seen _ _ _ _ ih => simpa [expandedL_cons_leaf] using ih
  | @fresh o e es st ts st1 st2 s pg kids _ _ _ _ _ ih1 ih2 =>
    obtain ⟨a1, h1, s1⟩ := ih1
    obtain ⟨a2, h2, s2⟩ := ih2
    refine ⟨a2 ++ (a1 ++ [pg.slug]), by rw [h2, h1]; simp, ?_⟩
    rw [expandedL_cons_page]
    simp only [List.reverse_append]
    refine List.Sublist.append s2 (List.Sublist.append s1 ?_)
    split <;> simp

/-! ## DFS correctness: visited = reachable -/

theorem Walk.visited_sound {P o es st ts st'} (h : Walk P o es st ts st') :
    ∀ v ∈ st'.visited, v ∈ st.visited ∨
      ∃ e ∈ es, ∃ s pg, classify e = .page s ∧ lookup P (cleanSlug s) = some pg ∧ Reach P pg.slug v := by
  induction h with
  | nil => intro v hv; exact .inl hv
  | empty _ _ ih | url _ _ ih | project _ _ ih | missing _ _ _ ih | seen _ _ _ _ ih =>
    intro v hv
    rcases ih v hv with h | ⟨e', he', r⟩
    · exact .inl h
    · exact .inr ⟨e', List.mem_cons_of_mem _ he', r⟩
  | @fresh o e es st ts st1 st2 s pg kids hc hl _ _ _ ih1 ih2 =>
    intro v hv
    rcases ih2 v hv with h | ⟨e', he', r⟩
    · rcases ih1 v h with h | ⟨e', he', s', pg', hc', hl', r⟩
      · rcases List.mem_cons.1 h with rfl | h
        · exact .inr ⟨e, List.mem_cons_self, s, pg, hc, hl, .refl⟩
        · exact .inl h
      · refine .inr ⟨e, List.mem_cons_self, s, pg, hc, hl, ?_⟩
        exact Reach.head ⟨pg, e', s', pg', lookup_self hl, he', hc', hl', rfl⟩ r
    · exact .inr ⟨e', List.mem_cons_of_mem _ he', r⟩

theorem Walk.visited_complete {P o es st ts st'} (h : Walk P o es st ts st') :
    (∀ e ∈ es, ∀ s pg, classify e = .page s → lookup P (cleanSlug s) = some pg → pg.slug ∈ st'.visited) ∧
    (∀ v ∈ st'.visited, v ∉ st.visited → ∀ w, Step P v w → w ∈ st'.visited) := by
  induction h with
  | nil => exact ⟨by simp, fun v hv hn => absurd hv hn⟩
  | empty hc _ ih | url hc _ ih | project hc _ ih =>
    refine ⟨?_, ih.2⟩
    intro e' he' s pg hc' hl'
    rcases List.mem_cons.1 he' with rfl | he'
    · rw [hc] at hc'; cases hc'
    · exact ih.1 e' he' s pg hc' hl'
  | missing hc hl _ ih =>
    refine ⟨?_, ih.2⟩
    intro e' he' s pg hc' hl'
    rcases List.mem_cons.1 he' with rfl | he'
    · rw [hc] at hc'; cases hc'; rw [hl] at hl'; cases hl'
    · exact ih.1 e' he' s pg hc' hl'
  | seen hc hl hv hw ih =>
    refine ⟨?_, ih.2⟩
    intro e' he' s pg hc' hl'
    rcases List.mem_cons.1 he' with rfl | he'
    · rw [hc] at hc'; cases hc'; rw [hl] at hl'; cases hl'
      exact hw.visited_mono hv
    · exact ih.1 e' he' s pg hc' hl'
  | @fresh o e es st ts st1 st2 s pg kids hc hl hv hw1 hw2 ih1 ih2 =>
    have m2 := hw2.visited_mono
    have m1 := hw1.visited_mono
    refine ⟨?_, ?_⟩
    · intro e' he' s' pg' hc' hl'
      rcases List.mem_cons.1 he' with rfl | he'
      · rw [hc] at hc'; cases hc'; rw [hl] at hl'; cases hl'
        exact m2 (m1 List.mem_cons_self)
      · exact ih2.1 e' he' s' pg' hc' hl'
    · intro v hv2 hnv w hs
      by_cases h1 : v ∈ st1.visited
      · by_cases h0 : v ∈ pg.slug :: st.visited
        · rcases List.mem_cons.1 h0 with rfl | h0
          · obtain ⟨pa, e', s', pb, hla, he', hc', hlb, rfl⟩ := hs
            rw [lookup_self hl] at hla; cases hla
            exact m2 (ih1.1 e' he' s' pb hc' hlb)
          · exact absurd h0 hnv
        · exact m2 (ih1.2 v h1 h0 w hs)
      · exact ih2.2 v hv2 h1 w hs

/-! ## missing entries are reported -/

theorem Walk.missing_mono {P o es st ts st'} (h : Walk P o es st ts st') : st.missing ⊆ st'.missing := by
  induction h with
  | nil => exact fun _ h => h
  | empty _ _ ih | url _ _ ih | project _ _ ih | seen _ _ _ _ ih => exact ih
  | missing _ _ _ ih => exact fun x hx => ih (List.mem_append_left _ hx)
  | fresh _ _ _ _ _ ih1 ih2 => exact fun x hx => ih2 (ih1 hx)

theorem Walk.missing_sound {P o es st ts st'} (h : Walk P o es st ts st') :
    ∀ m ∈ st'.missing, m ∈ st.missing ∨ lookup P m.2 = none := by
  induction h with
  | nil => exact fun m hm => .inl hm
  | empty _ _ ih | url _ _ ih | project _ _ ih | seen _ _ _ _ ih => exact ih
  | missing _ hl _ ih =>
    intro m hm
    rcases ih m hm with h | h
    · rcases List.mem_append.1 h with h | h
      · exact .inl h
      · simp only [List.mem_singleton] at h; subst h; exact .inr hl
    · exact .inr h
  | fresh _ _ _ _ _ ih1 ih2 =>
    intro m hm
    rcases ih2 m hm with h | h
    · exact ih1 m h
    · exact .inr h

theorem Walk.missing_complete {P o es st ts st'} (h : Walk P o es st ts st') :
    (∀ e ∈ es, ∀ s, classify e = .page s → lookup P (cleanSlug s) = none → (o, cleanSlug s) ∈ st'.missing) ∧
    (∀ v ∈ st'.visited, v ∉ st.visited → ∀ pa e s, lookup P v = some pa → e ∈ pa.entries →
      classify e = .page s → lookup P (cleanSlug s) = none → (v, cleanSlug s) ∈ st'.missing) := by
  induction h with
  | nil => exact ⟨by simp, fun v hv hn => absurd hv hn⟩
  | empty hc _ ih | url hc _ ih | project hc _ ih =>
    refine ⟨?_, ih.2⟩
    intro e' he' s hc' hl'
    rcases List.mem_cons.1 he' with rfl | he'
    · rw [hc] at hc'; cases hc'
    · exact ih.1 e' he' s hc' hl'
  | missing hc hl hw ih =>
    refine ⟨?_, ih.2⟩
    intro e' he' s hc' hl'
    rcases List.mem_cons.1 he' with rfl | he'
    · rw [hc] at hc'; cases hc'
      exact hw.missing_mono (List.mem_append_right _ (List.mem_singleton.2 rfl))
    · exact ih.1 e' he' s hc' hl'
  | seen hc hl hv hw ih =>
    refine ⟨?_, ih.2⟩
    intro e' he' s hc' hl'
    rcases List.mem_cons.1 he' with rfl | he'
    · rw [hc] at hc'; cases hc'; rw [hl] at hl'; cases hl'
    · exact ih.1 e' he' s hc' hl'
  | @fresh o e es st ts st1 st2 s pg kids hc hl hv hw1 hw2 ih1 ih2 =>
    have m2 := hw2.missing_mono
    refine ⟨?_, ?_⟩
    · intro e' he' s' hc' hl'
      rcases List.mem_cons.1 he' with rfl | he'
      · rw [hc] at hc'; cases hc'; rw [hl] at hl'; cases hl'
      · exact ih2.1 e' he' s' hc' hl'
    · intro v hv2 hnv pa e' s' hla he' hc' hl'
      by_cases h1 : v ∈ st1.visited
      · by_cases h0 : v ∈ pg.slug :: st.visited
        · rcases List.mem_cons.1 h0 with rfl | h0
          · rw [lookup_self hl] at hla; cases hla
            exact m2 (ih1.1 e' he' s' hc' hl')
          · exact absurd h0 hnv
        · exact m2 (ih1.2 v h1 h0 pa e' s' hla he' hc' hl')
      · exact ih2.2 v hv2 h1 pa e' s' hla he' hc' hl'

/-! ## shape of the nodes -/

theorem Walk.nodes_ok {P o es st ts st'} (h : Walk P o es st ts st') : ∀ t ∈ nodesL ts, NodeOk P t := by
  induction h with
  | nil => simp [nodesL]
  | empty _ _ ih | missing _ _ _ ih => exact ih
  | @url o e es st ts st' u hc _ ih =>
    intro t ht
    rw [nodesL_cons_node] at ht
    rcases List.mem_cons.1 ht with rfl | ht
    · exact ⟨rfl, e, hc, rfl⟩
    · simp only [nodesL, List.nil_append] at ht; exact ih t ht
  | @project o e es st ts st' p hc _ ih =>
    intro t ht
    rw [nodesL_cons_node] at ht
    rcases List.mem_cons.1 ht with rfl | ht
    · exact ⟨rfl, e, hc, rfl⟩
    · simp only [nodesL, List.nil_append] at ht; exact ih t ht
  | @seen o e es st ts st' s pg hc hl _ _ ih =>
    intro t ht
    rw [nodesL_cons_node] at ht
    rcases List.mem_cons.1 ht with rfl | ht
    · exact ⟨e, s, pg, hc, hl, rfl, rfl⟩
    · simp only [nodesL, List.nil_append] at ht; exact ih t ht
  | @fresh o e es st ts st1 st2 s pg kids hc hl _ _ _ ih1 ih2 =>
    intro t ht
    rw [nodesL_cons_node] at ht
    rcases List.mem_cons.1 ht with rfl | ht
    · exact ⟨e, s, pg, hc, hl, rfl, rfl⟩
    · rcases List.mem_append.1 ht with ht | ht
      · exact ih1 t ht
      · exact ih2 t ht

/-! ## pre-order -/

theorem slugKey_irrel (k l t cs) : (Tree.node k l none []).slugKey = (Tree.node k l t cs).slugKey := by
  cases k <;> rfl

theorem preOrderAcc_spec (t : Tree) :
    ∀ order, preOrderAcc t order = order ++ (nodes t).filterMap Tree.slugKey := by
  refine Tree.rec (motive_1 := fun t => ∀ order, preOrderAcc t order = order ++ (nodes t).filterMap Tree.slugKey)
    (motive_2 := fun ts => ∀ order, preOrderAccL ts order = order ++ (nodesL ts).filterMap Tree.slugKey)
    ?_ ?_ ?_ t
  · intro k l t cs ih order
    rw [preOrderAcc, nodes, List.filterMap_cons, ← slugKey_irrel k l t cs]
    cases h : (Tree.node k l none []).slugKey <;> simp [ih]
  · intro order; simp [preOrderAccL, nodesL]
  · intro t ts ih1 ih2 order
    rw [preOrderAccL, ih2, ih1, nodesL]; simp

theorem preOrderAccL_spec (ts : List Tree) :
    ∀ order, preOrderAccL ts order = order ++ (nodesL ts).filterMap Tree.slugKey := by
  induction ts with
  | nil => intro order; simp [preOrderAccL, nodesL]
  | cons t ts ih => intro order; rw [preOrderAccL, ih, preOrderAcc_spec, nodesL]; simp

/-! ## get_paths and breadcrumbs -/

/-- `Occ ts p x`: the forest holds a slug-bearing node whose cleaned slug is `x` and whose
ancestors' cleaned slugs are `p`, outermost first -/
inductive Occ : List Tree → List Str → Str → Prop
  | here {ts t s} : t ∈ ts → t.slugKey = some s → Occ ts [] (cleanSlug s)
  | under {ts t s p x} : t ∈ ts → t.slugKey = some s → Occ t.children p x → Occ ts (cleanSlug s :: p) x

theorem Occ.ne_nil {ts p x} (h : Occ ts p x) : ts ≠ [] := by
  induction h with
  | here hm _ => intro e; subst e; cases hm
  | under hm _ _ _ => intro e; subst e; cases hm

/-- a downward chain of slug-bearing nodes starting in the forest -/
inductive Branch : List Tree → List Str → Prop
  | stop {ts} : Branch ts []
  | step {ts t s rest} : t ∈ ts → t.slugKey = some s → Branch t.children rest → Branch ts (cleanSlug s :: rest)

theorem Branch.mono {ts ts' c} (h : Branch ts c) (hs : ts ⊆ ts') : Branch ts' c := by
  cases h with
  | stop => exact .stop
  | step hm hk hb => exact .step (hs hm) hk hb

theorem Branch.occ {ts c} (h : Branch ts c) : ∀ i x, c[i]? = some x → Occ ts (c.take i) x := by
  induction h with
  | stop => intro i x hx; simp at hx
  | step hm hk _ ih =>
    intro i x hx
    cases i with
    | zero => simp at hx; subst hx; exact .here hm hk
    | succ i => simp at hx; simpa using Occ.under hm hk (ih i x hx)

theorem getPathsAcc_sound (t : Tree) :
    ∀ path all, ∀ q ∈ getPathsAcc t path all, q ∈ all ∨ ∃ c, q = path ++ c ∧ Branch [t] c := by
  refine Tree.rec
    (motive_1 := fun t => ∀ path all, ∀ q ∈ getPathsAcc t path all, q ∈ all ∨ ∃ c, q = path ++ c ∧ Branch [t] c)
    (motive_2 := fun ts => ∀ path all, ∀ q ∈ getPathsAccL ts path all, q ∈ all ∨ ∃ c, q = path ++ c ∧ Branch ts c)
    ?_ ?_ ?_ t
  · intro k l t cs ih path all q hq
    rw [getPathsAcc] at hq
    have hk := slugKey_irrel k l t cs
    split at hq
    · split at hq
      · rename_i s hs
        rcases List.mem_append.1 hq with h | h
        · exact .inl h
        · simp only [List.mem_singleton] at h
          refine .inr ⟨[cleanSlug s], h, ?_⟩
          exact .step List.mem_cons_self (hk ▸ hs) .stop
      · rcases List.mem_append.1 hq with h | h
        · exact .inl h
        · simp only [List.mem_singleton] at h
          exact .inr ⟨[], by simp [h], .stop⟩
    · split at hq
      · rename_i s hs
        rcases ih _ _ q hq with h | ⟨c, hc, hb⟩
        · exact .inl h
        · refine .inr ⟨cleanSlug s :: c, by simp [hc], ?_⟩
          exact .step List.mem_cons_self (hk ▸ hs) hb
      · exact .inl hq
  · intro path all q hq; rw [getPathsAccL] at hq; exact .inl hq
  · intro t ts ih1 ih2 path all q hq
    rw [getPathsAccL] at hq
    rcases ih2 _ _ q hq with h | ⟨c, hc, hb⟩
    · rcases ih1 _ _ q h with h | ⟨c, hc, hb⟩
      · exact .inl h
      · exact .inr ⟨c, hc, hb.mono (by simp)⟩
    · exact .inr ⟨c, hc, hb.mono (by simp)⟩

theorem getPathsAccL_sound (ts : List Tree) :
    ∀ path all, ∀ q ∈ getPathsAccL ts path all, q ∈ all ∨ ∃ c, q = path ++ c ∧ Branch ts c := by
  induction ts with
  | nil => intro path all q hq; rw [getPathsAccL] at hq; exact .inl hq
  | cons t ts ih =>
    intro path all q hq
    rw [getPathsAccL] at hq
    rcases ih _ _ q hq with h | ⟨c, hc, hb⟩
    · rcases getPathsAcc_sound t _ _ q h with h | ⟨c, hc, hb⟩
      · exact .inl h
      · exact .inr ⟨c, hc, hb.mono (by simp)⟩
    · exact .inr ⟨c, hc, hb.mono (by simp)⟩

theorem dictGet_dictSet (d : List (Str × List Str)) (k k' : Str) (v : List Str) :
    dictGet (dictSet d k v) k' = if k = k' then some v else dictGet d k' := by
  induction d with
  | nil => simp [dictSet, dictGet]
  | cons hd tl ih =>
    obtain ⟨a, b⟩ := hd
    simp only [dictSet]
    by_cases h : a = k
    · subst h; simp only [if_true, dictGet]; split <;> rfl
    · simp only [h, if_false, dictGet, ih]
      by_cases h2 : a = k'
      · have : ¬ k = k' := fun e => h (e ▸ h2)
        simp [h2, this]
      · simp [h2]

theorem crumbPath_sound (rest : List Str) : ∀ d pre k v, dictGet (crumbPath d pre rest) k = some v →
    dictGet d k = some v ∨ ∃ i, rest[i]? = some k ∧ v = pre ++ rest.take i := by
  induction rest with
  | nil => intro d pre k v h; exact .inl h
  | cons s rest ih =>
    intro d pre k v h
    rw [crumbPath] at h
    rcases ih _ _ k v h with h | ⟨i, hi, hv⟩
    · rw [dictGet_dictSet] at h
      split at h
      · rename_i hsk; cases h; exact .inr ⟨0, by simp [hsk], by simp⟩
      · exact .inl h
    · exact .inr ⟨i + 1, by simpa using hi, by simp [hv]⟩

theorem crumbAll_sound (paths : List (List Str)) : ∀ d k v, dictGet (crumbAll d paths) k = some v →
    dictGet d k = some v ∨ ∃ q ∈ paths, ∃ i, q[i]? = some k ∧ v = q.take i := by
  induction paths with
  | nil => intro d k v h; exact .inl h
  | cons p ps ih =>
    intro d k v h
    rw [crumbAll] at h
    rcases ih _ k v h with h | ⟨q, hq, r⟩
    · rcases crumbPath_sound p _ _ k v h with h | ⟨i, hi, hv⟩
      · exact .inl h
      · exact .inr ⟨p, List.mem_cons_self, i, hi, by simpa using hv⟩
    · exact .inr ⟨q, List.mem_cons_of_mem _ hq, r⟩

/-- keys are never lost -/
theorem crumbPath_keys (rest : List Str) : ∀ d pre k,
    ((dictGet d k).isSome ∨ k ∈ rest) → (dictGet (crumbPath d pre rest) k).isSome := by
  induction rest with
  | nil => intro d pre k h; rcases h with h | h; exact h; simp at h
  | cons s rest ih =>
    intro d pre k h
    rw [crumbPath]
    apply ih
    by_cases hs : s = k
    · left; rw [dictGet_dictSet]; simp [hs]
    · rcases h with h | h
      · left; rw [dictGet_dictSet]; simp [hs, h]
      · right; rcases List.mem_cons.1 h with h | h
        · exact absurd h.symm hs
        · exact h

theorem crumbAll_keys (paths : List (List Str)) : ∀ d k,
    ((dictGet d k).isSome ∨ ∃ q ∈ paths, k ∈ q) → (dictGet (crumbAll d paths) k).isSome := by
  induction paths with
  | nil => intro d k h; rcases h with h | ⟨q, hq, _⟩; exact h; simp at hq
  | cons p ps ih =>
    intro d k h
    rw [crumbAll]
    apply ih
    rcases h with h | ⟨q, hq, hk⟩
    · exact .inl (crumbPath_keys p d [] k (.inl h))
    · rcases List.mem_cons.1 hq with rfl | hq
      · exact .inl (crumbPath_keys q d [] k (.inr hk))
      · exact .inr ⟨q, hq, hk⟩

/-- accumulator = append -/
theorem getPathsAcc_append (t : Tree) :
    ∀ path all, getPathsAcc t path all = all ++ getPathsAcc t path [] := by
  refine Tree.rec
    (motive_1 := fun t => ∀ path all, getPathsAcc t path all = all ++ getPathsAcc t path [])
    (motive_2 := fun ts => ∀ path all, getPathsAccL ts path all = all ++ getPathsAccL ts path [])
    ?_ ?_ ?_ t
  · intro k l t cs ih path all
    rw [getPathsAcc, getPathsAcc]
    split
    · split <;> simp
    · split
      · exact ih _ _
      · simp
  · intro path all; simp [getPathsAccL]
  · intro t ts ih1 ih2 path all
    rw [getPathsAccL, getPathsAccL, ih2, ih1, ih2 path (getPathsAcc t path [])]; simp

theorem getPathsAccL_cons (t : Tree) (ts : List Tree) (path : List Str) :
    getPathsAccL (t :: ts) path [] = getPathsAcc t path [] ++ getPathsAccL ts path [] := by
  have h : ∀ ts path all, getPathsAccL ts path all = all ++ getPathsAccL ts path [] := by
    intro ts
    induction ts with
    | nil => intro path all; simp [getPathsAccL]
    | cons t ts ih =>
      intro path all
      rw [getPathsAccL, getPathsAccL, ih, getPathsAcc_append, ih path (getPathsAcc t path [])]; simp
  rw [getPathsAccL, h]

theorem getPathsAccL_mem {t : Tree} {ts : List Tree} (hm : t ∈ ts) (path : List Str) :
    ∀ q ∈ getPathsAcc t path [], q ∈ getPathsAccL ts path [] := by
  induction ts with
  | nil => cases hm
  | cons a ts ih =>
    intro q hq
    rw [getPathsAccL_cons]
    rcases List.mem_cons.1 hm with rfl | hm
    · exact List.mem_append_left _ hq
    · exact List.mem_append_right _ (ih hm q hq)

/-- nodes without a slug key (URL nodes) are leaves -/
def LeavesOk (ts : List Tree) : Prop := ∀ t ∈ nodesL ts, t.slugKey = none → t.children = []

theorem nodes_self (t : Tree) : t ∈ nodes t := by
  cases t; simp [nodes]

theorem nodesL_mem {t : Tree} {ts : List Tree} (h : t ∈ ts) : ∀ x ∈ nodes t, x ∈ nodesL ts := by
  induction ts with
  | nil => cases h
  | cons a ts ih =>
    intro x hx
    rw [nodesL]
    rcases List.mem_cons.1 h with rfl | h
    · exact List.mem_append_left _ hx
    · exact List.mem_append_right _ (ih h x hx)

theorem LeavesOk.children {ts : List Tree} (h : LeavesOk ts) {t : Tree} (hm : t ∈ ts) : LeavesOk t.children := by
  intro x hx
  apply h
  apply nodesL_mem hm
  cases t with
  | node k l tt cs => simp only [nodes, Tree.children] at *; exact List.mem_cons_of_mem _ hx

/-- a non-empty well-formed forest records at least one path -/
theorem getPathsAcc_nonempty (t : Tree) : LeavesOk [t] → ∀ path, getPathsAcc t path [] ≠ [] := by
  refine Tree.rec
    (motive_1 := fun t => LeavesOk [t] → ∀ path, getPathsAcc t path [] ≠ [])
    (motive_2 := fun ts => LeavesOk ts → ts ≠ [] → ∀ path, getPathsAccL ts path [] ≠ [])
    ?_ ?_ ?_ t
  · intro k l t cs ih hok path
    rw [getPathsAcc]
    split
    · split <;> simp
    · rename_i hne
      split
      · apply ih
        · exact LeavesOk.children hok (t := .node k l t cs) List.mem_cons_self
        · intro h; subst h; simp at hne
      · rename_i hs
        have := hok (.node k l t cs) (nodesL_mem List.mem_cons_self _ (nodes_self _)) (slugKey_irrel k l t cs ▸ hs)
        simp only [Tree.children] at this
        subst this; simp at hne
  · intro _ h; exact absurd rfl h
  · intro t ts ih1 _ hok _ path
    rw [getPathsAccL_cons]
    have : getPathsAcc t path [] ≠ [] := ih1 (fun x hx => hok x (by
      rw [nodesL] at hx ⊢; simp only [nodesL, List.append_nil] at hx; exact List.mem_append_left _ hx)) path
    intro h
    exact this (List.append_eq_nil_iff.1 h).1

theorem getPaths_cover {ts : List Tree} {p : List Str} {x : Str} (h : Occ ts p x) :
    LeavesOk ts → ∀ path, ∃ q ∈ getPathsAccL ts path [], ∃ more, q = path ++ p ++ x :: more := by
  induction h with
  | @here ts t s hm hk =>
    intro hok path
    cases t with
    | node k l tt cs =>
      have hk' : (Tree.node k l none []).slugKey = some s := (slugKey_irrel k l tt cs).trans hk
      by_cases hc : cs.isEmpty
      · refine ⟨path ++ [cleanSlug s], getPathsAccL_mem hm path _ ?_, [], by simp⟩
        rw [getPathsAcc]; simp [hc, hk']
      · have hne : getPathsAccL cs (path ++ [cleanSlug s]) [] ≠ [] := by
          have := getPathsAcc_nonempty (.node k l tt cs)
            (fun y hy => hok y (by
              simp only [nodesL, List.append_nil] at hy; exact nodesL_mem hm y hy)) path
          rw [getPathsAcc] at this; simpa [hc, hk'] using this
        obtain ⟨q, hq⟩ := List.exists_mem_of_ne_nil _ hne
        refine ⟨q, getPathsAccL_mem hm path _ (by rw [getPathsAcc]; simpa [hc, hk'] using hq), ?_⟩
        rcases getPathsAccL_sound cs _ _ q hq with h | ⟨c, hc', _⟩
        · cases h
        · exact ⟨c, by simp [hc']⟩
  | @under ts t s p x hm hk hocc ih =>
    intro hok path
    cases t with
    | node k l tt cs =>
      have hk' : (Tree.node k l none []).slugKey = some s := (slugKey_irrel k l tt cs).trans hk
      simp only [Tree.children] at hocc ih
      have hc : cs.isEmpty = false := by
        have := hocc.ne_nil
        cases cs with
        | nil => exact absurd rfl this
        | cons _ _ => rfl
      obtain ⟨q, hq, more, hqe⟩ := ih (LeavesOk.children hok (t := .node k l tt cs) hm) (path ++ [cleanSlug s])
      refine ⟨q, getPathsAccL_mem hm path _ (by rw [getPathsAcc]; simpa [hc, hk'] using hq), more, ?_⟩
      simp [hqe]

/-! ## the pages named by the tree are the visited ones -/

theorem Walk.labels_visited {P o es st ts st'} (h : Walk P o es st ts st') :
    ∀ t ∈ nodesL ts, t.kind = .page → t.label ∈ st'.visited := by
  induction h with
  | nil => simp [nodesL]
  | empty _ _ ih | missing _ _ _ ih => exact ih
  | url _ _ ih | project _ _ ih =>
    intro t ht hk
    rw [nodesL_cons_node] at ht
    rcases List.mem_cons.1 ht with rfl | ht
    · cases hk
    · simp only [nodesL, List.nil_append] at ht; exact ih t ht hk
  | seen _ _ hv hw ih =>
    intro t ht hk
    rw [nodesL_cons_node] at ht
    rcases List.mem_cons.1 ht with rfl | ht
    · exact hw.visited_mono hv
    · simp only [nodesL, List.nil_append] at ht; exact ih t ht hk
  | fresh _ _ _ hw1 hw2 ih1 ih2 =>
    intro t ht hk
    rw [nodesL_cons_node] at ht
    rcases List.mem_cons.1 ht with rfl | ht
    · exact hw2.visited_mono (hw1.visited_mono List.mem_cons_self)
    · rcases List.mem_append.1 ht with ht | ht
      · exact hw2.visited_mono (ih1 t ht hk)
      · exact ih2 t ht hk

theorem Walk.visited_labels {P o es st ts st'} (h : Walk P o es st ts st') :
    ∀ v ∈ st'.visited, v ∈ st.visited ∨ ∃ t ∈ nodesL ts, t.kind = .page ∧ t.label = v := by
  induction h with
  | nil => exact fun v hv => .inl hv
  | empty _ _ ih | missing _ _ _ ih => exact ih
  | url _ _ ih | project _ _ ih | seen _ _ _ _ ih =>
    intro v hv
    rcases ih v hv with h | ⟨t, ht, r⟩
    · exact .inl h
    · refine .inr ⟨t, ?_, r⟩
      rw [nodesL_cons_node]; simp only [nodesL, List.nil_append]; exact List.mem_cons_of_mem _ ht
  | @fresh o e es st ts st1 st2 s pg kids _ _ _ _ _ ih1 ih2 =>
    intro v hv
    rw [nodesL_cons_node]
    rcases ih2 v hv with h | ⟨t, ht, r⟩
    · rcases ih1 v h with h | ⟨t, ht, r⟩
      · rcases List.mem_cons.1 h with rfl | h
        · exact .inr ⟨_, List.mem_cons_self, rfl, rfl⟩
        · exact .inl h
      · exact .inr ⟨t, List.mem_cons_of_mem _ (List.mem_append_left _ ht), r⟩
    · exact .inr ⟨t, List.mem_cons_of_mem _ (List.mem_append_right _ ht), r⟩

/-! ## build_toctree as a `Walk` -/

theorem startPage_lookup {P : Pages} {sp : Page} (h : startPage P = some sp) : lookup P sp.slug = some sp := by
  unfold startPage at h
  repeat' split at h
  all_goals cases h
  all_goals (apply lookup_self; assumption)

theorem startPage_isTxt {P : Pages} {sp : Page} (h : startPage P = some sp) : sp.isTxt = true := by
  unfold startPage at h
  repeat' split at h
  all_goals cases h
  all_goals assumption

theorem buildToc_none {P : Pages} {fuel : Nat} {r : Result} (h : buildToc P fuel = some r)
    (hs : startPage P = none) : r = { tree := none, visited := [], missing := [], orphans := [] } := by
  unfold buildToc at h; rw [hs] at h; cases h; rfl

theorem buildToc_walk {P : Pages} {fuel : Nat} {r : Result} {sp : Page} (h : buildToc P fuel = some r)
    (hs : startPage P = some sp) :
    ∃ ts st, Walk P sp.slug sp.entries { visited := [sp.slug], missing := [] } ts st ∧
      r = { tree := some ts, visited := st.visited, missing := st.missing, orphans := orphansOf P st.visited } := by
  unfold buildToc at h; rw [hs] at h; simp only at h
  split at h
  · cases h
  · rename_i ts st hw; cases h
    exact ⟨ts, st, walk_sound P _ _ _ _ _ _ hw, rfl⟩

theorem inv_start {P : Pages} {sp : Page} (hs : startPage P = some sp) :
    Inv P { visited := [sp.slug], missing := [] } := by
  refine ⟨by simp, ?_⟩
  intro x hx
  simp only [List.mem_singleton] at hx
  subst hx
  exact lookup_key (startPage_lookup hs)

/-! ## the children of a node are the entries of its page, in order -/

/-- kind, label and title of a node (what one toctree entry contributes) -/
def Tree.head : Tree → Kind × Str × Option Str
  | .node k l t _ => (k, l, t)

/-- the node an entry gives rise to; `none`: nothing is emitted (empty entry, or no such page) -/
def emitOf (P : Pages) (e : Entry) : Option (Kind × Str × Option Str) :=
  match classify e with
  | .empty => none
  | .url u => some (.url, u, truthy e.title)
  | .project p => some (.project, p, truthy e.title)
  | .page s => (lookup P (cleanSlug s)).map (fun pg => (.page, pg.slug, titleOf e pg))

theorem Walk.heads {P o es st ts st'} (h : Walk P o es st ts st') :
    ts.map Tree.head = es.filterMap (emitOf P) := by
  induction h with
  | nil => rfl
  | empty hc _ ih => simp [emitOf, hc, ih]
  | url hc _ ih => simp [emitOf, hc, ih, Tree.head]
  | project hc _ ih => simp [emitOf, hc, ih, Tree.head]
  | missing hc hl _ ih => simp [emitOf, hc, hl, ih]
  | seen hc hl _ _ ih => simp [emitOf, hc, hl, ih, Tree.head]
  | fresh hc hl _ _ _ _ ih2 => simp [emitOf, hc, hl, ih2, Tree.head]

theorem Walk.expanded_children {P o es st ts st'} (h : Walk P o es st ts st') :
    ∀ t ∈ nodesL ts, isExpanded t = true →
      ∃ pg, lookup P t.label = some pg ∧ t.children.map Tree.head = pg.entries.filterMap (emitOf P) := by
  induction h with
  | nil => simp [nodesL]
  | empty _ _ ih | missing _ _ _ ih => exact ih
  | url _ _ ih | project _ _ ih | seen _ _ _ _ ih =>
    intro t ht hx
    rw [nodesL_cons_node] at ht
    rcases List.mem_cons.1 ht with rfl | ht
    · simp [isExpanded, Tree.children] at hx
    · simp only [nodesL, List.nil_append] at ht; exact ih t ht hx
  | @fresh o e es st ts st1 st2 s pg kids _ hl _ hw1 _ ih1 ih2 =>
    intro t ht hx
    rw [nodesL_cons_node] at ht
    rcases List.mem_cons.1 ht with rfl | ht
    · exact ⟨pg, lookup_self hl, hw1.heads⟩
    · rcases List.mem_append.1 ht with ht | ht
      · exact ih1 t ht hx
      · exact ih2 t ht hx


/-! ## validate_toc_entries -/

theorem validate_fold (bad : Entry → Bool) (xs : List Entry) :
    ∀ g : List Entry, (∀ y ∈ g, bad y = false) →
      xs.foldl (fun l e => if bad e then l.erase e else l) (g ++ xs) = g ++ xs.filter (fun e => !bad e) := by
  induction xs with
  | nil => intro g _; simp
  | cons x xs ih =>
    intro g hg
    by_cases hb : bad x = true
    · have hx : x ∉ g := fun hm => by have := hg x hm; simp [hb] at this
      have : (g ++ x :: xs).erase x = g ++ xs := by
        rw [List.erase_append_right _ hx]; simp
      simp only [List.foldl_cons, hb, if_true, this]
      rw [ih g hg]; simp [hb]
    · have hb' : bad x = false := by simpa using hb
      simp only [List.foldl_cons, hb', Bool.false_eq_true, if_false]
      have := ih (g ++ [x]) (by
        intro y hy; rcases List.mem_append.1 hy with h | h
        · exact hg y h
        · simp at h; subst h; exact hb')
      simp only [List.append_assoc, List.singleton_append] at this
      rw [this]; simp [hb']

end SnootyVerif.Toc
