/-
Model of the Giza YAML pipeline (property C18).

Mirrors, for the code in /repo after the `fix:` for D16 (extract `only:`):
* `snooty/gizaparser/nodes.py`: `substitute_text`, `substitute`, `Inheritable.get_ref`,
  `Inheritable.parent_information`, `inherit`, `GizaCategory.reify`, `reify_all_files`;
* `snooty/gizaparser/parse.py: parse` (control flow after PyYAML / `check_type`, whose verdict per
  document is an input of the model: YAML loading is assumed, DESIGN section 6 C18);
* `snooty/gizaparser/{steps,extracts,release}.py`: `parse` (MissingRef filter), `_generate_pages`.

Conventions
* text whose characters matter (`ref.startswith("_")`, `{{name}}` scanning) is `List Char`;
  file names are opaque `String`s.
* a field value is an S-expression: `str` (substituted), `atom` (int / bool / list: copied, never
  substituted), `nil`/`cons` (the fields of a nested dataclass in declaration order; `substitute`
  recurses into those).  `none` in `fields` is Python `None`.
* Python `dict` = association list in insertion order, `set` = list.
* `reify` recursion = fuel; exhaustion is `.error .recursionError` (Python: RecursionError); the
  theorem `resolve_fuel_sufficient` shows the fuel used by `reifyEntry` is never exhausted.
* the in-place writes of `reify` (`_parent.ref = ""`, `obj.ref = _parent.get_ref()`, `obj.ref = ""`)
  only touch `ref`, never change `get_ref()` of any entry, and are recomputed identically by every
  later call, except that an entry whose parent lookup failed may be left with `ref = None` or
  `ref = ""` depending on call order.  The model is therefore pure; the harness identifies
  `None` and `""` for `ref` when comparing (and only there).
-/
namespace SnootyVerif.Giza

abbrev Text := List Char

inductive Val where
  | str (s : Text)
  | atom (a : String)
  | nil
  | cons (h t : Val)
  deriving DecidableEq, Repr, Inhabited

structure Ptr where
  file : String
  ref : Text
  deriving DecidableEq, Repr

abbrev Repl := List (Text × Text)

structure Entry where
  ref : Option Text
  replacement : Option Repl
  source : Option Ptr
  inherit : Option Ptr
  /-- `Inheritable.keys()`: every dataclass field except ref/replacement/source/inherit -/
  fields : List (Option Val)
  deriving DecidableEq, Repr

inductive Diag where
  | errorParsingYAMLFile
  | unmarshallingError
  | missingRef
  | cannotOpenFile (file : String)
  | failedToInheritRef
  | inheritanceCycle            -- class FailedToInheritRef, message "Inheritance cycle …"
  | refAlreadyExists (ref : Text)
  | unknownSubstitution (name : Text)
  | invalidField                -- D16 fix: extract with `only` set
  deriving DecidableEq, Repr

inductive PyErr where
  | recursionError
  | assertionError
  deriving DecidableEq, Repr

abbrev Key := String × Text
/-- `GizaCategory.nodes`: file name → parsed entries -/
abbrev Registry := List (String × List Entry)

/-! ### placeholder substitution (`substitute_text`, PAT_SUBSTITUTION = `\{\{([\w-]+)\}\}`) -/

/-- `[\w-]`; `isWord` is Python's `\w` (parameter, DESIGN section 4). -/
def isNameChar (isWord : Char → Bool) (c : Char) : Bool := isWord c || c == '-'

/-- the maximal run of name characters at the start of `t` and what follows it (`[\w-]*`, greedy) -/
def spanName (p : Char → Bool) : Text → Text × Text
  | [] => ([], [])
  | c :: cs => if p c then let r := spanName p cs; (c :: r.1, r.2) else ([], c :: cs)

/-- does the regex match at the start of `t`?  returns (group 1, text after the match).
`[\w-]+` is greedy and `}` is not a name character, so no backtracking can help. -/
def matchAt (isName : Char → Bool) : Text → Option (Text × Text)
  | '{' :: '{' :: r =>
    match spanName isName r with
    | ([], _) => none
    | (nm, '}' :: '}' :: rest) => some (nm, rest)
    | _ => none
  | _ => none

/-- `re.sub` scan: leftmost non-overlapping matches, replacement text not rescanned. -/
def substAux (isName : Char → Bool) (env : Text → Option Text) : Nat → Text → Text × List Diag
  | 0, t => (t, [])
  | _ + 1, [] => ([], [])
  | f + 1, c :: cs =>
    match matchAt isName (c :: cs) with
    | some (nm, rest) =>
      let r := substAux isName env f rest
      match env nm with
      | some v => (v ++ r.1, r.2)
      | none => (r.1, Diag.unknownSubstitution nm :: r.2)
    | none =>
      let r := substAux isName env f cs
      (c :: r.1, r.2)

def substituteText (isName : Char → Bool) (env : Text → Option Text) (t : Text) : Text × List Diag :=
  substAux isName env t.length t

/-- `substitute(obj, …)`: strings are substituted, dataclasses recursively, anything else kept. -/
def substVal (isName : Char → Bool) (env : Text → Option Text) : Val → Val × List Diag
  | .str s => let r := substituteText isName env s; (.str r.1, r.2)
  | .atom a => (.atom a, [])
  | .nil => (.nil, [])
  | .cons h t =>
    let a := substVal isName env h
    let b := substVal isName env t
    (.cons a.1 b.1, a.2 ++ b.2)

/-- `for field_name in obj.keys(): if value is not None: changes[field] = substitute(value, …)` -/
def substFields (isName : Char → Bool) (env : Text → Option Text) :
    List (Option Val) → List (Option Val) × List Diag
  | [] => ([], [])
  | none :: fs => let r := substFields isName env fs; (none :: r.1, r.2)
  | some v :: fs =>
    let a := substVal isName env v
    let r := substFields isName env fs
    (some a.1 :: r.1, a.2 ++ r.2)

/-! ### inheritance -/

/-- Python truthiness of `Optional[str]` -/
def truthy : Option Text → Bool
  | some (_ :: _) => true
  | _ => false

/-- `self.source or self.inherit` (an `Inherit` dataclass instance is always truthy) -/
def parentInfo (e : Entry) : Option Ptr :=
  match e.source with
  | some p => some p
  | none => e.inherit

/-- `Inheritable.get_ref` -/
def getRef (e : Entry) : Option Text :=
  if truthy e.ref then e.ref
  else match parentInfo e with
    | some p => some p.ref
    | none => none

/-- `for src, dest in parent.replacement.items(): if src not in replacement: replacement[src] = dest` -/
def addMissing (acc : Repl) : Repl → Repl
  | [] => acc
  | (k, v) :: ps =>
    if (acc.lookup k).isSome then addMissing acc ps else addMissing (acc ++ [(k, v)]) ps

/-- root-level keys: `if parent is not None and value is None: take the parent's` -/
def mergeFields : List (Option Val) → List (Option Val) → List (Option Val)
  | [], ps => ps
  | c :: cs, [] => c :: cs
  | c :: cs, p :: ps => (match c with | some v => some v | none => p) :: mergeFields cs ps

/-- `inherit(obj, parent, diagnostics)` -/
def inheritFrom (obj : Entry) (parent : Option Entry) : Entry :=
  let base : Repl := match obj.replacement with | some r => r | none => []
  match parent with
  | none => { obj with replacement := some base }
  | some p =>
    { obj with
      replacement := some (match p.replacement with | some pr => addMissing base pr | none => base)
      fields := mergeFields obj.fields p.fields }

/-- `if obj.ref is None: obj.ref = ""` -/
def fixRef (e : Entry) : Entry :=
  match e.ref with
  | none => { e with ref := some [] }
  | some _ => e

/-- `next(x for x in parent_sequence if x.get_ref() == parent_identifier.ref)` -/
def findParent (seq : List Entry) (r : Text) : Option Entry :=
  seq.find? (fun x => getRef x == some r)

structure Resolved where
  /-- false: early `return obj` (unmerged) after a diagnostic -/
  merged : Bool
  entry : Entry
  diags : List Diag
  deriving DecidableEq, Repr

/-- the inheritance half of `GizaCategory.reify` (everything up to and including `inherit`);
the parent is reified by this same function (`refs_set=None, do_substitutions=False`). -/
def resolve (reg : Registry) : Nat → List Key → Entry → Except PyErr Resolved
  | 0, _, _ => .error .recursionError
  | fuel + 1, cs, obj =>
    match parentInfo obj with
    | none => .ok ⟨true, inheritFrom (fixRef obj) none, []⟩
    | some pid =>
      match reg.lookup pid.file with
      | none => .ok ⟨false, obj, [.cannotOpenFile pid.file]⟩
      | some seq =>
        match findParent seq pid.ref with
        | none => .ok ⟨false, obj, [.failedToInheritRef]⟩
        | some par =>
          -- `if not obj.ref: obj.ref = _parent.get_ref()`
          let obj := if truthy obj.ref then obj else { obj with ref := getRef par }
          if (pid.file, pid.ref) ∈ cs then .ok ⟨false, obj, [.inheritanceCycle]⟩
          else
            match resolve reg fuel ((pid.file, pid.ref) :: cs) par with
            | .error e => .error e
            | .ok r => .ok ⟨true, inheritFrom (fixRef obj) (some r.entry), r.diags⟩

/-- every key that a successful parent lookup can produce -/
def allKeys (reg : Registry) : List Key :=
  reg.flatMap (fun fe => fe.2.filterMap (fun e => (getRef e).map (fun r => (fe.1, r))))

/-- number of resolvable keys not yet in the cycle set: the termination measure of `reify` -/
def remaining (reg : Registry) (cs : List Key) : Nat :=
  ((allKeys reg).filter (fun k => !(cs.contains k))).length

def topFuel (reg : Registry) : Nat := (allKeys reg).length + 1

/-- `constants` first, then `.update(obj.replacement)`: the entry's replacements win -/
def envOf (consts : Repl) (repl : Option Repl) (k : Text) : Option Text :=
  match (match repl with | some r => r | none => []).lookup k with
  | some v => some v
  | none => consts.lookup k

structure Reified where
  entry : Entry
  diags : List Diag
  refs : List Text
  deriving DecidableEq, Repr

/-- `if obj.ref and obj.ref in refs_set: diagnostics.append(RefAlreadyExists(...))`: entries without a ref do not share one
(the code before the repair also compared the empty ref: `dupDiagOld`) -/
def dupDiag (refs : List Text) (r : Text) : List Diag :=
  if r ≠ [] ∧ r ∈ refs then [.refAlreadyExists r] else []

def dupDiagOld (refs : List Text) (r : Text) : List Diag :=
  if r ∈ refs then [.refAlreadyExists r] else []

/-- `elif obj.ref is not None: refs_set.add(obj.ref)` -/
def addRef (refs : List Text) (r : Text) : List Text :=
  if r ∈ refs then refs else r :: refs

/-- `not obj.ref.startswith("_")`: only base entries keep their placeholders (an entry without ref - a step - is
rendered like any other; the code before the repair also required a non-empty ref: `wantsSubstOld`) -/
def wantsSubst : Text → Bool
  | [] => true
  | c :: _ => !(c == '_')

def wantsSubstOld : Text → Bool
  | [] => false
  | c :: _ => !(c == '_')

/-- the second half of `reify` for a top-level call: duplicate-ref check and substitution -/
def finishTop (isName : Char → Bool) (consts : Repl) (refs : List Text) (m : Entry)
    (ds : List Diag) : Reified :=
  match m.ref with
  | none => ⟨m, ds, refs⟩
  | some r =>
    if wantsSubst r then
      let s := substFields isName (envOf consts m.replacement) m.fields
      ⟨{ m with fields := s.1 }, ds ++ dupDiag refs r ++ s.2, addRef refs r⟩
    else ⟨m, ds ++ dupDiag refs r, addRef refs r⟩

/-- `self.reify(el, diagnostics, refs, set())` -/
def reifyEntry (isName : Char → Bool) (consts : Repl) (reg : Registry) (refs : List Text)
    (obj : Entry) : Except PyErr Reified :=
  match resolve reg (topFuel reg) [] obj with
  | .error e => .error e
  | .ok r =>
    if r.merged then .ok (finishTop isName consts refs r.entry r.diags)
    else .ok ⟨r.entry, r.diags, refs⟩

/-- `[self.reify(el, diagnostics, refs_dict[file_id], set()) for el in node.data]` -/
def reifyFile (isName : Char → Bool) (consts : Repl) (reg : Registry) :
    List Text → List Entry → Except PyErr (List Entry × List Diag)
  | _, [] => .ok ([], [])
  | refs, e :: es =>
    match reifyEntry isName consts reg refs e with
    | .error x => .error x
    | .ok r =>
      match reifyFile isName consts reg r.refs es with
      | .error x => .error x
      | .ok (out, ds) => .ok (r.entry :: out, r.diags ++ ds)

/-! ### parse (after PyYAML and `check_type`) and page generation -/

inductive Category where
  | steps | extracts | release
  deriving DecidableEq, Repr

/-- verdict of PyYAML + `check_type` on one document (input of the model) -/
inductive Doc where
  | bad                 -- `check_type` raised LoadError
  | empty               -- falsy document (`null`, `{}`, stray `---`): skipped, the loop goes on
  | entry (e : Entry)
  deriving DecidableEq, Repr

inductive FileSrc where
  | syntaxError         -- PyYAML raised (YAMLError, or TypeError / RecursionError from a constructor)
  | docs (ds : List Doc)
  deriving DecidableEq, Repr

/-- `parse.parse` followed by the category's MissingRef filter -/
def parseFile (cat : Category) : FileSrc → List Entry × List Diag
  | .syntaxError => ([], [.errorParsingYAMLFile])
  | .docs ds =>
    let unm : List Diag := ds.filterMap (fun d => match d with | .bad => some .unmarshallingError | _ => none)
    let es : List Entry := ds.filterMap (fun d => match d with | .entry e => some e | _ => none)
    match cat with
    | .steps => (es, unm)
    | _ =>
      (es.filter (fun e => truthy e.ref),
       unm ++ (es.filter (fun e => !truthy e.ref)).map (fun _ => Diag.missingRef))

def startsUnderscore : Text → Bool
  | '_' :: _ => true
  | _ => false

/-- index of `only` in `Extract.keys()`:
title, heading, level, optional, content, only, pre, post -/
def onlyIdx : Nat := 5

structure PageOut where
  dir : String
  name : Text
  diags : List Diag
  deriving DecidableEq, Repr

/-- `source_fileid.with_suffix(".rst").name[len("steps-"):]` for a name ending in `.yaml` -/
def stepsOutput (file : String) : Text :=
  let l := file.toList
  (l.take (l.length - 5) ++ ".rst".toList).drop 6

def namedPages (dir : String) (renderDiags : Entry → List Diag) :
    List Entry → Except PyErr (List PageOut)
  | [] => .ok []
  | e :: es =>
    match e.ref with
    | none => .error .assertionError          -- `assert extract.ref is not None`
    | some r =>
      match namedPages dir renderDiags es with
      | .error x => .error x
      | .ok ps =>
        if startsUnderscore r then .ok ps
        else .ok (⟨dir, r ++ ".rst".toList, renderDiags e⟩ :: ps)

/-- D16 fix: an extract whose (merged) `only` is set is rendered without it and reported -/
def extractRenderDiags (e : Entry) : List Diag :=
  match e.fields[onlyIdx]? with
  | some (some _) => [.invalidField]
  | _ => []

/-- `_generate_pages` of the three categories: output pages of one reified file -/
def pagesOf (cat : Category) (file : String) (es : List Entry) : Except PyErr (List PageOut) :=
  match cat with
  | .steps => .ok [⟨"steps", stepsOutput file, []⟩]
  | .extracts => namedPages "extracts" extractRenderDiags es
  | .release => namedPages "release" (fun _ => []) es

structure FileOut where
  file : String
  entries : List Entry
  diags : List Diag          -- parse ++ reify (all_diagnostics[path])
  pages : List PageOut
  deriving DecidableEq, Repr

def buildFiles (isName : Char → Bool) (consts : Repl) (cat : Category) (reg : Registry)
    (parseDiags : String → List Diag) : List (String × List Entry) → Except PyErr (List FileOut)
  | [] => .ok []
  | (f, es) :: rest =>
    match reifyFile isName consts reg [] es with
    | .error x => .error x
    | .ok (out, ds) =>
      match pagesOf cat f out with
      | .error x => .error x
      | .ok pages =>
        match buildFiles isName consts cat reg parseDiags rest with
        | .error x => .error x
        | .ok more => .ok (⟨f, out, parseDiags f ++ ds, pages⟩ :: more)

/-- `load_and_generate` for one category (no cache): parse + add every file, then
`generate_pages` = reify every file in registry order and generate its pages. -/
def buildCategory (isName : Char → Bool) (consts : Repl) (cat : Category)
    (files : List (String × FileSrc)) : Except PyErr (List FileOut) :=
  let parsed := files.map (fun fs => (fs.1, parseFile cat fs.2))
  let reg : Registry := parsed.map (fun p => (p.1, p.2.1))
  let pd : String → List Diag := fun f => match parsed.lookup f with | some p => p.2 | none => []
  buildFiles isName consts cat reg pd reg

/-! ### Spec: the inheritance chain and the reference merge -/

/-- parents along the path followed from `e` (at most `n`), stopping at a dangling pointer -/
def chain (reg : Registry) : Nat → Entry → List Entry
  | 0, _ => []
  | n + 1, e =>
    match parentInfo e with
    | none => []
    | some p =>
      match reg.lookup p.file with
      | none => []
      | some seq =>
        match findParent seq p.ref with
        | none => []
        | some par => par :: chain reg n par

/-- the `(file, ref)` keys of the pointers followed by `chain` -/
def chainKeys (reg : Registry) : Nat → Entry → List Key
  | 0, _ => []
  | n + 1, e =>
    match parentInfo e with
    | none => []
    | some p =>
      match reg.lookup p.file with
      | none => []
      | some seq =>
        match findParent seq p.ref with
        | none => []
        | some par => (p.file, p.ref) :: chainKeys reg n par

/-- every pointer dereferenced while resolving `e` (including a final dangling one) -/
def ptrs (reg : Registry) : Nat → Entry → List Ptr
  | 0, _ => []
  | n + 1, e =>
    match parentInfo e with
    | none => []
    | some p =>
      p :: (match reg.lookup p.file with
        | none => []
        | some seq =>
          match findParent seq p.ref with
          | none => []
          | some par => ptrs reg n par)

/-- what the registry answers to a pointer: no such file / file but no such ref / the parent -/
def answer (reg : Registry) (p : Ptr) : Option (Option Entry) :=
  match reg.lookup p.file with
  | none => none
  | some seq => some (findParent seq p.ref)

def firstSome {α : Type} : List (Option α) → Option α
  | [] => none
  | some a :: _ => some a
  | none :: xs => firstSome xs

/-- value of field number `i` (`none`: unset / no such field) -/
def fieldAt (e : Entry) (i : Nat) : Option Val := (e.fields[i]?).join

/-- `e.replacement[k]` if present -/
def replAt (e : Entry) (k : Text) : Option Text :=
  match e.replacement with
  | some r => r.lookup k
  | none => none

/-- reference merge: field `i` of the result is the first value set along `child :: parents` -/
def mergeChainField (es : List Entry) (i : Nat) : Option Val :=
  firstSome (es.map (fun e => fieldAt e i))

/-- reference merge of replacement tables: the first table along the chain defining `k` wins -/
def mergeChainRepl (es : List Entry) (k : Text) : Option Text :=
  firstSome (es.map (fun e => replAt e k))

end SnootyVerif.Giza
