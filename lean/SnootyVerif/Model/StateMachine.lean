/-!
# C01 — the line loop of `StateMachine.run_sm` (snooty/tinydocutils/statemachine.py)

```
self.line_offset = -1 ; transitions = None ; state = initial
while True:
    try:
        try:
            self.next_line()                                   # line_offset += 1 ; EOFError past the end
            context, next_state, result = self.check_line(context, state, transitions)
        except EOFError:  …eof… ; break
    except TransitionCorrection as e:
        self.previous_line() ; transitions = (e.transition,) ; continue          # same state, forced transition
    except StateCorrection as e:
        self.previous_line() ; next_state = e.new_state ; transitions = (e.transition,) or None
    else:
        transitions = None
    state = self.get_state(next_state)
```

The transition methods are abstracted to one function `check state forced offset` whose result says how the call left
`check_line`, and where `line_offset` stood at that moment:

* `advance off' s'` — returned normally with `line_offset = off'` (transitions may consume further lines: nested parses +
  `goto_line`) and next state `s'`;
* `transCorr off t` — raised `TransitionCorrection(t)` with `line_offset = off`;
* `stateCorr off s' t` — raised `StateCorrection(s', t)` with `line_offset = off` (`Line.state_correction` calls
  `previous_line` itself before raising);
* `eof` — raised `EOFError` (`invalid_input` of the specialised states, `check_subsection`).

`cfgNext` is `line_offset + 1`, the index of the line the next iteration loads (a natural number, since
`line_offset ≥ -1` throughout).
-/
namespace SnootyVerif.StateMachine

inductive Step (σ τ : Type)
  | advance (off : Nat) (next : σ)
  | transCorr (off : Nat) (t : τ)
  | stateCorr (off : Nat) (next : σ) (t : Option τ)
  | eof

structure Machine (σ τ : Type) where
  /-- number of input lines -/
  n : Nat
  /-- `check_line(state, transitions, line_offset)`; only called with `line_offset < n` -/
  check : σ → Option τ → Nat → Step σ τ

/-- loop configuration: index of the next line to load, current state, forced transition list -/
structure Cfg (σ τ : Type) where
  next : Nat
  state : σ
  forced : Option τ

/-- one iteration of the `while True` loop; `none` = the loop ended (`break` after the eof transition) -/
def step {σ τ : Type} (m : Machine σ τ) (c : Cfg σ τ) : Option (Cfg σ τ) :=
  if c.next ≥ m.n then none                                     -- next_line raises EOFError
  else match m.check c.state c.forced c.next with
    | .advance off s' => some ⟨off + 1, s', none⟩
    | .transCorr off t => some ⟨off, c.state, some t⟩           -- previous_line(): off - 1, reloaded as off
    | .stateCorr off s' t => some ⟨off, s', t⟩
    | .eof => none

/-- the loop with an iteration budget: returns (iterations used, finished?) -/
def run {σ τ : Type} (m : Machine σ τ) : Nat → Cfg σ τ → Nat × Bool
  | 0, _ => (0, false)
  | fuel + 1, c =>
    match step m c with
    | none => (1, true)
    | some c' => let r := run m fuel c'; (r.1 + 1, r.2)

/-- The Progress contract (monitored on every real parse by `harness/impl/c01run.py: install_monitor`).
`look s` marks the look-ahead states (in tinydocutils: `Line`, the only state that raises `StateCorrection`). -/
structure Progress {σ τ : Type} (m : Machine σ τ) (look : σ → Bool) : Prop where
  /-- a transition that returns never leaves the offset below its entry value -/
  adv_mono : ∀ s f o off s', o < m.n → m.check s f o = .advance off s' → o ≤ off
  /-- a look-ahead state is only entered by an unforced transition, never directly from another look-ahead state's line -/
  adv_forced : ∀ s t o off s', o < m.n → m.check s (some t) o = .advance off s' → look s' = false
  /-- a correction is not answered by a correction: the forced retry settles -/
  forced_settles : ∀ s t o, o < m.n → (∀ off t', m.check s (some t) o ≠ .transCorr off t') ∧
      (∀ off s' t', m.check s (some t) o ≠ .stateCorr off s' t')
  /-- a TransitionCorrection retries the same line -/
  trans_same : ∀ s o off t, o < m.n → m.check s none o = .transCorr off t → off = o
  /-- a StateCorrection comes from a look-ahead state, backs up at most one line below its entry line, and forces a
  transition of a non-look-ahead state -/
  state_corr : ∀ s o off s' t, o < m.n → m.check s none o = .stateCorr off s' t →
      look s = true ∧ look s' = false ∧ t.isSome = true ∧ off ≤ o ∧ o ≤ off + 1

/-- potential: 4 per unread line, plus 5 / 2 / 0 for look-ahead / ordinary / forced configurations -/
def weight {σ τ : Type} (m : Machine σ τ) (look : σ → Bool) (c : Cfg σ τ) : Nat :=
  4 * (m.n - c.next) + (match c.forced with
    | some _ => 0
    | none => if look c.state then 5 else 2)

end SnootyVerif.StateMachine
