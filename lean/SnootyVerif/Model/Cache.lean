/-!
# Model of the parse cache (`snooty/parse_cache.py`, `util.FileCacheMapping`,
`_Project.parse_rst_files / load_cache / update_cache`)

Import-free, total, computable.

* `Env`            the on-disk contents the parser can see: `none` = the path cannot be read
                   (missing, a directory, ...), `some bytes` = a readable regular file.
* `ParseFn`        the parser as a function of the environment, together with the set of paths
                   it looks at (`reads`) and the set of paths it *records* as dependencies (`deps`,
                   `none` = `mark_uncacheable()`).  The FOOTPRINT law is a structure field, i.e. an
                   explicit hypothesis of every theorem that takes a `ParseFn` -- not an axiom.
* `CacheData`      `specifier` + `pages : Dict[(fileid, source key), pickled (Page, diagnostics)]`;
                   a stored value that does not unpickle is `none`.
* `lookup`         `CacheData.get`; `setEntry`/`saveAt` = `set_page` / `update_cache`;
                   `loadFile`/`readCache` = `ParseCache.read_from_bytes` / `ParseCache.read`.
* `buildWithCache` / `buildClean`   the rst part of `_Project.build` with / without `load_cache()`.

`hash` (blake2b of file bytes) and `srcKey` are parameters. `srcKey b = (k, clean)`: `k` is the
blake2b of the decoded, constant-substituted source text, `clean` says that `ProjectConfig.read`
produced no diagnostics (decodable, every constant declared, no merge-conflict marker). A source
that does not read cleanly records a dependency on its own raw file, and is only served from an
entry that has such a self-dependency (`JSONVisitor.add_diagnostics` / `CacheData.get`, fixed code).
-/
namespace SnootyVerif.Cache

abbrev FileId := String
abbrev Bytes := List Nat
/-- what a path holds: `none` = cannot be read (`OSError` / `is_file()` false) -/
abbrev Env := FileId → Option Bytes

/-- The parser: `parse e p` is the (Page, diagnostics) pair delivered for source file `p` when the
disk holds `e`; `reads e p` lists every path whose content *or existence* the parse looked at;
`deps e p` lists the paths it recorded in `page.dependencies` (`none` = uncacheable). -/
structure ParseFn (Page : Type) where
  parse : Env → FileId → Page
  reads : Env → FileId → List FileId
  deps : Env → FileId → Option (List FileId)
  /-- FOOTPRINT: the parse (and what it looks at) is determined by the paths it looks at. -/
  footprint : ∀ (e e' : Env) (p : FileId), (∀ f ∈ reads e p, e f = e' f) →
      parse e p = parse e' p ∧ reads e p = reads e' p

/-- The obligation the transparency theorem reduces to: every path the parse looked at is the page
itself or a recorded dependency -- including paths that were found missing. -/
def DepsCoverReads {Page : Type} (P : ParseFn Page) : Prop :=
  ∀ (e : Env) (p : FileId) (ds : List FileId), P.deps e p = some ds →
    ∀ f ∈ P.reads e p, f = p ∨ f ∈ ds

/-- the unpickled value of one `pages` entry: the page (with its diagnostics) and
`page.dependencies.dependencies` (`none` = uncacheable; a recorded `none` hash = was unreadable) -/
structure Payload (Page H : Type) where
  page : Page
  deps : Option (List (FileId × Option H))

structure CacheData (Page H K : Type) where
  specifier : List String
  /-- insertion-ordered dict; value `none` = the stored bytes do not unpickle to a (Page, diagnostics) pair -/
  pages : List ((FileId × K) × Option (Payload Page H))

/-- `CacheData(specifier=self.specifier)` -/
def CacheData.empty {Page H K : Type} (spec : List String) : CacheData Page H K :=
  { specifier := spec, pages := [] }

section
variable {Page H K : Type} [DecidableEq H] [DecidableEq K]

/-- Python `d[k]` (first and only entry with that key) -/
def find {κ ν : Type} [DecidableEq κ] (k : κ) : List (κ × ν) → Option ν
  | [] => none
  | (k', v) :: t => if k' = k then some v else find k t

/-- Python `d[k] = v` (an existing key keeps its position) -/
def setEntry {κ ν : Type} [DecidableEq κ] (k : κ) (v : ν) : List (κ × ν) → List (κ × ν)
  | [] => [(k, v)]
  | (k', v') :: t => if k' = k then (k, v) :: t else (k', v') :: setEntry k v t

/-- one iteration of `FileCacheMapping.check_cache` with the handler of `CacheData.get`:
`read_bytes()` raising `OSError` is a miss; otherwise the fresh hash must equal the recorded one
(a recorded `None` never equals a hash). -/
def depOk (hash : Bytes → H) (e : Env) (d : FileId × Option H) : Bool :=
  match e d.1 with
  | none => false
  | some b => decide (d.2 = some (hash b))

/-- `FileCacheMapping.check_cache`: `dependencies is None` is never cacheable. -/
def checkCache (hash : Bytes → H) (e : Env) : Option (List (FileId × Option H)) → Bool
  | none => false
  | some ds => ds.all (depOk hash e)

/-- `path in (page.dependencies.dependencies or {})` -/
def selfDep (p : FileId) : Option (List (FileId × Option H)) → Bool
  | none => false
  | some ds => ds.any (fun d => decide (d.1 = p))

inductive Err where
  /-- `config.read(path)` on a source file that vanished (raised before the try block) -/
  | fileNotFound
  deriving DecidableEq, Repr

/-- `CacheData.get`: `.ok (some page)` = hit, `.ok none` = `CacheMiss`. -/
def lookup (srcKey : Bytes → K × Bool) (hash : Bytes → H) (c : CacheData Page H K) (e : Env) (p : FileId) :
    Except Err (Option Page) :=
  match e p with
  | none => .error .fileNotFound
  | some b =>
    match find (p, (srcKey b).1) c.pages with
    | none => .ok none                       -- KeyError
    | some none => .ok none                  -- any exception while unpickling the entry
    | some (some ent) =>
      -- `if read_diagnostics and path not in (page.dependencies.dependencies or {})`
      if (srcKey b).2 = false ∧ selfDep p ent.deps = false then .ok none
      else if checkCache hash e ent.deps then .ok (some ent.page) else .ok none

/-- what `set_page` stores for page `p` parsed while the disk held `e`:
the dependency hashes are those of the bytes the parser saw. -/
def cleanAt (srcKey : Bytes → K × Bool) (e : Env) (p : FileId) : Bool :=
  match e p with
  | some b => (srcKey b).2
  | none => false

/-- the paths `page.dependencies` holds after a parse: a source that was read with diagnostics
records its own raw file first (`JSONVisitor.add_diagnostics`), then what the visitor records -/
def recordedPaths (srcKey : Bytes → K × Bool) (P : ParseFn Page) (e : Env) (p : FileId) :
    Option (List FileId) :=
  (P.deps e p).map (fun ds => if cleanAt srcKey e p then ds else p :: ds)

def record (srcKey : Bytes → K × Bool) (hash : Bytes → H) (P : ParseFn Page) (e : Env) (p : FileId) :
    Payload Page H :=
  { page := P.parse e p
    deps := (recordedPaths srcKey P e p).map (fun ds => ds.map (fun f => (f, (e f).map hash))) }

/-- `update_cache` after a build of the pages `ps` at environment `e`. -/
def saveAt (srcKey : Bytes → K × Bool) (hash : Bytes → H) (P : ParseFn Page) (spec : List String)
    (e : Env) (ps : List FileId) : CacheData Page H K :=
  { specifier := spec
    pages := ps.foldl (fun acc p =>
      match e p with
      | some b => setEntry (p, (srcKey b).1) (some (record srcKey hash P e p)) acc
      | none => acc) [] }

/-- a cache-less parse of one listed source file (the pool worker) -/
def stepClean (P : ParseFn Page) (e : Env) (p : FileId) : Except Err (FileId × Page) :=
  match e p with
  | none => .error .fileNotFound
  | some _ => .ok (p, P.parse e p)

/-- `parse_rst_files` for one path when `self.cache` is set -/
def stepCached (srcKey : Bytes → K × Bool) (hash : Bytes → H) (P : ParseFn Page) (c : CacheData Page H K)
    (e : Env) (p : FileId) : Except Err (FileId × Page) :=
  match lookup srcKey hash c e p with
  | .error x => .error x
  | .ok (some pg) => .ok (p, pg)
  | .ok none => stepClean P e p

def buildClean (P : ParseFn Page) (e : Env) (ps : List FileId) : Except Err (List (FileId × Page)) :=
  ps.mapM (stepClean P e)

def buildWithCache (srcKey : Bytes → K × Bool) (hash : Bytes → H) (P : ParseFn Page) (c : CacheData Page H K)
    (e : Env) (ps : List FileId) : Except Err (List (FileId × Page)) :=
  ps.mapM (stepCached srcKey hash P c e)

/-- `ParseCache.read_from_bytes`: `decode` is the abstract integrity check (gunzip + unpickle +
`isinstance` checks; every exception is `none`), followed by the specifier guard. Total: never raises. -/
def loadFile (decode : Bytes → Option (CacheData Page H K)) (cur : List String) (b : Bytes) :
    Option (CacheData Page H K) :=
  match decode b with
  | none => none
  | some d => if d.specifier = cur then some d else none

/-- `ParseCache.read` (no remote cache): a missing or unusable file is the empty cache. -/
def readCache (decode : Bytes → Option (CacheData Page H K)) (cur : List String) (file : Option Bytes) :
    CacheData Page H K :=
  match file with
  | none => CacheData.empty cur
  | some b =>
    match loadFile decode cur b with
    | some d => d
    | none => CacheData.empty cur

/-- `generate_specifier`: version, structural hash of the config, structural hash of the spec -/
def specifier {Cfg Spec : Type} (version : String) (hc : Cfg → String) (hs : Spec → String)
    (cfg : Cfg) (spec : Spec) : List String :=
  [version, hc cfg, hs spec]

/-- one edit of the history: write (`some`) or delete (`none`) a path -/
abbrev Edit := FileId × Option Bytes

def applyEdit (e : Env) (ed : Edit) : Env := fun f => if f = ed.1 then ed.2 else e f

def applyHistory (e : Env) (h : List Edit) : Env := h.foldl applyEdit e

end
end SnootyVerif.Cache
