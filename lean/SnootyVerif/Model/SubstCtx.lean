/-
Model of the block/inline context adaptation of substitutions (property C07, "block content substituted into inline
context produces a diagnostic"): `snooty/postprocess.py`

* `extract_inline(nodes)`                          ↦ `extractInline`   (incl. the `nodes[0]` subscript as an error branch)
* `SubstitutionHandler.search_inline` (after `_search` returned a definition)  ↦ `searchInline`
* `SubstitutionHandler.search_block`  (after `_search` returned a definition)  ↦ `searchBlock`

A node is abstracted to what the three functions look at: is it an `n.InlineNode`, is it an `n.Paragraph` (and then its
children), or any other block node; `wrap` is the `n.Paragraph(node.span, current_paragraph)` that `search_block` creates
(kept apart from paragraphs of the definition so that the theorems can tell them from each other).
-/
namespace SnootyVerif.SubstCtx

inductive PyErr
  | indexError
  deriving DecidableEq, Repr

inductive Node where
  | inl (id : Nat)                      -- any `n.InlineNode`
  | para (id : Nat) (cs : List Node)    -- `n.Paragraph` of the definition, with its children
  | blk (id : Nat)                      -- any other node (block level)
  | wrap (cs : List Node)               -- a Paragraph created by `search_block`
  deriving Repr

def Node.isInline : Node → Bool
  | .inl _ => true
  | _ => false

def Node.isWrap : Node → Bool
  | .wrap _ => true
  | _ => false

/-- `extract_inline`: `some` = the inline nodes to insert, `none` = not trivially inline. -/
def extractInline (nodes : List Node) : Except PyErr (Option (List Node)) :=
  if nodes.all Node.isInline then .ok (some nodes)
  else
    match nodes with
    | [] => .error .indexError                       -- `node = nodes[0]`
    | [.para _ cs] => if cs.all Node.isInline then .ok (some cs) else .ok none
    | _ => .ok none

/-- outcome of `search_inline` once `_search` has found a definition -/
inductive InlineResult
  | children (cs : List Node)     -- `node.children = substitution`
  | invalidContext                -- InvalidContextError diagnostic, the reference is deferred (left without children)
  deriving Repr

/-- `search_inline`: `if not substitution:` is true for `None` AND for the empty list -/
def searchInline (defn : List Node) : Except PyErr InlineResult :=
  match extractInline defn with
  | .error e => .error e
  | .ok (some (c :: cs)) => .ok (.children (c :: cs))
  | .ok _ => .ok .invalidContext

/-- the loop of `search_block` with its accumulator `current_paragraph` -/
def blockGo : List Node → List Node → List Node
  | cur, [] => if cur.isEmpty then [] else [.wrap cur]
  | cur, e :: rest =>
    if e.isInline then blockGo (cur ++ [e]) rest
    else (if cur.isEmpty then [] else [.wrap cur]) ++ e :: blockGo [] rest

/-- `search_block` -/
def searchBlock (defn : List Node) : List Node := blockGo [] defn

/-- splice the created paragraphs back: what the author wrote -/
def unwrap : List Node → List Node
  | [] => []
  | .wrap cs :: r => cs ++ unwrap r
  | x :: r => x :: unwrap r

/-- no two created paragraphs next to each other (adjacent inline elements are coalesced into one) -/
def noAdjacentWraps : List Node → Bool
  | [] => true
  | [_] => true
  | a :: b :: r => !(a.isWrap && b.isWrap) && noAdjacentWraps (b :: r)

end SnootyVerif.SubstCtx
