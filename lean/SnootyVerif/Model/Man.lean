/-
Model of the man page builder (property C19), `snooty/builders/man.py` AFTER the fix
(`fix.patch`: every backslash is escaped, a leading '.' is guarded after every newline,
document text used as a macro argument is escaped and kept on one line).

* `troffEscape` / `troffEscapeArg`        — `troff_escape`, `troff_escape_arg` (text = `List Char`)
* `troffEscapeOld`                        — `troff_escape` before the fix (kept for the refutation witness)
* `Ast`, `getText`, `toMan`               — the `n.*` classes `SnootyToTroffTree` dispatches on
* `ManNode`, `ManNode.events`             — the intermediate tree and `to_troff`'s pre-order walk
* `St` and its operations                 — `TroffNodeHandler`; `output` is a list of TAGGED chunks
                                            (`macro | raw | text`), whose concatenation (`flat`) is the
                                            string Python returns. The tags are ghost information.
* `render` / `renderOld`                  — `builders.man.render`

`str.upper()` (Unicode tables) is the parameter `up : Char → List Char`.
Python exceptions that the code can raise are the `PyErr` channel.
-/
namespace SnootyVerif.Man

abbrev Str := List Char

inductive PyErr
  | assertionError
  | indexError
  deriving DecidableEq, Repr

/-! ## troff_escape -/

/-- `value.replace(a, out)` for a one-character pattern `a`. -/
def replaceChar (a : Char) (out : Str) : Str → Str
  | [] => []
  | c :: r => if c = a then out ++ replaceChar a out r else c :: replaceChar a out r

/-- `value.replace("\n.", "\n\\&.")`: leftmost, non-overlapping occurrences of the two-character pattern. -/
def replaceNlDot : Str → Str
  | [] => []
  | [c] => [c]
  | c :: d :: r =>
    if c = '\n' ∧ d = '.' then '\n' :: '\\' :: '&' :: '.' :: replaceNlDot r
    else c :: replaceNlDot (d :: r)

/-- `value.replace(r"\\", r"\e")` of the code before the fix: only DOUBLE backslashes. -/
def replaceBsBs : Str → Str
  | [] => []
  | [c] => [c]
  | c :: d :: r =>
    if c = '\\' ∧ d = '\\' then '\\' :: 'e' :: replaceBsBs r
    else c :: replaceBsBs (d :: r)

/-- the `replace_pairs` loop, in list order -/
def escapePairs (v : Str) : Str :=
  let v := replaceChar '-' ['\\', '-'] v
  let v := replaceChar '\'' ['\\', '(', 'a', 'q'] v
  let v := replaceChar '´' ['\\', '\''] v
  replaceChar '`' ['\\', '(', 'g', 'a'] v

/-- `if value.startswith("."): return r"\&" + value` -/
def guardHead (v : Str) : Str :=
  if v.head? = some '.' then '\\' :: '&' :: v else v

/-- `troff_escape` (fixed code). -/
def troffEscape (value : Str) : Str :=
  let v := replaceChar '\\' ['\\', 'e'] value
  let v := escapePairs v
  let v := replaceNlDot v
  guardHead v

/-- `troff_escape_arg` (fixed code): newlines become spaces first; a double quote, which in a macro argument is
argument quoting and not a character, is written as `\(dq` last. -/
def troffEscapeArg (value : Str) : Str :=
  replaceChar '"' ['\\', '(', 'd', 'q'] (troffEscape (replaceChar '\n' [' '] value))

/-- `troff_escape` before the fix. -/
def troffEscapeOld (value : Str) : Str :=
  guardHead (escapePairs (replaceBsBs value))

/-! ## output chunks -/

inductive Chunk
  | macro (s : Str)   -- a complete `.NAME [arg]\n` line written by `macro()`
  | raw (s : Str)     -- font escapes and the "\n" `macro()` writes to get to a fresh line
  | text (s : Str)    -- the flushed text buffer (only ever filled by `handle_text`)
  deriving DecidableEq, Repr

def Chunk.str : Chunk → Str
  | .macro s => s
  | .raw s => s
  | .text s => s

/-- the string `output.getvalue()` returns -/
def flat (cs : List Chunk) : Str := cs.flatMap Chunk.str

/-! ## ManNode and the handler -/

/-- `ManNode.element` together with the attributes that element carries. -/
inductive Hd
  | manpage (name sec : Str)
  | sect (name : Str)
  | paragraph
  | url (href : Str)
  | strong
  | emphasis
  | list (ordered : Bool)
  | listItem
  | text
  | indent
  | preformatted
  deriving DecidableEq, Repr

inductive ManNode
  | node (h : Hd) (children : List ManNode)
  | leaf (h : Hd) (s : Str)          -- `children: str`

inductive Fmt
  | bold
  | emphasis
  deriving DecidableEq, Repr

/-- events of `to_troff.handle_node`, in call order -/
inductive Ev
  | start (h : Hd)      -- handler.handle_start(node)
  | text (s : Str)      -- handler.handle_text(node.children)
  | bad                 -- the `assert node.element in {TEXT, PREFORMATTED}` fails
  | stop (h : Hd)       -- handler.handle_end(node)
  deriving Repr

mutual
/-- `handle_node`: start, then the text or the children in order, then end. -/
def ManNode.events : ManNode → List Ev
  | .node h cs => .start h :: (eventsL cs ++ [.stop h])
  | .leaf h s =>
    .start h :: (if h = .text ∨ h = .preformatted then Ev.text s else Ev.bad) :: [.stop h]
def eventsL : List ManNode → List Ev
  | [] => []
  | t :: ts => t.events ++ eventsL ts
end

structure St where
  buf : Str := []                 -- text_buffer
  out : List Chunk := []          -- output
  fstack : List Fmt := []         -- formatting_stack, top first
  lstack : List Bool := []        -- list_stack ("ordered"?), top first
  depth : Int := 0                -- section_depth
  needSplit : Bool := false       -- need_paragraph_splitter
  trailingNl : Bool := true       -- trailing_newline

/-- `write_raw`, with the ghost tag of what is being written. -/
def St.write (st : St) (c : Chunk) : St :=
  if c.str = [] then st
  else { st with out := st.out ++ [c], trailingNl := c.str.getLast? = some '\n' }

def St.flush (st : St) : St :=
  { st.write (.text st.buf) with buf := [] }

def macroLine (name arg : Str) : Str :=
  '.' :: (name ++ (if arg = [] then [] else ' ' :: arg) ++ ['\n'])

def St.macro (st : St) (name arg : Str) : St :=
  let st := st.flush
  let st := if st.trailingNl then st else { st with out := st.out ++ [.raw ['\n']] }
  { st with out := st.out ++ [.macro (macroLine name arg)], trailingNl := true }

def St.handleText (st : St) (s : Str) : St :=
  { st with buf := st.buf ++ troffEscape s }

def fontEsc : Fmt → Str
  | .bold => ['\\', 'f', 'B']
  | .emphasis => ['\\', 'f', 'I']

def fontRoman : Str := ['\\', 'f', '1']

def St.push (st : St) (f : Fmt) : St :=
  let st := if st.fstack.head? = some f then st else st.write (.raw (fontEsc f))
  { st with fstack := f :: st.fstack }

def St.pop (st : St) : Except PyErr St :=
  match st.fstack with
  | [] => .error .indexError
  | _ :: rest =>
    let st := { st with fstack := rest }
    match rest with
    | a :: _ :: _ => .ok (st.write (.raw (fontEsc a)))     -- len > 1: re-announce the new top
    | _ => .ok (st.write (.raw fontRoman))

def isBlock : Hd → Bool
  | .paragraph => true
  | .preformatted => true
  | _ => false

def bulletArg (n : Nat) : Str := ['\\', '(', 'b', 'u', ' '] ++ Nat.toDigits 10 (n * 2)

def St.handleStart (up : Char → Str) (st : St) (h : Hd) : Except PyErr St :=
  let st :=
    if isBlock h && st.needSplit then
      (if st.lstack ≠ [] then st.macro ['I', 'P'] [] else st.macro ['P', 'P'] [])
    else st
  match h with
  | .manpage name sec => .ok (st.macro ['T', 'H'] (troffEscapeArg (name ++ ' ' :: sec)))
  | .sect name =>
    let st := { st with depth := st.depth + 1 }
    .ok (st.macro (if st.depth ≤ 2 then ['S', 'H'] else ['S', 'S']) (troffEscapeArg (name.flatMap up)))
  | .url _ => .ok st
  | .strong => .ok (st.push .bold)
  | .emphasis => .ok (st.push .emphasis)
  | .list o => .ok ({ st with lstack := o :: st.lstack }.macro ['R', 'S'] [])
  | .listItem =>
    if st.lstack = [] then .error .assertionError
    else .ok ({ st with needSplit := false }.macro ['I', 'P'] (bulletArg st.lstack.length))
  | .indent => .ok (st.macro ['R', 'S'] [])
  | .preformatted => .ok (st.macro ['E', 'X'] [])
  | .paragraph => .ok st
  | .text => .ok st

def St.handleEnd (st : St) (h : Hd) : Except PyErr St :=
  let st := st.flush
  let st := if isBlock h then { st with needSplit := true } else st
  match h with
  | .sect _ => .ok { st with depth := st.depth - 1 }
  | .url href => .ok (st.handleText (' ' :: '(' :: (href ++ [')'])))
  | .strong => st.pop
  | .emphasis => st.pop
  | .list _ =>
    match st.lstack with
    | [] => .error .indexError
    | _ :: r => .ok ({ st with lstack := r }.macro ['R', 'E'] [])
  | .indent => .ok (st.macro ['R', 'E'] [])
  | .preformatted => .ok (st.macro ['E', 'E'] [])
  | _ => .ok st

def St.step (up : Char → Str) (st : St) : Ev → Except PyErr St
  | .start h => st.handleStart up h
  | .text s => .ok (st.handleText s)
  | .bad => .error .assertionError
  | .stop h => st.handleEnd h

def run (up : Char → Str) : St → List Ev → Except PyErr St
  | st, [] => .ok st
  | st, e :: es =>
    match st.step up e with
    | .error x => .error x
    | .ok st' => run up st' es

/-- `ManNode.to_troff` (chunks instead of the joined string) -/
def ManNode.toTroff (up : Char → Str) (t : ManNode) : Except PyErr (List Chunk) :=
  match run up {} t.events with
  | .error x => .error x
  | .ok st => .ok st.out

/-! ## SnootyToTroffTree -/

/-- The node classes of `snooty.n`, grouped by what `SnootyToTroffTree` does with them. -/
inductive Ast
  | text (v : Str)                       -- Text
  | code (v : Str)                       -- Code
  | heading (cs : List Ast)              -- Heading
  | sect (cs : List Ast)                 -- Section
  | paragraph (cs : List Ast)            -- Paragraph
  | pass (cs : List Ast)                 -- Root, Directive, Role, FootnoteReference, SubstitutionReference,
                                         -- BlockSubstitutionReference, DefinitionList: children spliced
  | drop (cs : List Ast)                 -- handlers returning [] and unknown classes (children only matter to get_text)
  | defItem (term cs : List Ast)         -- DefinitionListItem
  | listItem (cs : List Ast)             -- ListNodeItem
  | list (ordered : Bool) (cs : List Ast) -- ListNode
  | target (cs : List Ast)               -- Target
  | targetId (cs : List Ast)             -- TargetIdentifier
  | dirArg (cs : List Ast)               -- DirectiveArgument
  | reference (refuri : Str) (cs : List Ast) -- Reference
  | strong (cs : List Ast)               -- Strong, RefRole
  | literal (cs : List Ast)              -- Literal
  | emphasis (cs : List Ast)             -- Emphasis

/-- `getattr(node, "value", "")` -/
def Ast.value : Ast → Str
  | .text v => v
  | .code v => v
  | _ => []

mutual
/-- `Node.get_text` with the overrides of `Parent`, `Text` and `Literal`. -/
def Ast.getText : Ast → Str
  | .text v => v
  | .code _ => []
  | .literal cs => cs.flatMap Ast.value
  | .heading cs => getTextL cs
  | .sect cs => getTextL cs
  | .paragraph cs => getTextL cs
  | .pass cs => getTextL cs
  | .drop cs => getTextL cs
  | .defItem _ cs => getTextL cs
  | .listItem cs => getTextL cs
  | .list _ cs => getTextL cs
  | .target cs => getTextL cs
  | .targetId cs => getTextL cs
  | .dirArg cs => getTextL cs
  | .reference _ cs => getTextL cs
  | .strong cs => getTextL cs
  | .emphasis cs => getTextL cs
def getTextL : List Ast → Str
  | [] => []
  | a :: r => a.getText ++ getTextL r
end

def Ast.isHeading : Ast → Bool
  | .heading _ => true
  | _ => false

def Ast.isTargetId : Ast → Bool
  | .targetId _ => true
  | _ => false

def Ast.isArgOrId : Ast → Bool
  | .targetId _ => true
  | .dirArg _ => true
  | _ => false

/-- `"\n".join("  " + line for line in value.split("\n"))`: two spaces at the start and after every newline. -/
def indentGo : Str → Str
  | [] => []
  | c :: r => if c = '\n' then '\n' :: ' ' :: ' ' :: indentGo r else c :: indentGo r

def indentLines (v : Str) : Str := ' ' :: ' ' :: indentGo v

/-- the `names` list of `handle_Target`: STRONG[TEXT id], TEXT ", " per identifier -/
def targetNames : List Ast → List ManNode
  | [] => []
  | i :: r =>
    if i.isTargetId then
      .node .strong [.leaf .text i.getText] :: .leaf .text [',', ' '] :: targetNames r
    else targetNames r

def ManNode.isTextEl : ManNode → Bool
  | .leaf .text _ => true
  | .node .text _ => true
  | _ => false

mutual
/-- `SnootyToTroffTree.handle` -/
def Ast.toMan : Ast → Except PyErr (List ManNode)
  | .text v => .ok [.leaf .text v]
  | .code v => .ok [.leaf .preformatted (indentLines v)]
  | .heading _ => .ok []
  | .sect cs =>
    match cs.find? Ast.isHeading with
    | none => toManL cs                              -- a wrapper section without heading (step, collapsible): its content
    | some h =>
      match toManL cs with
      | .error e => .error e
      | .ok k => .ok [.node (.sect h.getText) k]
  | .paragraph cs =>
    match toManL cs with
    | .error e => .error e
    | .ok k => .ok [.node .paragraph k]
  | .pass cs => toManL cs
  | .drop _ => .ok []
  | .defItem term cs =>
    match toManL term with
    | .error e => .error e
    | .ok t =>
      match toManL cs with
      | .error e => .error e
      | .ok k => .ok [.node .paragraph [.node .strong t, .node .indent k]]
  | .listItem cs =>
    match toManL cs with
    | .error e => .error e
    | .ok k => .ok [.node .listItem k]
  | .list o cs =>
    match toManL cs with
    | .error e => .error e
    | .ok k => .ok [.node (.list o) k]
  | .target cs =>
    if cs.isEmpty || cs.all Ast.isArgOrId then .ok []
    else
      let names := targetNames cs
      -- `if names and names[-1].element is TEXT: names.pop()` (a target without identifier used to raise IndexError
      -- here: fix 018a2ec)
      let names := match names.getLast? with
        | none => names
        | some last => if last.isTextEl then names.dropLast else names
      match toManL cs with
      | .error e => .error e
      | .ok k => .ok [.node .paragraph (names ++ [.node .indent k])]
  | .targetId _ => .ok []
  | .dirArg _ => .ok []
  | .reference uri cs =>
    match toManL cs with
    | .error e => .error e
    | .ok k => .ok [.node (.url uri) k]
  | .strong cs =>
    match toManL cs with
    | .error e => .error e
    | .ok k => .ok [.node .strong k]
  | .literal cs =>
    match toManL cs with
    | .error e => .error e
    | .ok k => .ok [.node .strong k]
  | .emphasis cs =>
    match toManL cs with
    | .error e => .error e
    | .ok k => .ok [.node .emphasis k]
/-- `SnootyToTroffTree.children` -/
def toManL : List Ast → Except PyErr (List ManNode)
  | [] => .ok []
  | a :: r =>
    match a.toMan with
    | .error e => .error e
    | .ok x =>
      match toManL r with
      | .error e => .error e
      | .ok y => .ok (x ++ y)
end

/-- `builders.man.render`, as tagged chunks. `sec` is `str(section)`. -/
def render (up : Char → Str) (name sec : Str) (ast : Ast) : Except PyErr (List Chunk) :=
  match ast.toMan with
  | .error e => .error e
  | .ok k => (ManNode.node (.manpage name sec) k).toTroff up

/-! ## the code before the fix (for the refutation witness only) -/

def St.stepOld (up : Char → Str) (st : St) : Ev → Except PyErr St
  | .start (.manpage name sec) =>
    .ok (st.macro ['T', 'H'] (name ++ ' ' :: sec))
  | .start (.sect name) =>
    let st := { st with depth := st.depth + 1 }
    .ok (st.macro (if st.depth ≤ 2 then ['S', 'H'] else ['S', 'S']) (name.flatMap up))
  | .start h => st.handleStart up h
  | .text s => .ok { st with buf := st.buf ++ troffEscapeOld s }
  | .bad => .error .assertionError
  | .stop (.url href) =>
    let st := st.flush
    .ok { st with buf := st.buf ++ troffEscapeOld (' ' :: '(' :: (href ++ [')'])) }
  | .stop h => st.handleEnd h

def runOld (up : Char → Str) : St → List Ev → Except PyErr St
  | st, [] => .ok st
  | st, e :: es =>
    match st.stepOld up e with
    | .error x => .error x
    | .ok st' => runOld up st' es

def renderOld (up : Char → Str) (name sec : Str) (ast : Ast) : Except PyErr (List Chunk) :=
  match ast.toMan with
  | .error e => .error e
  | .ok k =>
    match runOld up {} (ManNode.node (.manpage name sec) k).events with
    | .error x => .error x
    | .ok st => .ok st.out

end SnootyVerif.Man
