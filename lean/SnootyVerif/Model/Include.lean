/-
Model of include expansion (property C06).

Mirrors `snooty/postprocess.py`:
* `IncludeHandler.is_bound` is abstracted to two booleans per node (`isS`, `isE`: "this node
  carries the start-after / end-before text"); the harness computes them with the real `is_bound`
  for the correspondence check, so the index arithmetic of `bound_included_AST` is what is modelled.
* `IncludeHandler.bound_included_AST`  ↦ `cutNode` / `cutEach` / `finish` / `cutList`
* `IncludeHandler.enter_node` + the re-entrant event walk (`EventParser._iterate`) with the
  circular-include guard on `FileIdStack` ↦ `expand`.
-/
namespace SnootyVerif.Include

structure Tag where
  id : Nat
  isS : Bool
  isE : Bool
deriving DecidableEq, Repr

inductive T where
  | node (tag : Tag) (cs : List T)
deriving Repr

/-- Python: `idx = dflt; for i, f in enumerate(flags): if f: idx = i` -/
def lastIdxFrom (dflt : Nat) : Nat → List Bool → Nat
  | _, [] => dflt
  | i, f :: fs => lastIdxFrom (if f then i else dflt) (i + 1) fs

def lastIdx (flags : List Bool) (dflt : Nat) : Nat := lastIdxFrom dflt 0 flags

/-- Python slice `xs[a : b]` for `0 ≤ a`, `0 ≤ b`. -/
def slice (xs : List α) (a b : Nat) : List α := (xs.drop a).take (b - a)

abbrev R := T × Bool × Bool

/-- the part of `bound_included_AST` after the loop: index comparison, raise, slice. -/
def finish (rs : List R) : Except String (List T × Bool × Bool) :=
  let si := lastIdx (rs.map (·.2.1)) 0
  let ei := lastIdx (rs.map (·.2.2)) rs.length
  if si > ei then .error "start-after text should precede end-before text"
  else .ok (slice (rs.map (·.1)) si (ei + 1), rs.any (·.2.1), rs.any (·.2.2))

mutual
/-- one iteration of the loop body for `node` (recursion into `node.children`, which are overwritten).
An exception raised deeper propagates (explicit `match` instead of `do` keeps proofs simple). -/
def cutNode : T → Except String R
  | .node tg cs =>
    match cutEach cs with
    | .error e => .error e
    | .ok rs =>
      match finish rs with
      | .error e => .error e
      | .ok v => .ok (.node tg v.1, tg.isS || v.2.1, tg.isE || v.2.2)
def cutEach : List T → Except String (List R)
  | [] => .ok []
  | n :: ns =>
    match cutNode n with
    | .error e => .error e
    | .ok r =>
      match cutEach ns with
      | .error e => .error e
      | .ok rs => .ok (r :: rs)
end

/-- `bound_included_AST(nodes, start, end)` -/
def cutList (ns : List T) : Except String (List T × Bool × Bool) :=
  match cutEach ns with
  | .error e => .error e
  | .ok rs => finish rs

mutual
def hasS : T → Bool
  | .node tg cs => tg.isS || hasSL cs
def hasSL : List T → Bool
  | [] => false
  | n :: ns => hasS n || hasSL ns
end

mutual
def hasE : T → Bool
  | .node tg cs => tg.isE || hasEL cs
def hasEL : List T → Bool
  | [] => false
  | n :: ns => hasE n || hasEL ns
end

mutual
/-- all tags in document (pre-)order -/
def flat : T → List Tag
  | .node tg cs => tg :: flatL cs
def flatL : List T → List Tag
  | [] => []
  | n :: ns => flat n ++ flatL ns
end

/-- ids kept (document order) and the two flags; `none` = the reversed-markers exception -/
def cutSummary (ns : List T) : Option (List Nat × Bool × Bool) :=
  match cutList ns with
  | .ok r => some ((flatL r.1).map (·.id), r.2.1, r.2.2)
  | .error _ => none

/-! ### What `IncludeHandler.enter_node` reports about a bounded include -/

inductive CutDiag where
  | reversed   -- "start-after text should precede end-before text"
  | noStart    -- "Could not find specified start-after text"
  | noEnd      -- "Could not find specified end-before text"
deriving DecidableEq, Repr

/-- `try: … = self.bound_included_AST(…)  except Exception: report it  else: report each wanted marker that was not found`.
`wantS` / `wantE`: the directive has a `start-after` / `end-before` option. -/
def cutDiags (wantS wantE : Bool) (ns : List T) : List CutDiag :=
  match cutList ns with
  | .error _ => [.reversed]
  | .ok r => (if wantS && !r.2.1 then [.noStart] else []) ++ (if wantE && !r.2.2 then [.noEnd] else [])

/-- the code before the repair: the two "not found" checks ran after the `except` as well, with both flags still `False` -/
def cutDiagsOld (wantS wantE : Bool) (ns : List T) : List CutDiag :=
  match cutList ns with
  | .error _ => [.reversed] ++ (if wantS then [.noStart] else []) ++ (if wantE then [.noEnd] else [])
  | .ok r => (if wantS && !r.2.1 then [.noStart] else []) ++ (if wantE && !r.2.2 then [.noEnd] else [])

/-! ### Expansion with the circular-include guard -/

/-- a document: plain nodes, and include directives naming a file -/
inductive Doc where
  | node (id : Nat) (cs : List Doc)
  | inc (id : Nat) (target : String)
deriving Repr

/-- result of expansion: includes carry the expanded root of their target (or nothing) -/
inductive Out where
  | node (id : Nat) (cs : List Out)
  | inc (id : Nat) (target : String) (body : Option (List Out))
deriving Repr

inductive Diag where
  | cannotOpen (inFile : String) (incId : Nat)
  | circular (inFile : String) (incId : Nat)
deriving DecidableEq, Repr

abbrev Pages := List (String × List Doc)

def lookup (pages : Pages) (f : String) : Option (List Doc) := (pages.find? (·.1 == f)).map (·.2)

/-- files that can still be pushed: keys of `pages` not on the stack -/
def room : Pages → List String → Nat
  | [], _ => 0
  | p :: ps, stack => (if stack.contains p.1 then 0 else 1) + room ps stack

abbrev Rec := List String → List Doc → Option (List Out × List Diag)

mutual
/-- The event walk inside ONE file (`stack` does not change here); `rec` is the walk into the
spliced copy of another file's root (one more level of file nesting). -/
def expandIn (pages : Pages) (rec : Rec) (stack : List String) : Doc → Option (Out × List Diag)
  | .node id cs =>
    match expandInL pages rec stack cs with
    | none => none
    | some r => some (.node id r.1, r.2)
  | .inc id target =>
    match lookup pages target with
    | none => some (.inc id target none, [.cannotOpen (stack.headD "") id])
    | some body =>
      if stack.contains target then
        some (.inc id target none, [.circular (stack.headD "") id])
      else
        match rec (target :: stack) body with
        | none => none
        | some r => some (.inc id target (some r.1), r.2)
def expandInL (pages : Pages) (rec : Rec) (stack : List String) : List Doc → Option (List Out × List Diag)
  | [] => some ([], [])
  | d :: ds =>
    match expandIn pages rec stack d with
    | none => none
    | some r1 =>
      match expandInL pages rec stack ds with
      | none => none
      | some r2 => some (r1.1 :: r2.1, r1.2 ++ r2.2)
end

/-- `fuel` bounds the nesting of *file* expansions (Python: recursion depth of the event walk into
spliced roots). `none` = fuel exhausted (Python: RecursionError). -/
def expandFuel (pages : Pages) : Nat → Rec
  | 0 => fun _ _ => none
  | fuel + 1 => expandInL pages (expandFuel pages fuel)

/-- expansion of a whole page (`EventParser.consume` pushes the page's own fileid first) -/
def expandPage (pages : Pages) (page : String) : Option (List Out × List Diag) :=
  match lookup pages page with
  | none => some ([], [])
  | some body => expandFuel pages (room pages [page] + 1) [page] body

/-- the same walk WITHOUT the circular-include guard (the code before the fix) -/
def expandFuelOld (pages : Pages) : Nat → Rec
  | 0 => fun _ _ => none
  | fuel + 1 => fun _ body => expandInL pages (expandFuelOld pages fuel) [] body

end SnootyVerif.Include
