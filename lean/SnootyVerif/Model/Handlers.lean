/-!
# C02 — kernels of postprocessor handlers that index into lists

`TabsSelectorHandler.scan_for_pattern` (snooty/postprocess.py): when a `procedure` directive is left, the names of the
directives currently open (`scanned_pattern`, outermost first) are scanned for the nesting `tabs … tabs … procedure`:

```
starting_point = 0
if len(self.scanned_pattern) > 0:
    for item in self.scanned_pattern:
        if item == self.target_pattern[starting_point]:      # <- IndexError if starting_point ran past the pattern
            starting_point += 1
        if starting_point >= len(self.target_pattern):
            <diagnostic InvalidNestedTabStructure>; return
```
-/
namespace SnootyVerif.Handlers

inductive PyErr where
  | indexError
deriving DecidableEq, Repr

/-- the loop; `sp` = `starting_point`. `.ok true` = the diagnostic was emitted -/
def scanLoop (pattern : List String) : Nat → List String → Except PyErr Bool
  | _, [] => .ok false
  | sp, item :: rest =>
    match pattern[sp]? with
    | none => .error .indexError
    | some t =>
      let sp' := if item == t then sp + 1 else sp
      if sp' ≥ pattern.length then .ok true else scanLoop pattern sp' rest

def scanForPattern (pattern stack : List String) : Except PyErr Bool :=
  if stack.length > 0 then scanLoop pattern 0 stack else .ok false

/-- the variant of a seeded change: the completeness test hoisted out of the loop -/
def scanLoopNoStop (pattern : List String) : Nat → List String → Except PyErr Bool
  | sp, [] => .ok (sp ≥ pattern.length)
  | sp, item :: rest =>
    match pattern[sp]? with
    | none => .error .indexError
    | some t => scanLoopNoStop pattern (if item == t then sp + 1 else sp) rest

end SnootyVerif.Handlers
