import SnootyVerif.Model.Targets
/-
Model of reference resolution (property C08).

Mirrors
* `snooty/target_database.py: TargetDatabase.__getitem__`  ↦ `lookup` (local definitions, then every
  intersphinx inventory: exact key, else lower-cased key; the temporary `mongodb:php` backslash
  fallback is not modelled — generated keys never start with `mongodb:php`)
* `snooty/postprocess.py: RefsHandler.attempt_disambugation` ↦ `disambiguate`
* `RefsHandler.enter_node`                                  ↦ `resolveRef`
  (`get_title_injection_candidate` ↦ `injectable`/`inject`, `~` abbreviation ↦ `abbreviate`);
  the early return for `std:doc` roles is modelled as "node untouched" (`_attach_doc_title`,
  which only fills in a page title, is outside the model: no `std:doc` role is generated).
* the five passes over all root pages                        ↦ `run`

`lower` (Python `str.lower` on the whole key), `isSpace` (`\s` / `str.isspace`), `isWord` (`\w`)
are parameters. `urllib.parse.urljoin(base_url, entry.uri)` is computed by the caller (opaque).
-/
namespace SnootyVerif.Refs
open SnootyVerif SnootyVerif.Targets

/-- `intersphinx.TargetDefinition` (fields the lookup uses) -/
structure InvEntry where
  name : Str
  domainRole : Str
  url : String
  disp : Option Str
deriving DecidableEq, Repr

/-- `intersphinx.Inventory.targets` (a dict) -/
abbrev Inventory := List (Str × InvEntry)

def Inventory.get : Inventory → Str → Option InvEntry
  | [], _ => none
  | (k', e) :: rest, k => if k' = k then some e else Inventory.get rest k

/-- `TargetDatabase.InternalResult` / `ExternalResult` -/
inductive Result where
  | internal (slug htmlId : String) (canonical : Str) (title : Inls)
  | external (url : String) (canonical : Str) (title : Inls)
deriving DecidableEq, Repr

def Result.isInternal : Result → Bool
  | .internal .. => true
  | .external .. => false

def Result.canonical : Result → Str
  | .internal _ _ c _ => c
  | .external _ c _ => c

def Result.title : Result → Inls
  | .internal _ _ _ t => t
  | .external _ _ t => t

/-- rstobject prefixes of the spec: `"domain:role"` ↦ prefix (possibly empty) -/
abbrev Prefixes := List (Str × Str)

def Prefixes.get : Prefixes → Str → Option Str
  | [], _ => none
  | (k', p) :: rest, k => if k' = k then some p else Prefixes.get rest k

/-- `Spec.strip_prefix_from_name` -/
def stripPrefix (prefixes : Prefixes) (domainRole title : Str) : Str :=
  match prefixes.get domainRole with
  | none => title
  | some p =>
    let cand := p ++ ['.']
    if cand.isPrefixOf title then title.drop cand.length else title

def ofLocal (d : LocalDef) : Result := .internal d.page d.htmlId d.canonical d.title

def invResults (lower : Str → Str) (prefixes : Prefixes) (key : Str) : List Inventory → List Result
  | [] => []
  | inv :: rest =>
    let entry := match inv.get key with
      | some e => some e
      | none => inv.get (lower key)
    match entry with
    | none => invResults lower prefixes key rest
    | some e =>
      let dn := match e.disp with
        | some d => d
        | none => stripPrefix prefixes e.domainRole e.name
      .external e.url e.name (.cons (.text dn) .nil) :: invResults lower prefixes key rest

/-- `TargetDatabase.__getitem__` -/
def lookup (isSpace : Char → Bool) (lower : Str → Str) (prefixes : Prefixes) (db : Db)
    (invs : List Inventory) (key : Str) : List Result :=
  let k := normalize isSpace key
  (db.get k).map ofLocal ++ invResults lower prefixes k invs

def onPage (root : String) : Result → Bool
  | .internal s _ _ _ => s == root
  | .external .. => false

/-- `RefsHandler.attempt_disambugation` -/
def disambiguate (root : String) (cands : List Result) : List Result :=
  match cands.filter Result.isInternal with
  | [l] => [l]
  | locals =>
    match locals.filter (onPage root) with
    | [c] => [c]
    | _ => cands

/-! ### title injection -/

/-- `get_title_injection_candidate(node) is not None` for a node with these children -/
def injectable : Inls → Bool
  | .nil => true
  | .cons (.wrap _ ks) .nil => injectable ks
  | _ => false

/-- `injection_candidate.children = title` -/
def inject : Inls → Inls → Inls
  | .nil, title => title
  | .cons (.wrap t ks) .nil, title => .cons (.wrap t (inject ks title)) .nil
  | ks, _ => ks

/-- `value[value.rfind(".") + 1:]` -/
def afterLastDot : Str → Str
  | [] => []
  | c :: cs => if cs.contains '.' then afterLastDot cs else if c = '.' then cs else c :: cs

/-- `str.strip()` -/
def strip (isSpace : Char → Bool) (s : Str) : Str :=
  ((s.dropWhile isSpace).reverse.dropWhile isSpace).reverse

/-- the `~` abbreviation of the cloned title -/
def abbreviate (isSpace : Char → Bool) : Inls → Inls
  | .cons (.text v) rest =>
    let nv := strip isSpace (afterLastDot v)
    if nv.isEmpty then .cons (.text v) rest else .cons (.text nv) rest
  | t => t

/-- `s.replace(pat, "")` for a non-empty `pat` (`skip` = characters of a match still to drop) -/
def removeAllAux (pat : Str) : Nat → Str → Str
  | _, [] => []
  | skip + 1, _ :: cs => removeAllAux pat skip cs
  | 0, c :: cs => if pat.isPrefixOf (c :: cs) then removeAllAux pat (pat.length - 1) cs else c :: removeAllAux pat 0 cs

def removeAll (pat s : Str) : Str := removeAllAux pat 0 s

inductive Dest where
  | none
  | fileid (slug htmlId : String)
  | url (u : String)
deriving DecidableEq, Repr

def Result.dest : Result → Dest
  | .internal s h _ _ => .fileid s h
  | .external u _ _ => .url u

def describe : Result → String
  | .internal s _ _ _ => s
  | .external u _ _ => u

inductive Diag where
  | notFound (name target : Str)
  | ambiguous (name target : Str) (cands : List String)
  | childless (target : Str)
deriving DecidableEq, Repr

/-- what `RefsHandler.enter_node` leaves on the node / appends to `diagnostics[current]` -/
structure RefOut where
  target : Str
  dest : Dest
  kids : Inls
  diags : List Diag
deriving DecidableEq, Repr

structure Params where
  isSpace : Char → Bool
  isWord : Char → Bool
  lower : Str → Str
  prefixes : Prefixes

def lastOf : List Result → Option Result
  | [] => none
  | [r] => some r
  | _ :: rs => lastOf rs

/-- `RefsHandler.enter_node` for a `RefRole` met on root page `root` -/
def resolveRef (P : Params) (db : Db) (invs : List Inventory) (root : String) (r : Ref) :
    Except PyErr RefOut :=
  if r.domain = stdS ∧ r.role = docS then .ok ⟨r.target, .none, r.kids, []⟩
  else
    let cands := lookup P.isSpace P.lower P.prefixes db invs (mkKey r.domain r.role r.target)
    if cands.isEmpty then
      let title := match P.prefixes.get (r.domain ++ ':' :: r.role) with
        | some p => if p.isEmpty then r.target else removeAll (p ++ ['.']) r.target
        | none => r.target
      let kids := if injectable r.kids then inject r.kids (.cons (.text title) .nil) else r.kids
      .ok ⟨r.target, .none, kids, [.notFound r.role r.target]⟩
    else
      let c2 := if cands.length > 1 then disambiguate root cands else cands
      let d1 := if c2.length > 1 then [Diag.ambiguous r.role r.target (c2.map describe)] else []
      -- `target_candidates[-1]`
      match lastOf c2 with
      | none => .error .indexError
      | some res =>
        if injectable r.kids then
          let t := if r.flag.contains '~' then abbreviate P.isSpace res.title else res.title
          let kids := inject r.kids t
          .ok ⟨res.canonical, res.dest, kids, d1 ++ (if kids.isNil then [.childless res.canonical] else [])⟩
        else .ok ⟨res.canonical, res.dest, r.kids, d1⟩

/-! ### the passes -/

/-- pass 5 over one page: every reference in document order, with the file whose diagnostics list
receives its diagnostics -/
def pass5Items (P : Params) (db : Db) (invs : List Inventory) (root : String) :
    List Item → Except PyErr (List (String × Nat × RefOut))
  | [] => .ok []
  | .ref src r :: rest =>
    match resolveRef P db invs root r with
    | .error e => .error e
    | .ok o =>
      match pass5Items P db invs root rest with
      | .error e => .error e
      | .ok os => .ok ((src, r.rid, o) :: os)
  | _ :: rest => pass5Items P db invs root rest

def pass5 (P : Params) (db : Db) (invs : List Inventory) :
    List Page → Except PyErr (List (List (String × Nat × RefOut)))
  | [] => .ok []
  | p :: ps =>
    match pass5Items P db invs p.slug p.items with
    | .error e => .error e
    | .ok o =>
      match pass5 P db invs ps with
      | .error e => .error e
      | .ok os => .ok (o :: os)

/-- the pass-3 handlers that rewrite targets (`ProgramOptionHandler`, `AddTitlesToLabelTargetsHandler`) -/
def titled : List Page → Except PyErr (List Page)
  | [] => .ok []
  | p :: ps =>
    match programAux none p.items with
    | .error e => .error e
    | .ok items =>
      match titled ps with
      | .error e => .error e
      | .ok ps' => .ok (⟨p.slug, addTitles items⟩ :: ps')

def contentsAll : List Page → List (Option (List (Nat × String)))
  | [] => []
  | p :: ps => contentsOf p.items :: contentsAll ps

structure Output where
  db : Db
  htmlIds : List (List (Option String))
  refs : List (List (String × Nat × RefOut))
  contents : List (Option (List (Nat × String)))

/-- `Postprocessor.run` restricted to the handlers of this property; `pages` = the `.txt` pages in the
order of the `pages` dict, each already include-expanded. -/
def run (P : Params) (invs : List Inventory) (pages : List Page) : Except PyErr Output :=
  match titled pages with
  | .error e => .error e
  | .ok ps =>
    match pass3Docs P.isSpace P.isWord [] ps with
    | .error e => .error e
    | .ok db3 =>
      match pass4 P.isSpace P.isWord db3 ps with
      | .error e => .error e
      | .ok (db4, ids) =>
        match pass5 P db4 invs ps with
        | .error e => .error e
        | .ok refs => .ok ⟨db4, ids, refs, contentsAll ps⟩

end SnootyVerif.Refs
