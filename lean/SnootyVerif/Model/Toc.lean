/-!
# Model of the table-of-contents construction (snooty/postprocess.py, rstparser.py)

Mirrors `Postprocessor.build_toctree` / `find_toctree_nodes` / `pre_order` / `get_paths` /
`breadcrumbs` / `clean_slug` and `BaseTocTreeDirective.make_toc_entry`.

Text is `List Char` throughout (the driver converts).  Python `dict` = association list in
insertion order, `set` = list.  The DFS is structural on a *depth* fuel: `walk (n+1)` may nest
page expansions `n` deep; exhausting the fuel (`none`) stands for Python not returning
(RecursionError / hang).  `Proofs/Toc.lean` shows `pages.length + 1` is always enough.
-/
namespace SnootyVerif.Toc

abbrev Str := List Char
abbrev Slug := List Char

/-! ## clean_slug -/

/-- `str.strip("/")` -/
def stripSlashes (s : Str) : Str :=
  ((s.dropWhile (· == '/')).reverse.dropWhile (· == '/')).reverse

/-- `os.path.splitext` (posixpath): the extension starts at the last `.` of the last path
component, unless that component consists of dots only up to there. -/
def splitext (p : Str) : Str × Str :=
  let nameRev := p.reverse.takeWhile (· != '/')
  let extRev := nameRev.takeWhile (· != '.')
  if extRev.length = nameRev.length then (p, [])
  else
    let stemRev := nameRev.drop (extRev.length + 1)
    if stemRev.all (· == '.') then (p, [])
    else (p.take (p.length - extRev.length - 1), '.' :: extRev.reverse)

def knownExts : List Str :=
  [['.', 't', 'x', 't'], ['.', 'r', 's', 't'], ['.', 'y', 'a', 'm', 'l'], ['.', 'a', 's', 't']]

/-- `clean_slug`: strip slashes, then a known source extension. -/
def cleanSlug (s : Str) : Slug :=
  let s' := stripSlashes s
  let (root, ext) := splitext s'
  if knownExts.contains ext then root else s'

/-! ## Inputs -/

/-- `n.TocTreeDirectiveEntry(title, url, slug, ref_project)` -/
structure Entry where
  title : Option Str
  url : Option Str
  slug : Option Str
  refProject : Option Str
  deriving DecidableEq, Repr

/-- one file of the build.  `entries`: the entries of all toctree directives found by
`find_toctree_nodes` in the (include-expanded) AST, in document order. -/
structure Page where
  slug : Slug            -- `FileId.without_known_suffix` (key of `slug_fileid_mapping`)
  isTxt : Bool           -- `fileid.suffix == ".txt"`
  heading : Option Str   -- text of `HeadingHandler.get_title(slug)`, `none` if absent/empty
  orphan : Bool          -- `"orphan" in ast.options`
  entries : List Entry
  deriving DecidableEq, Repr

abbrev Pages := List Page

/-- `slug_fileid_mapping[slug]` followed by `context.pages[fileid]` -/
def lookup (P : Pages) (s : Slug) : Option Page := P.find? (fun p => p.slug == s)

/-- Python truthiness of an `Optional[str]` -/
def truthy : Option Str → Option Str
  | some (c :: cs) => some (c :: cs)
  | _ => none

/-- which branch of the `if entry.ref_project / if entry.url / elif entry.slug` cascade wins -/
inductive Cls where
  | url (u : Str)
  | page (s : Str)
  | project (p : Str)
  | empty
  deriving DecidableEq, Repr

def classify (e : Entry) : Cls :=
  match truthy e.url with
  | some u => .url u
  | none =>
    match truthy e.slug with
    | some s => .page s
    | none =>
      match truthy e.refProject with
      | some p => .project p
      | none => .empty

/-! ## Output tree -/

inductive Kind where
  | page | url | project
  deriving DecidableEq, Repr

/-- a toctree node.  `label`: for `page` the slug of the page (`without_known_suffix`; it is
serialised through `dispSlug`), for `url` the url, for `project` the project name. -/
inductive Tree where
  | node (kind : Kind) (label : Str) (title : Option Str) (children : List Tree)
  deriving Repr

def Tree.kind : Tree → Kind | .node k _ _ _ => k
def Tree.label : Tree → Str | .node _ l _ _ => l
def Tree.title : Tree → Option Str | .node _ _ t _ => t
def Tree.children : Tree → List Tree | .node _ _ _ cs => cs

def indexSlug : Slug := ['i', 'n', 'd', 'e', 'x']
def contentsSlug : Slug := ['c', 'o', 'n', 't', 'e', 'n', 't', 's']

/-- `"/" if slug == "index" else slug` -/
def dispSlug (s : Slug) : Str := if s = indexSlug then ['/'] else s

/-- the value under the `"slug"` key of a serialised node (`none`: key absent) -/
def Tree.slugKey : Tree → Option Str
  | .node .page l _ _ => some (dispSlug l)
  | .node .project l _ _ => some l
  | .node .url _ _ _ => none

/-! ## build_toctree / find_toctree_nodes -/

structure St where
  visited : List Slug                 -- `visited_file_ids`, most recent first
  missing : List (Slug × Slug)        -- `MissingTocTreeEntry(slug_cleaned)` on file, in order
  deriving Repr

/-- the node title: the entry's explicit title, else the target page's heading -/
def titleOf (e : Entry) (pg : Page) : Option Str :=
  match truthy e.title with
  | some t => some t
  | none => pg.heading

/-- the entries of one page, threading `visited`; `rec` expands another page. -/
def walkList (P : Pages) (rec : Slug → List Entry → St → Option (List Tree × St)) (owner : Slug) :
    List Entry → St → Option (List Tree × St)
  | [], st => some ([], st)
  | e :: es, st =>
    match classify e with
    | .empty => walkList P rec owner es st
    | .url u =>
      match walkList P rec owner es st with
      | none => none
      | some (ts, st') => some (.node .url u (truthy e.title) [] :: ts, st')
    | .project p =>
      match walkList P rec owner es st with
      | none => none
      | some (ts, st') => some (.node .project p (truthy e.title) [] :: ts, st')
    | .page s =>
      let c := cleanSlug s
      match lookup P c with
      | none => walkList P rec owner es { st with missing := st.missing ++ [(owner, c)] }
      | some pg =>
        let title := titleOf e pg
        if pg.slug ∈ st.visited then
          match walkList P rec owner es st with
          | none => none
          | some (ts, st') => some (.node .page pg.slug title [] :: ts, st')
        else
          match rec pg.slug pg.entries { st with visited := pg.slug :: st.visited } with
          | none => none
          | some (kids, st1) =>
            match walkList P rec owner es st1 with
            | none => none
            | some (ts, st2) => some (.node .page pg.slug title kids :: ts, st2)

/-- `find_toctree_nodes` with a bound on the nesting depth of page expansions. -/
def walk (P : Pages) : Nat → Slug → List Entry → St → Option (List Tree × St)
  | 0 => fun _ _ _ => none
  | n + 1 => walkList P (walk P n)

structure Result where
  /-- `none`: the metadata holds `{}` (neither contents.txt nor index.txt) -/
  tree : Option (List Tree)
  visited : List Slug
  missing : List (Slug × Slug)
  orphans : List Slug
  deriving Repr

/-- the starting page: `contents.txt`, else `index.txt` -/
def startPage (P : Pages) : Option Page :=
  match lookup P contentsSlug with
  | some p => if p.isTxt then some p else
      match lookup P indexSlug with
      | some q => if q.isTxt then some q else none
      | none => none
  | none =>
      match lookup P indexSlug with
      | some q => if q.isTxt then some q else none
      | none => none

/-- the `OrphanedPage` loop -/
def orphansOf (P : Pages) (visited : List Slug) : List Slug :=
  (P.filter (fun p => p.isTxt && !(visited.contains p.slug) && !p.orphan)).map (·.slug)

/-- `build_toctree`; outer `none` = fuel exhausted. -/
def buildToc (P : Pages) (fuel : Nat) : Option Result :=
  match startPage P with
  | none => some { tree := none, visited := [], missing := [], orphans := [] }
  | some sp =>
    match walk P fuel sp.slug sp.entries { visited := [sp.slug], missing := [] } with
    | none => none
    | some (ts, st) =>
      some { tree := some ts, visited := st.visited, missing := st.missing,
             orphans := orphansOf P st.visited }

/-- the fuel the driver and the theorems use -/
def enoughFuel (P : Pages) : Nat := P.length + 1

/-! ## pre_order (accumulator passing, as in the code) -/

mutual
def preOrderAcc : Tree → List Str → List Str
  | .node k l _ cs, order =>
    let order := match (Tree.node k l none []).slugKey with
      | some s => order ++ [s]
      | none => order
    preOrderAccL cs order
def preOrderAccL : List Tree → List Str → List Str
  | [], order => order
  | t :: ts, order => preOrderAccL ts (preOrderAcc t order)
end

/-- `toctree_order(tree)`: the root carries slug "/" ; `{}` gives `[]` -/
def toctreeOrder : Option (List Tree) → List Str
  | none => []
  | some ts => preOrderAccL ts [['/']]

/-! ## get_paths / breadcrumbs -/

mutual
/-- `get_paths(node, path, all_paths)` after the fix: a URL leaf records the chain of its
ancestors (so that a page whose toctree lists only URLs is not forgotten).
A node with children but without a "slug" key would be a KeyError in Python; `build_toctree`
never produces one (`url_nodes_leaves`), the model returns `all` unchanged there. -/
def getPathsAcc : Tree → List Str → List (List Str) → List (List Str)
  | .node k l _ cs, path, all =>
    if cs.isEmpty then
      match (Tree.node k l none []).slugKey with
      | some s => all ++ [path ++ [cleanSlug s]]
      | none => all ++ [path]
    else
      match (Tree.node k l none []).slugKey with
      | some s => getPathsAccL cs (path ++ [cleanSlug s]) all
      | none => all
def getPathsAccL : List Tree → List Str → List (List Str) → List (List Str)
  | [], _, all => all
  | t :: ts, path, all => getPathsAccL ts path (getPathsAcc t path all)
end

mutual
/-- `get_paths` as it was before the fix: URL leaves are skipped altogether. -/
def getPathsOldAcc : Tree → List Str → List (List Str) → List (List Str)
  | .node k l _ cs, path, all =>
    if cs.isEmpty then
      match (Tree.node k l none []).slugKey with
      | some s => all ++ [path ++ [cleanSlug s]]
      | none => all
    else
      match (Tree.node k l none []).slugKey with
      | some s => getPathsOldAccL cs (path ++ [cleanSlug s]) all
      | none => all
def getPathsOldAccL : List Tree → List Str → List (List Str) → List (List Str)
  | [], _, all => all
  | t :: ts, path, all => getPathsOldAccL ts path (getPathsOldAcc t path all)
end

/-- `d[k] = v` on an insertion-ordered dict -/
def dictSet (d : List (Str × List Str)) (k : Str) (v : List Str) : List (Str × List Str) :=
  match d with
  | [] => [(k, v)]
  | (k', v') :: rest => if k' = k then (k', v) :: rest else (k', v') :: dictSet rest k v

def dictGet (d : List (Str × List Str)) (k : Str) : Option (List Str) :=
  match d with
  | [] => none
  | (k', v') :: rest => if k' = k then some v' else dictGet rest k

/-- `for i in range(len(path)): page_dict[path[i]] = path[:i]`; `pre` = `path[:i]` reversed -/
def crumbPath (d : List (Str × List Str)) (pre : List Str) : List Str → List (Str × List Str)
  | [] => d
  | s :: rest => crumbPath (dictSet d s pre) (pre ++ [s]) rest

def crumbAll (d : List (Str × List Str)) : List (List Str) → List (Str × List Str)
  | [] => d
  | p :: ps => crumbAll (crumbPath d [] p) ps

/-- `breadcrumbs(tree)` (paths start below the root) -/
def parentPaths : Option (List Tree) → List (Str × List Str)
  | none => []
  | some ts => crumbAll [] (getPathsAccL ts [] [])

def parentPathsOld : Option (List Tree) → List (Str × List Str)
  | none => []
  | some ts => crumbAll [] (getPathsOldAccL ts [] [])

/-! ## make_toc_entry -/

/-- index of the leftmost `<` not preceded by NUL; `prev` = the previous character -/
def findLt (prev : Option Char) : Str → Option Nat
  | [] => none
  | c :: cs =>
    if c = '<' ∧ prev ≠ some (Char.ofNat 0) then some 0
    else (findLt (some c) cs).map (· + 1)

def rstrip (isSpace : Char → Bool) (s : Str) : Str := (s.reverse.dropWhile isSpace).reverse

/-- `PAT_EXPLICIT_TITLE.match(child)` = `^(.*?)\s*(?<!\x00)<(.*?)>$` on a string without
newlines: `(label, target)` -/
def explicitTitle (isSpace : Char → Bool) (s : Str) : Option (Str × Str) :=
  if s.getLast? = some '>' then
    match findLt none s.dropLast with
    | some j => some (rstrip isSpace (s.take j), (s.dropLast).drop (j + 1))
    | none => none
  else none

/-- `PAT_URI.match`: `^[a-z]+://` -/
def isUri (s : Str) : Bool :=
  let sch := s.takeWhile (fun c => 'a' ≤ c ∧ c ≤ 'z')
  !sch.isEmpty && (s.drop sch.length).take 3 == [':', '/', '/']

inductive TocErr where
  | typeError     -- `PAT_URI.match(None)`: project reference without a title
  deriving DecidableEq, Repr

/-- `make_toc_entry(source, child)`; `hasScheme` = `bool(urlparse(target).scheme)` (parameter).
`ok none` = the "must include titles" error node, no entry. -/
def makeTocEntry (isSpace : Char → Bool) (hasScheme : Str → Bool) (child : Str) :
    Except TocErr (Option Entry) :=
  let (title, target, refProject) : Option Str × Option Str × Option Str :=
    match explicitTitle isSpace child with
    | some (label, target) =>
      if target.head? = some '|' ∧ target.getLast? = some '|' then
        (some label, none, some (target.drop 1).dropLast)
      else (some label, some target, none)
    | none => (none, some child, none)
  match truthy title, target with
  | none, none => .error .typeError
  | none, some t =>
    if isUri t then .ok none   -- `ref_project` is None on this path
    else if hasScheme t then .ok (some ⟨title, some t, none, refProject⟩)
    else .ok (some ⟨title, none, some t, refProject⟩)
  | some _, none => .ok (some ⟨title, none, none, refProject⟩)
  | some _, some t =>
    if hasScheme t then .ok (some ⟨title, some t, none, refProject⟩)
    else .ok (some ⟨title, none, some t, refProject⟩)

/-! ## validate_toc_entries (parser.py) -/

/-- `for e in entries: if bad(e): entries.remove(e)` with CPython's list-iterator semantics, as the loop was BEFORE
the fix 211e214: the iterator is an index, `remove` deletes the first equal element, so the element following
a removed one is skipped. -/
def validateLoop (bad : Entry → Bool) : Nat → Nat → List Entry → List Entry
  | 0, _, l => l
  | fuel + 1, i, l =>
    match l[i]? with
    | none => l
    | some e => if bad e then validateLoop bad fuel (i + 1) (l.erase e) else validateLoop bad fuel (i + 1) l

def badEntry (products : List Str) (e : Entry) : Bool :=
  match truthy e.refProject with
  | some p => !products.contains p
  | none => false

def validateTocEntriesOld (products : List Str) (es : List Entry) : List Entry :=
  validateLoop (badEntry products) (es.length + 1) 0 es

/-- the loop as it is now: `for e in list(entries): if bad(e): entries.remove(e)` — the iteration runs over a copy,
`remove` still deletes the first equal element of the list the caller keeps using. -/
def validateTocEntries (products : List Str) (es : List Entry) : List Entry :=
  es.foldl (fun l e => if badEntry products e then l.erase e else l) es

end SnootyVerif.Toc
