/-
Model of the generic loader `snooty/flutter.py: check_type` (property C16) and of the glue
around it in `snooty/types.py: ProjectConfig.open` (fixed code: a TOML decode error always
reaches the `except TOMLDecodeErrorWithSourceInfo` handler).

Python                                   Lean
------                                   ----
declared type (typing object / class)    `Ty`   (mutual with `Tys`, `Fields`)
plain value (tomli / yaml output)        `Val`
value returned by `check_type`           `TVal`
exception classes that can leave it      `LoadErr`
`isinstance`-style typing judgement      `inductive HasType`

Import-free on purpose.
-/
namespace SnootyVerif.Flutter

/-- Plain data as produced by tomli / PyYAML / json, plus "any other object" (datetime, Path, an
already constructed dataclass …) of which only the class names of its MRO matter to `check_type`. -/
inductive Val where
  | none
  | bool (b : Bool)
  | int (i : Int)
  | float (repr : String)
  | str (s : String)
  | list (xs : List Val)
  | dict (kvs : List (String × Val))
  | obj (classes : List String)

/-- names of the classes `isinstance(v, ·)` accepts (the MRO of `type(v)`). -/
def Val.classes : Val → List String
  | .none => ["NoneType", "object"]
  | .bool _ => ["bool", "int", "object"]
  | .int _ => ["int", "object"]
  | .float _ => ["float", "object"]
  | .str _ => ["str", "object"]
  | .list _ => ["list", "object"]
  | .dict _ => ["dict", "object"]
  | .obj cs => cs

/-- `__post_init__` validators of checked dataclasses that can raise (only
`specparser.LinkRoleType`: `self.link.count("%s") != 1 → ValueError`). -/
inductive Post where
  | none
  | onePlaceholder (field : String)
  deriving DecidableEq

mutual
/-- Declared types as `check_type` distinguishes them. -/
inductive Ty where
  | str | int | float | bool | none
  | any                                              -- `object` / `typing.Any`
  | enum (name : String) (members : List (String × Option Int))
  | cls (name : String)                              -- any other class: `isinstance(data, ty)`
  | list (t : Ty)
  | set (t : Ty)
  | dict (k : Ty) (v : Ty)
  | tuple (ts : Tys)
  | union (ts : Tys)                                 -- `Optional[X]` is `Union[X, None]`
  | record (name : String) (fs : Fields) (post : Post)  -- `@checked` dataclass
  | unsupported                                      -- other PEP-484 form having `__origin__`
inductive Tys where
  | nil
  | cons (t : Ty) (ts : Tys)
/-- fields of a checked dataclass in declaration order: name, type, "has default / default_factory" -/
inductive Fields where
  | nil
  | cons (name : String) (t : Ty) (hasDefault : Bool) (fs : Fields)
end

def Tys.toList : Tys → List Ty
  | .nil => []
  | .cons t ts => t :: ts.toList

def Tys.ofList : List Ty → Tys
  | [] => .nil
  | t :: ts => .cons t (Tys.ofList ts)

def Tys.length : Tys → Nat
  | .nil => 0
  | .cons _ ts => ts.length + 1

def Fields.names : Fields → List String
  | .nil => []
  | .cons n _ _ fs => n :: fs.names

def Fields.ofList : List (String × Ty × Bool) → Fields
  | [] => .nil
  | (n, t, d) :: fs => .cons n t d (Fields.ofList fs)

/-- Result of a successful `check_type`. -/
inductive TVal where
  | none
  | bool (b : Bool)
  | int (i : Int)
  | float (repr : String)
  | str (s : String)
  | enumMember (enum : String) (member : String)
  | list (xs : List TVal)
  | set (xs : List TVal)                 -- Python set; order and multiplicity immaterial
  | dict (kvs : List (TVal × TVal))
  | tuple (xs : List TVal)
  | record (name : String) (fields : List (String × TVal))   -- the kwargs `ty(**result)` got
  | dflt                                 -- what the field's default factory returned (never checked)
  | raw (v : Val)                        -- `data` returned unchanged (Any / isinstance pass-through)

/-- exception classes that can leave `check_type` -/
inductive LoadErr where
  | wrongType                 -- LoadWrongType
  | wrongArity                -- LoadWrongArity
  | unknownField (f : String) -- LoadUnknownField
  | unloadable                -- LoadError("Unloadable type")
  | unsupportedType           -- LoadError("Unsupported PEP-484 type")
  | postInit                  -- ValueError raised by a dataclass' `__post_init__`
  deriving DecidableEq

/-- `isinstance(e, flutter.LoadError)` -/
def LoadErr.isLoadError : LoadErr → Bool
  | .postInit => false
  | _ => true

def LoadErr.className : LoadErr → String
  | .wrongType => "LoadWrongType"
  | .wrongArity => "LoadWrongArity"
  | .unknownField _ => "LoadUnknownField"
  | .unloadable => "LoadError"
  | .unsupportedType => "LoadError"
  | .postInit => "ValueError"

/-- number of occurrences of "%s" (`str.count`; the two characters differ, so no overlap issue) -/
def countPlaceholder : List Char → Nat
  | '%' :: 's' :: rest => countPlaceholder rest + 1
  | _ :: rest => countPlaceholder rest
  | [] => 0

/-- does `__post_init__` accept the constructor arguments? -/
def Post.ok : Post → List (String × TVal) → Bool
  | .none, _ => true
  | .onePlaceholder f, res =>
    match res.lookup f with
    | some (.str s) => countPlaceholder s.toList == 1
    | _ => false

/-- iteration of a `collections.abc.Collection` among plain values (tuple branch):
a list yields its items, a dict its keys, a string its characters. -/
def asItems : Val → Option (List Val)
  | .list xs => some xs
  | .dict kvs => some (kvs.map (fun kv => Val.str kv.1))
  | .str s => some (s.toList.map (fun c => Val.str (String.singleton c)))
  | _ => none

/-- `ty(data)` on an Enum: lookup by value (`True == 1`). -/
def enumByValue (name : String) (ms : List (String × Option Int)) (i : Int) : Except LoadErr TVal :=
  match ms.find? (fun m => m.2 == some i) with
  | some m => .ok (.enumMember name m.1)
  | none => .error .wrongType

/-- `ty[data]` on an Enum: lookup by member name. -/
def enumByName (name : String) (ms : List (String × Option Int)) (s : String) : Except LoadErr TVal :=
  match ms.find? (fun m => m.1 == s) with
  | some m => .ok (.enumMember name m.1)
  | none => .error .wrongType

/-- keys of the dataclass that `data` lacks (`missing`), in declaration order -/
def missingKeys (names : List String) (kvs : List (String × Val)) : List String :=
  names.filter (fun n => !(kvs.any (fun kv => kv.1 == n)))

/-- `data.items()` after the missing keys were assigned `None`; third component: `key in missing` -/
def recordItems (names : List String) (kvs : List (String × Val)) : List (String × Val × Bool) :=
  kvs.map (fun kv => (kv.1, kv.2, false)) ++ (missingKeys names kvs).map (fun n => (n, Val.none, true))

mutual
/-- `flutter.check_type(ty, data)`, branch by branch. -/
def check : Ty → Val → Except LoadErr TVal
  -- primitive: `isinstance(data, ty)`; bool is a subclass of int, int is not a float
  | .str, v => match v with
    | .str s => .ok (.str s)
    | _ => .error .wrongType
  | .int, v => match v with
    | .int i => .ok (.int i)
    | .bool b => .ok (.bool b)
    | _ => .error .wrongType
  | .float, v => match v with
    | .float r => .ok (.float r)
    | _ => .error .wrongType
  | .bool, v => match v with
    | .bool b => .ok (.bool b)
    | _ => .error .wrongType
  | .none, v => match v with
    | .none => .ok .none
    | _ => .error .wrongType
  -- Enum: by name for str, by value for int (bool included); anything else falls through to the
  -- last `isinstance(data, ty)` test
  | .enum name ms, v => match v with
    | .str s => enumByName name ms s
    | .int i => enumByValue name ms i
    | .bool b => enumByValue name ms (if b then 1 else 0)
    | v => if name ∈ v.classes then .ok (.raw v) else .error .unloadable
  -- checked dataclass
  | .record name fs post, v => match v with
    | .dict kvs =>
      match (recordItems fs.names kvs).mapM
          (fun it => (checkKey fs it.1 it.2.1 it.2.2).map (fun x => (it.1, x))) with
      | .error e => .error e
      | .ok res => if post.ok res then .ok (.record name res) else .error .postInit
    | _ => .error .wrongType
  | .list t, v => match v with
    | .list xs => (xs.mapM (check t)).map TVal.list
    | _ => .error .wrongType
  | .set t, v => match v with
    | .list xs => (xs.mapM (check t)).map TVal.set
    | _ => .error .wrongType
  | .dict kt vt, v => match v with
    | .dict kvs =>
      (kvs.mapM (fun (kv : String × Val) => do
        let k ← check kt (Val.str kv.1)
        let x ← check vt kv.2
        pure (k, x))).map TVal.dict
    | _ => .error .wrongType
  | .tuple ts, v => match asItems v with
    | some xs =>
      if xs.length == ts.length then (checkTuple ts xs).map TVal.tuple else .error .wrongArity
    | none => .error .wrongType
  | .union ts, v => checkUnion ts v
  | .unsupported, _ => .error .unsupportedType
  | .any, v => .ok (.raw v)
  | .cls name, v => if name ∈ v.classes then .ok (.raw v) else .error .unloadable

/-- `for candidate_ty in args: try: return check_type(candidate_ty, data) except LoadError: pass` -/
def checkUnion : Tys → Val → Except LoadErr TVal
  | .nil, _ => .error .wrongType
  | .cons t ts, v =>
    match check t v with
    | .ok x => .ok x
    | .error e => if e.isLoadError then checkUnion ts v else .error e

/-- `tuple(check_type(tuple_ty, x) for x, tuple_ty in zip(data, args))` -/
def checkTuple : Tys → List Val → Except LoadErr (List TVal)
  | .nil, _ => .ok []
  | .cons _ _, [] => .ok []
  | .cons t ts, x :: xs =>
    match check t x with
    | .error e => .error e
    | .ok y =>
      match checkTuple ts xs with
      | .error e => .error e
      | .ok ys => .ok (y :: ys)

/-- body of the `for key, value in data.items()` loop: unknown key → `LoadUnknownField`; missing key
with a default factory → the default; otherwise the (possibly `None`) value is checked. -/
def checkKey : Fields → String → Val → Bool → Except LoadErr TVal
  | .nil, k, _, _ => .error (.unknownField k)
  | .cons n t d fs, k, v, miss =>
    if n = k then (if miss && d then .ok .dflt else check t v) else checkKey fs k v miss
end

/-! ### typing judgement on results (Python `isinstance` semantics: `bool ≤ int`) -/

mutual
inductive HasType : TVal → Ty → Prop
  | none : HasType .none .none
  | str (s) : HasType (.str s) .str
  | int (i) : HasType (.int i) .int
  | boolAsInt (b) : HasType (.bool b) .int
  | bool (b) : HasType (.bool b) .bool
  | float (r) : HasType (.float r) .float
  | any (x) : HasType x .any
  | enumMember {name ms mem} : (∃ m ∈ ms, m.1 = mem) → HasType (.enumMember name mem) (.enum name ms)
  | enumInstance {name ms v} : name ∈ Val.classes v → HasType (.raw v) (.enum name ms)
  | cls {name v} : name ∈ Val.classes v → HasType (.raw v) (.cls name)
  | list {xs t} : (∀ x ∈ xs, HasType x t) → HasType (.list xs) (.list t)
  | set {xs t} : (∀ x ∈ xs, HasType x t) → HasType (.set xs) (.set t)
  | dict {kvs k v} : (∀ kv ∈ kvs, HasType kv.1 k) → (∀ kv ∈ kvs, HasType kv.2 v) → HasType (.dict kvs) (.dict k v)
  | tuple {xs ts} : HasTypes xs ts → HasType (.tuple xs) (.tuple ts)
  | union {x t ts} : t ∈ Tys.toList ts → HasType x t → HasType x (.union ts)
  | record {name res fs post} :
      (∀ kv ∈ res, FieldOk fs kv.1 kv.2) →            -- every argument is a declared field, well typed
      (∀ n ∈ Fields.names fs, ∃ x, (n, x) ∈ res) →     -- every declared field got an argument
      Post.ok post res = true →
      HasType (.record name res) (.record name fs post)
/-- component-wise typing of a tuple -/
inductive HasTypes : List TVal → Tys → Prop
  | nil : HasTypes [] .nil
  | cons {x xs t ts} : HasType x t → HasTypes xs ts → HasTypes (x :: xs) (.cons t ts)
/-- `FieldOk fs k x`: `k` is declared in `fs` and `x` has its type, or is the declared default -/
inductive FieldOk : Fields → String → TVal → Prop
  | dflt {n t fs} : FieldOk (.cons n t true fs) n .dflt
  | here {n t d fs x} : HasType x t → FieldOk (.cons n t d fs) n x
  | there {n t d fs k x} : n ≠ k → FieldOk fs k x → FieldOk (.cons n t d fs) k x
end

/-! ### types without raising `__post_init__` -/
mutual
def Ty.noPost : Ty → Bool
  | .list t => t.noPost
  | .set t => t.noPost
  | .dict k v => k.noPost && v.noPost
  | .tuple ts => ts.noPost
  | .union ts => ts.noPost
  | .record _ fs post => decide (post = Post.none) && fs.noPost
  | _ => true
def Tys.noPost : Tys → Bool
  | .nil => true
  | .cons t ts => t.noPost && ts.noPost
def Fields.noPost : Fields → Bool
  | .nil => true
  | .cons _ t _ fs => t.noPost && fs.noPost
end

/-! ### input conformance (for the completeness direction) -/
mutual
/-- `Conforms v ty`: the plain value `v` is of the shape `ty` describes, with no unknown fields;
absent fields need a default or a type accepting `None`. -/
inductive Conforms : Val → Ty → Prop
  | none : Conforms .none .none
  | str (s) : Conforms (.str s) .str
  | int (i) : Conforms (.int i) .int
  | boolAsInt (b) : Conforms (.bool b) .int
  | bool (b) : Conforms (.bool b) .bool
  | float (r) : Conforms (.float r) .float
  | any (v) : Conforms v .any
  | enumName {name ms s} : (∃ m ∈ ms, m.1 = s) → Conforms (.str s) (.enum name ms)
  | enumValue {name ms i} : (∃ m ∈ ms, m.2 = some i) → Conforms (.int i) (.enum name ms)
  | cls {name v} : name ∈ Val.classes v → Conforms v (.cls name)
  | list {xs t} : (∀ x ∈ xs, Conforms x t) → Conforms (.list xs) (.list t)
  | set {xs t} : (∀ x ∈ xs, Conforms x t) → Conforms (.list xs) (.set t)
  | dict {kvs k v} : (∀ kv ∈ kvs, Conforms (.str kv.1) k) → (∀ kv ∈ kvs, Conforms kv.2 v) → Conforms (.dict kvs) (.dict k v)
  | tuple {xs ts} : ConformsAll xs ts → Conforms (.list xs) (.tuple ts)
  | union {v t ts} : t ∈ Tys.toList ts → Conforms v t → Conforms v (.union ts)
  | record {name kvs fs post} :
      (∀ kv ∈ kvs, ConformsKey fs kv.1 kv.2 false) →
      (∀ n ∈ missingKeys (Fields.names fs) kvs, ConformsKey fs n .none true) →
      (∀ res, Post.ok post res = true) →
      Conforms (.dict kvs) (.record name fs post)
inductive ConformsAll : List Val → Tys → Prop
  | nil : ConformsAll [] .nil
  | cons {x xs t ts} : Conforms x t → ConformsAll xs ts → ConformsAll (x :: xs) (.cons t ts)
inductive ConformsKey : Fields → String → Val → Bool → Prop
  | dflt {n t fs v} : ConformsKey (.cons n t true fs) n v true
  | here {n t d fs v miss} : Conforms v t → ConformsKey (.cons n t d fs) n v miss
  | there {n t d fs k v miss} : n ≠ k → ConformsKey fs k v miss → ConformsKey (.cons n t d fs) k v miss
end

/-! ### glue: `ProjectConfig.open` / `_Project.__init__` (fixed code) -/

/-- what `util.parse_toml_and_add_line_info` gives: tomli is assumed to return a dict or raise its decode error -/
inductive Parsed where
  | table (kvs : List (String × Val))
  | decodeError (line : Nat)

inductive OpenOutcome where
  | ok (cfg : TVal)                    -- config returned (other diagnostics possible, none an UnmarshallingError from loading)
  | diag (line : Nat)                  -- UnmarshallingError diagnostic; `Project(...)` raises ProjectLoadError
  | raised (e : LoadErr)               -- an exception that is not a LoadError escapes `open`

/-- `data["root"] = path` (dict assignment: replace in place or append) -/
def setKey (kvs : List (String × Val)) (k : String) (v : Val) : List (String × Val) :=
  if kvs.any (fun kv => kv.1 == k) then kvs.map (fun kv => if kv.1 == k then (k, v) else kv)
  else kvs ++ [(k, v)]

def openConfig (ty : Ty) (rootClasses : List String) : Parsed → OpenOutcome
  | .decodeError line => .diag line
  | .table kvs =>
    match check ty (.dict (setKey kvs "root" (.obj rootClasses))) with
    | .ok cfg => .ok cfg
    | .error e => if e.isLoadError then .diag 0 else .raised e

end SnootyVerif.Flutter
