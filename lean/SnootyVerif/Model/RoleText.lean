/-
Model of the parse-time half of a reference role (property C08): `snooty/rstparser.py`
* `unescape_backslashes`      ↦ `unescape`
* `parse_explicit_title` (`PAT_EXPLICIT_TITLE = ^(?P<label>.*?)\s*(?<!\x00)<(?P<target>.*?)>$`, DOTALL)
                              ↦ `parseExplicit` — the specific recogniser the pattern denotes:
  the first `<` not preceded by NUL opens the target, the text must end with `>` (or `>` + final
  newline, Python's `$`), the label is what precedes with trailing whitespace removed
* `strip_parameters` (`PAT_PARAMETERS = \s*\(.*?\)\s*$`, `search`, DOTALL) ↦ `stripParams`
* `RefRoleHandler.__call__`   ↦ `roleParse` (flag, prefix, callable / cmdline_option handling)
`isSpace` is Python's `\s` / `str.split` whitespace (parameter).
-/
namespace SnootyVerif.RoleText

abbrev Str := List Char

def nul : Char := Char.ofNat 0

/-- `text.replace("\x00<","<").replace("\x00>",">").replace('\x00"','"').replace("\x00","\\")` -/
def unescapeAux : Bool → Str → Str
  | false, [] => []
  | true, [] => ['\\']
  | false, c :: rest => if c = nul then unescapeAux true rest else c :: unescapeAux false rest
  | true, c :: rest =>
    if c = '<' ∨ c = '>' ∨ c = '"' then c :: unescapeAux false rest
    else if c = nul then '\\' :: unescapeAux true rest
    else '\\' :: c :: unescapeAux false rest

/-- single left-to-right pass; `true` = a NUL is pending -/
def unescape (s : Str) : Str := unescapeAux false s

def rstrip (isSpace : Char → Bool) (s : Str) : Str := (s.reverse.dropWhile isSpace).reverse

/-- index of the first `<` that is not preceded by NUL (`prev` = previous character) -/
def findOpen : Char → Str → Option Nat
  | _, [] => none
  | prev, c :: rest =>
    if c = '<' ∧ prev ≠ nul then some 0
    else match findOpen c rest with
      | some i => some (i + 1)
      | none => none

/-- `text` without the closing `>` the pattern's `>$` matches, if there is one -/
def dropClose (s : Str) : Option Str :=
  match s.reverse with
  | '>' :: r => some r.reverse
  | '\n' :: '>' :: r => some r.reverse
  | _ => none

/-- `parse_explicit_title` -/
def parseExplicit (isSpace : Char → Bool) (text : Str) : Str × Option Str :=
  match findOpen 'x' text with
  | none => (unescape text, none)
  | some i =>
    match dropClose (text.drop (i + 1)) with
    | none => (unescape text, none)
    | some target => (unescape target, some (unescape (rstrip isSpace (text.take i))))

def indexOf (ch : Char) : Str → Option Nat
  | [] => none
  | c :: rest => if c = ch then some 0 else match indexOf ch rest with
    | some i => some (i + 1)
    | none => none

/-- `strip_parameters`: leftmost match of `\s*\(.*?\)\s*$` removed, `.` matching a newline too (DOTALL: a long signature
wraps over several lines). The text (trailing whitespace aside) must end with `)`; the match then starts at the FIRST `(`
of the text (and the whitespace before it). -/
def stripParams (isSpace : Char → Bool) (t : Str) : Str :=
  match (rstrip isSpace t).reverse with
  | ')' :: bodyRev =>
    match indexOf '(' bodyRev.reverse with
    | some p => rstrip isSpace (t.take p)
    | none => t
  | _ => t

/-- the code before the repair: without DOTALL the `.` did not cross a newline, so the opening `(` had to stand on the last
line: `db.foo(a,⏎b)` kept its parameters -/
def stripParamsOld (isSpace : Char → Bool) (t : Str) : Str :=
  match (rstrip isSpace t).reverse with
  | ')' :: bodyRev =>
    let segRev := bodyRev.takeWhile (fun c => c != '\n')
    match indexOf '(' segRev.reverse with
    | some p => rstrip isSpace (t.take (bodyRev.length - segRev.length + p))
    | none => t
  | _ => t

/-- `".".join(target.rsplit(None, 1))` -/
def joinLastWord (isSpace : Char → Bool) (t : Str) : Str :=
  let t' := rstrip isSpace t
  let lastRev := t'.reverse.takeWhile (fun c => !isSpace c)
  let headRev := (t'.reverse.dropWhile (fun c => !isSpace c)).dropWhile isSpace
  if headRev.isEmpty then lastRev.reverse else headRev.reverse ++ '.' :: lastRev.reverse

inductive TargetType where
  | plain | callable | cmdlineOption
deriving DecidableEq, Repr

structure RoleOut where
  target : Str
  label : Option Str
  flag : Str
deriving DecidableEq, Repr

/-- `RefRoleHandler.__call__` (`pfx` = the rstobject prefix, empty = none) -/
def roleParse (isSpace : Char → Bool) (pfx : Str) (ty : TargetType) (text : Str) : RoleOut :=
  let (target0, label0) := parseExplicit isSpace text
  let (flag, target1) := match target0 with
    | '~' :: r => (['~'], r)
    | '!' :: r => (['!'], r)
    | t => ([], t)
  let target2 := if !pfx.isEmpty ∧ !(pfx ++ ['.']).isPrefixOf target1 then pfx ++ '.' :: target1 else target1
  match ty with
  | .callable => ⟨stripParams isSpace target2, label0, flag⟩
  | .cmdlineOption =>
    let label := match label0 with
      | some l => if l.isEmpty then some target2 else some l
      | none => some target2
    ⟨joinLastWord isSpace target2, label, flag⟩
  | .plain => ⟨target2, label0, flag⟩

end SnootyVerif.RoleText
