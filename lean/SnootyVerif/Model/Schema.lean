/-!
# C04 — node schema, `Node.serialize`, well-formedness of ASTs and of serialized pages

Mirrors `snooty/n.py`:

* `Schema` is the *shape* of the table the translator (`harness/props/c04.py: gen_tables`) extracts from
  the dataclasses of `n.py` (+ `parser._DefinitionListTerm`): for every `Node` subclass its `type` tag,
  its Node-derived ancestors, its dataclass fields with a shape code, the rule its `verify()` enforces
  (`RefRole`: one of `fileid`/`url`; `_DefinitionListTerm`: never valid = internal bookkeeping node).
* `Val`/`Ast` are Python values as `Node.serialize` sees them (its `isinstance` ladder has one branch
  per constructor group; `other` is any value none of the branches accepts).
* `serialize` follows `Node.serialize` branch by branch (n.py:99-136) and then the JSON/BSON encoder:
  values included *verbatim* must be encodable (`plain`), else `EncodeError`.
* `wf` is the judgement on ASTs, `wfJson` the same judgement on the serialized form.

All recursion is structural over explicitly mutual (non-nested) inductives so that `decide` evaluates
the definitions and the theorems are proved by mutual structural recursion.
-/
namespace SnootyVerif.Schema

/-- Python exceptions that can leave `serialize()` / the encoder. -/
inductive PyErr
  | NotImplementedError   -- n.py:133 `raise NotImplementedError(field, value)`
  | IndexError            -- `self.span[0]` on an empty tuple
  | TypeError             -- `self.span[0]` on a non-subscriptable value (None, int)
  | EncodeError           -- json.dumps TypeError / bson InvalidDocument on a verbatim value
  deriving DecidableEq, Repr

/-! ## JSON documents -/
mutual
inductive Json
  | null
  | bool (b : Bool)
  | num (m : Int) (e : Nat)      -- m · 10^(-e); integers have e = 0
  | str (s : String)
  | arr (xs : JList)
  | obj (kvs : JKvs)
inductive JList
  | nil
  | cons (x : Json) (xs : JList)
inductive JKvs
  | nil
  | cons (k : String) (v : Json) (rest : JKvs)
end

def JList.all (p : Json → Bool) : JList → Bool
  | .nil => true
  | .cons x xs => p x && JList.all p xs

def JKvs.allVals (p : Json → Bool) : JKvs → Bool
  | .nil => true
  | .cons _ v rest => p v && JKvs.allVals p rest

def JKvs.lookup (key : String) : JKvs → Option Json
  | .nil => none
  | .cons k v rest => if k == key then some v else JKvs.lookup key rest

def JKvs.hasKey (key : String) : JKvs → Bool
  | .nil => false
  | .cons k _ rest => k == key || JKvs.hasKey key rest

/-! ## Python values -/
mutual
/-- a `Node` instance: Python class name, its `type` ClassVar, the `span` attribute, the other
dataclass fields in `dataclasses.fields()` order. -/
inductive Ast
  | mk (cls tag : String) (span : Val) (fields : Flds)
inductive Val
  | none
  | bool (b : Bool)
  | int (i : Int)
  | float (m : Int) (e : Nat)
  | str (s : String)
  | fileid (s : String)                 -- `FileId` (a PurePosixPath, not a str)
  | enum (name : String)                -- an `Enum` member
  | list (xs : Vals)
  | tuple (xs : Vals)
  | dict (kvs : Flds)                   -- str keys
  | entry (title url slug refp : Option String)   -- `TocTreeDirectiveEntry` (a NamedTuple with `serialize`)
  | node (a : Ast)
  | other (desc : String)               -- set, bytes, arbitrary object, …
inductive Vals
  | nil
  | cons (v : Val) (vs : Vals)
inductive Flds
  | nil
  | cons (k : String) (v : Val) (rest : Flds)
end

def Vals.all (p : Val → Bool) : Vals → Bool
  | .nil => true
  | .cons x xs => p x && Vals.all p xs

def Flds.allVals (p : Val → Bool) : Flds → Bool
  | .nil => true
  | .cons _ v rest => p v && Flds.allVals p rest

def Flds.hasKey (key : String) : Flds → Bool
  | .nil => false
  | .cons k _ rest => k == key || Flds.hasKey key rest

/-- `serialize` emits a key for this value (not `None`, not an empty dict). -/
def Val.isSet : Val → Bool
  | .none => false
  | .dict .nil => false
  | _ => true

/-- some occurrence of `key` carries a value that `serialize` emits. -/
def Flds.hasSet (key : String) : Flds → Bool
  | .nil => false
  | .cons k v rest => (k == key && v.isSet) || Flds.hasSet key rest

/-! ## Schema table -/

/-- shape of a value that is included verbatim in the document -/
inductive Shape
  | str | int | bool
  | ser                          -- `SerializableType`: anything JSON-encodable
  | list (s : Shape)
  | dict (s : Shape)             -- str keys
  | pair (a b : Shape)           -- 2-tuple
  deriving Repr, DecidableEq

/-- what a dataclass field holds -/
inductive Kind
  | req (s : Shape)              -- always set (a `dict`/`ser` value may still be omitted when empty)
  | opt (s : Shape)              -- `Optional[…]`
  | fileid
  | enum (names : List String)
  | entries                      -- sequence of `TocTreeDirectiveEntry`
  | nodes (bound : String)       -- sequence of nodes, each an instance of class `bound`
  | node (bound : String)        -- a nested node
  deriving Repr, DecidableEq

structure ClassInfo where
  name : String
  tag : String
  /-- names of the Node-derived classes of the MRO, the class itself first -/
  mro : List String
  /-- dataclass fields except `span`, in `dataclasses.fields()` order -/
  fields : List (String × Kind)
  /-- `verify()` demands that at least one of these fields is set ([] = no demand) -/
  oneOf : List String
  /-- `verify()` fails on every instance: private bookkeeping node -/
  internal : Bool
  deriving Repr

structure Schema where
  classes : List ClassInfo

def Schema.find (s : Schema) (cls : String) : Option ClassInfo :=
  s.classes.find? (fun c => c.name == cls)

def ClassInfo.kindOf (c : ClassInfo) (f : String) : Option Kind :=
  c.fields.lookup f

/-- the serialized node must carry the key -/
def Kind.required : Kind → Bool
  | .req (.dict _) => false
  | .req .ser => false
  | .req _ => true
  | .opt _ => false
  | _ => true

/-- the serialized node must carry key `k` -/
def ClassInfo.isRequired (c : ClassInfo) (k : String) : Bool :=
  match c.kindOf k with
  | some kd => kd.required
  | none => false

/-! ## `Node.serialize` -/

def optStr : Option String → Json
  | some s => .str s
  | none => .null

/-- `self.span[0]` -/
def spanLine : Val → Except PyErr Val
  | .tuple (.cons x _) => .ok x
  | .list (.cons x _) => .ok x
  | .tuple .nil => .error .IndexError
  | .list .nil => .error .IndexError
  | _ => .error .TypeError

mutual
/-- a value placed verbatim in the result, as the JSON/BSON encoder then sees it -/
def plain : Val → Except PyErr Json
  | .none => .ok .null
  | .bool b => .ok (.bool b)
  | .int i => .ok (.num i 0)
  | .float m e => .ok (.num m e)
  | .str s => .ok (.str s)
  | .list xs => match plainList xs with
      | .ok js => .ok (.arr js)
      | .error e => .error e
  | .tuple xs => match plainList xs with
      | .ok js => .ok (.arr js)
      | .error e => .error e
  | .dict kvs => match plainKvs kvs with
      | .ok js => .ok (.obj js)
      | .error e => .error e
  -- a NamedTuple is a tuple for both encoders
  | .entry t u s r => .ok (.arr (.cons (optStr t) (.cons (optStr u) (.cons (optStr s) (.cons (optStr r) .nil)))))
  | .fileid _ => .error .EncodeError
  | .enum _ => .error .EncodeError
  | .node _ => .error .EncodeError
  | .other _ => .error .EncodeError
def plainList : Vals → Except PyErr JList
  | .nil => .ok .nil
  | .cons v vs => match plain v with
      | .error e => .error e
      | .ok j => match plainList vs with
          | .error e => .error e
          | .ok js => .ok (.cons j js)
def plainKvs : Flds → Except PyErr JKvs
  | .nil => .ok .nil
  | .cons k v rest => match plain v with
      | .error e => .error e
      | .ok j => match plainKvs rest with
          | .error e => .error e
          | .ok js => .ok (.cons k j js)
end

/-- `TocTreeDirectiveEntry.serialize` (n.py:373-383): only truthy members are emitted -/
def entryField (k : String) (v : Option String) (rest : JKvs) : JKvs :=
  match v with
  | some s => if s == "" then rest else .cons k (.str s) rest
  | none => rest

def entryObj (t u s r : Option String) : Json :=
  .obj (entryField "title" t (entryField "url" u (entryField "slug" s (entryField "ref_project" r .nil))))

mutual
/-- `Node.serialize` -/
def serialize : Ast → Except PyErr Json
  | .mk _ tag span fields =>
    match spanLine span with
    | .error e => .error e
    | .ok l =>
      match serFlds fields with
      | .error e => .error e
      | .ok kvs =>
        match plain l with
        | .error e => .error e
        | .ok lj =>
          .ok (.obj (.cons "type" (.str tag)
                (.cons "position" (.obj (.cons "start" (.obj (.cons "line" lj .nil)) .nil)) kvs)))
/-- one iteration of the loop over `dataclasses.fields(self)`: `none` = the key is left out -/
def serField : Val → Except PyErr (Option Json)
  | .node a => match serialize a with            -- isinstance(value, Node)
      | .ok j => .ok (some j)
      | .error e => .error e
  | .str s => .ok (some (.str s))                 -- (str, int, float, bool): verbatim
  | .int i => .ok (some (.num i 0))
  | .float m e => .ok (some (.num m e))
  | .bool b => .ok (some (.bool b))
  | .dict .nil => .ok none                        -- empty dicts are excluded
  | .dict (.cons k v rest) => match plainKvs (.cons k v rest) with
      | .ok js => .ok (some (.obj js))
      | .error e => .error e
  | .enum n => .ok (some (.str n))                -- value.name
  | .list xs => match serElems xs with            -- (list, tuple)
      | .ok js => .ok (some (.arr js))
      | .error e => .error e
  | .tuple xs => match serElems xs with
      | .ok js => .ok (some (.arr js))
      | .error e => .error e
  -- a NamedTuple is a tuple: its four members, none of which has `serialize`
  | .entry t u s r => .ok (some (.arr (.cons (optStr t) (.cons (optStr u) (.cons (optStr s) (.cons (optStr r) .nil))))))
  | .fileid s => .ok (some (.str s))              -- value.as_posix()
  | .none => .ok none                             -- None values are excluded
  | .other _ => .error .NotImplementedError       -- raise NotImplementedError(field, value)
/-- `child.serialize() if hasattr(child, "serialize") else child` -/
def serElem : Val → Except PyErr Json
  | .node a => serialize a
  | .entry t u s r => .ok (entryObj t u s r)
  | .none => plain .none
  | .bool b => plain (.bool b)
  | .int i => plain (.int i)
  | .float m e => plain (.float m e)
  | .str s => plain (.str s)
  | .fileid s => plain (.fileid s)
  | .enum n => plain (.enum n)
  | .list xs => plain (.list xs)
  | .tuple xs => plain (.tuple xs)
  | .dict kvs => plain (.dict kvs)
  | .other d => plain (.other d)
/-- `[… for child in value]` -/
def serElems : Vals → Except PyErr JList
  | .nil => .ok .nil
  | .cons v vs =>
    match serElem v with
    | .error e => .error e
    | .ok j => match serElems vs with
        | .error e => .error e
        | .ok js => .ok (.cons j js)
def serFlds : Flds → Except PyErr JKvs
  | .nil => .ok .nil
  | .cons k v rest =>
    match serField v with
    | .error e => .error e
    | .ok r => match serFlds rest with
        | .error e => .error e
        | .ok js => match r with
            | some j => .ok (.cons k j js)
            | none => .ok js
end

/-! ## Well-formed ASTs -/

mutual
/-- `SerializableType` without datetime -/
def isSer : Val → Bool
  | .none => true
  | .bool _ => true
  | .int _ => true
  | .float _ _ => true
  | .str _ => true
  | .list xs => isSerList xs
  | .tuple xs => isSerList xs
  | .dict kvs => isSerKvs kvs
  | _ => false
def isSerList : Vals → Bool
  | .nil => true
  | .cons v vs => isSer v && isSerList vs
def isSerKvs : Flds → Bool
  | .nil => true
  | .cons _ v rest => isSer v && isSerKvs rest
end

/-- a verbatim value has the declared shape -/
def conformsIn : Shape → Val → Bool
  | .str, .str _ => true
  | .int, .int _ => true
  | .bool, .bool _ => true
  | .ser, v => isSer v
  | .list s, .list xs => Vals.all (fun v => conformsIn s v) xs
  | .list s, .tuple xs => Vals.all (fun v => conformsIn s v) xs
  | .dict s, .dict kvs => Flds.allVals (fun v => conformsIn s v) kvs
  | .pair a b, .tuple (.cons x (.cons y .nil)) => conformsIn a x && conformsIn b y
  | .pair a b, .list (.cons x (.cons y .nil)) => conformsIn a x && conformsIn b y
  | _, _ => false

def isEntry : Val → Bool
  | .entry _ _ _ _ => true
  | _ => false

/-- `span` is a non-empty sequence starting with an int -/
def spanOk : Val → Bool
  | .tuple (.cons (.int _) _) => true
  | .list (.cons (.int _) _) => true
  | _ => false

mutual
/-- `a` is a well-formed instance of a class derived from `bound`;
`strict` = the `verify()` demand on destinations (`RefRole`) applies (postprocessed output). -/
def wf (s : Schema) (strict : Bool) (bound : String) : Ast → Bool
  | .mk cls tag span fields =>
    match s.find cls with
    | none => false
    | some c =>
      c.tag == tag && !c.internal && c.mro.contains bound && spanOk span
        && c.fields.all (fun f => fields.hasKey f.1)
        && (!strict || c.oneOf.isEmpty || c.oneOf.any (fun k => fields.hasSet k))
        && wfFlds s strict c fields
/-- one dataclass field: the value fits the declared kind -/
def wfFld (s : Schema) (strict : Bool) : Option Kind → Val → Bool
  | some (.nodes b), .list xs => wfNodes s strict b xs
  | some (.nodes b), .tuple xs => wfNodes s strict b xs
  | some (.node b), .node a => wf s strict b a
  | some (.req sh), v => conformsIn sh v
  | some (.opt _), .none => true
  | some (.opt sh), v => conformsIn sh v
  | some .fileid, .fileid _ => true
  | some (.enum names), .enum n => names.contains n
  | some .entries, .list xs => Vals.all isEntry xs
  | some .entries, .tuple xs => Vals.all isEntry xs
  | _, _ => false
def wfFlds (s : Schema) (strict : Bool) (c : ClassInfo) : Flds → Bool
  | .nil => true
  | .cons k v rest => wfFld s strict (c.kindOf k) v && wfFlds s strict c rest
def wfNodes (s : Schema) (strict : Bool) (b : String) : Vals → Bool
  | .nil => true
  | .cons (.node a) vs => wf s strict b a && wfNodes s strict b vs
  | .cons _ _ => false
end

/-! ## Well-formed serialized pages -/

def jsonShape : Shape → Json → Bool
  | .str, .str _ => true
  | .int, .num _ 0 => true
  | .bool, .bool _ => true
  | .ser, _ => true
  | .list s, .arr xs => JList.all (fun j => jsonShape s j) xs
  | .dict s, .obj kvs => JKvs.allVals (fun j => jsonShape s j) kvs
  | .pair a b, .arr (.cons x (.cons y .nil)) => jsonShape a x && jsonShape b y
  | _, _ => false

def entryKeys : List String := ["title", "url", "slug", "ref_project"]

def entryKvsOk : JKvs → Bool
  | .nil => true
  | .cons k (.str _) rest => entryKeys.contains k && entryKvsOk rest
  | .cons _ _ _ => false

def jsonEntry : Json → Bool
  | .obj kvs => entryKvsOk kvs
  | _ => false

/-- `position.start.line` is an integer -/
def posOk : Option Json → Bool
  | some (.obj p) =>
    (match p.lookup "start" with
     | some (.obj st) => (match st.lookup "line" with
         | some (.num _ 0) => true
         | _ => false)
     | _ => false)
  | _ => false

mutual
/-- `j` is a well-formed serialized instance of a class derived from `bound` -/
def wfJson (s : Schema) (strict : Bool) (bound : String) : Json → Bool
  | .obj kvs =>
    (match kvs.lookup "type" with
     | some (.str tag) =>
       posOk (kvs.lookup "position")
         && s.classes.any (fun c =>
              c.tag == tag && !c.internal && c.mro.contains bound
                && c.fields.all (fun f => !c.isRequired f.1 || kvs.hasKey f.1)
                && (!strict || c.oneOf.isEmpty || c.oneOf.any (fun k => kvs.hasKey k))
                && wfJKvs s strict c kvs)
     | _ => false)
  | _ => false
/-- one key of a serialized node against the declared kind of that field -/
def wfJFld (s : Schema) (strict : Bool) : Option Kind → Json → Bool
  | some (.nodes b), .arr xs => wfJList s strict b xs
  | some (.req sh), v => jsonShape sh v
  | some (.opt sh), v => jsonShape sh v
  | some .fileid, .str _ => true
  | some (.enum names), .str n => names.contains n
  | some .entries, .arr xs => JList.all jsonEntry xs
  | _, _ => false
def wfJKvs (s : Schema) (strict : Bool) (c : ClassInfo) : JKvs → Bool
  | .nil => true
  | .cons k v rest =>
    (k == "type" || k == "position"
      || (match c.kindOf k with
          | some (.node b) => wfJson s strict b v
          | kd => wfJFld s strict kd v)) && wfJKvs s strict c rest
def wfJList (s : Schema) (strict : Bool) (b : String) : JList → Bool
  | .nil => true
  | .cons x xs => wfJson s strict b x && wfJList s strict b xs
end

mutual
/-- some value reached by `serialize`'s own traversal (fields, elements of list fields, nested nodes)
is of a type none of its `isinstance` branches accepts -/
def hasUnknown : Ast → Bool
  | .mk _ _ _ fields => unkFlds fields
def unkVal : Val → Bool
  | .other _ => true
  | .node a => hasUnknown a
  | .list xs => unkElems xs
  | .tuple xs => unkElems xs
  | _ => false
def unkElems : Vals → Bool
  | .nil => false
  | .cons (.node a) vs => hasUnknown a || unkElems vs
  | .cons _ vs => unkElems vs
def unkFlds : Flds → Bool
  | .nil => false
  | .cons _ v rest => unkVal v || unkFlds rest
end

/-! ## Table-level checks (evaluated by `decide` on the generated table) -/

/-- tags carried by more than one class -/
def Schema.sharedTags (s : Schema) : List String :=
  (s.classes.map (·.tag)).eraseDups.filter (fun t => (s.classes.filter (fun c => c.tag == t)).length > 1)

def Kind.bound? : Kind → Option String
  | .nodes b => some b
  | .node b => some b
  | _ => none

/-- every child rule / MRO entry names a class of the table -/
def Schema.closed (s : Schema) : Bool :=
  s.classes.all (fun c =>
    c.mro.all (fun m => (s.find m).isSome)
    && c.mro.head? == some c.name
    && c.fields.all (fun f => match f.2.bound? with
        | some b => (s.find b).isSome
        | none => true))

def distinctStrs : List String → Bool
  | [] => true
  | x :: xs => !xs.contains x && distinctStrs xs

/-- class names are distinct; per class, field names are distinct and differ from the two keys
`serialize` itself writes; `oneOf` names optional fields -/
def Schema.namesOk (s : Schema) : Bool :=
  distinctStrs (s.classes.map (·.name))
  && s.classes.all (fun c =>
      distinctStrs (c.fields.map (·.1))
      && c.fields.all (fun f => f.1 != "type" && f.1 != "position" && f.1 != "span")
      && c.oneOf.all (fun k => match c.kindOf k with
          | some (.opt (.dict _)) => false
          | some (.opt .ser) => false
          | some (.opt _) => true
          | _ => false))

/-- the published contract with the consumers of the AST: class ↦ `type` tag (hand-written, NOT generated).
A class may be added to `n.py` freely; a pinned class must keep its tag. -/
def pinned : List (String × String) := [
  ("Node", "node"), ("InlineNode", "node"), ("InlineParent", "parent"), ("Parent", "parent"),
  ("FootnoteReference", "footnote_reference"), ("SubstitutionReference", "substitution_reference"),
  ("BlockSubstitutionReference", "substitution_reference"), ("TargetIdentifier", "target_identifier"),
  ("InlineTarget", "inline_target"), ("Reference", "reference"), ("Role", "role"), ("RefRole", "ref_role"),
  ("Literal", "literal"), ("Emphasis", "emphasis"), ("Strong", "strong"),
  ("_DefinitionListTerm", "definition_list_term"), ("NamedReference", "named_reference"), ("Text", "text"),
  ("Code", "code"), ("Comment", "comment"), ("Label", "label"), ("Section", "section"),
  ("Paragraph", "paragraph"), ("Footnote", "footnote"), ("SubstitutionDefinition", "substitution_definition"),
  ("Root", "root"), ("Heading", "heading"), ("DefinitionListItem", "definitionListItem"),
  ("DefinitionList", "definitionList"), ("ListNodeItem", "listItem"), ("ListNode", "list"), ("Line", "line"),
  ("LineBlock", "line_block"), ("Directive", "directive"), ("TocTreeDirective", "directive"),
  ("ComposableDirective", "directive"), ("ComposableContent", "directive"),
  ("DirectiveArgument", "directive_argument"), ("Target", "target"), ("Field", "field"),
  ("FieldList", "field_list"), ("Table", "table"), ("Transition", "transition")]

/-- pinned classes that are gone or whose tag changed: (class, pinned tag, current tag) -/
def Schema.renamed (s : Schema) : List (String × String × String) :=
  pinned.filterMap (fun p =>
    match s.find p.1 with
    | some c => if c.tag == p.2 then none else some (p.1, p.2, c.tag)
    | none => some (p.1, p.2, ""))

end SnootyVerif.Schema
