/-
Definitions used by the totality theorem and the escape round trip of the man page builder (property C19);
import-free so that the driver can evaluate them.

* `Ast.scoped` / `ManNode.scoped` — "a list item only below a list", the one structural precondition of the handler
  (`assert self.list_stack` in `TroffNodeHandler.handle_start`).
* `unesc` — what groff makes of the escapes `troff_escape` writes.
-/
import SnootyVerif.Model.Man
namespace SnootyVerif.Man

def isListHd : Hd → Bool
  | .list _ => true
  | _ => false

mutual
/-- a `LIST_ITEM` node only below a `LIST` node (`inList`); a string-valued node is `TEXT` or `PREFORMATTED` -/
def ManNode.scoped (inList : Bool) : ManNode → Bool
  | .node h cs => (h != .listItem || inList) && scopedL (isListHd h || inList) cs
  | .leaf h _ => h == .text || h == .preformatted
def scopedL (inList : Bool) : List ManNode → Bool
  | [] => true
  | t :: ts => t.scoped inList && scopedL inList ts
end

mutual
/-- a `ListNodeItem` only below a `ListNode`; nodes the tree builder drops are not looked into -/
def Ast.scoped (inList : Bool) : Ast → Bool
  | .text _ => true
  | .code _ => true
  | .heading _ => true
  | .drop _ => true
  | .targetId _ => true
  | .dirArg _ => true
  | .sect cs => scopedAL inList cs
  | .paragraph cs => scopedAL inList cs
  | .pass cs => scopedAL inList cs
  | .defItem term cs => scopedAL inList term && scopedAL inList cs
  | .listItem cs => inList && scopedAL inList cs
  | .list _ cs => scopedAL true cs
  | .target cs => scopedAL inList cs
  | .reference _ cs => scopedAL inList cs
  | .strong cs => scopedAL inList cs
  | .literal cs => scopedAL inList cs
  | .emphasis cs => scopedAL inList cs
def scopedAL (inList : Bool) : List Ast → Bool
  | [] => true
  | a :: r => a.scoped inList && scopedAL inList r
end

/-- what groff makes of the escape sequences `troff_escape` writes (`\e` backslash, `\-` minus, `\(aq` apostrophe,
`\'` acute accent, `\(ga` grave accent, `\&` zero-width); `none` on any other escape -/
def unesc : Str → Option Str
  | [] => some []
  | c :: r =>
    if c = '\\' then
      match r with
      | 'e' :: r' => (unesc r').map ('\\' :: ·)
      | '-' :: r' => (unesc r').map ('-' :: ·)
      | '\'' :: r' => (unesc r').map ('´' :: ·)
      | '&' :: r' => unesc r'
      | '(' :: 'a' :: 'q' :: r' => (unesc r').map ('\'' :: ·)
      | '(' :: 'g' :: 'a' :: r' => (unesc r').map ('`' :: ·)
      | _ => none
    else (unesc r).map (c :: ·)
termination_by s => s.length
decreasing_by all_goals simp_wf <;> omega

end SnootyVerif.Man
