/-!
# Model of `snooty.util.get_files` (source discovery)

```python
def get_files(root, extensions, must_be_relative_to=None, diagnostics=None):
    root_resolved = root.resolve()
    seen = set()
    if must_be_relative_to is None: must_be_relative_to = root_resolved
    for base, dirs, files in os.walk(root, followlinks=True):
        base_resolved = Path(base).resolve()
        if not is_relative_to(base_resolved, must_be_relative_to): continue
        dirs_set = dict(((base_resolved.joinpath(d).resolve(), d) for d in dirs))
        nested_set = set()
        for d_path, d_name in dirs_set.items():
            if exists(d_path / SNOOTY_TOML):
                nested_set.add(d_path / SNOOTY_TOML)
                if diagnostics is not None:
                    diagnostics[FileId(relpath(d_path / SNOOTY_TOML, root))] = [NestedProject(d_name, 0)]
        dirs[:] = [d_name for d_path, d_name in ((k, v) for k, v in dirs_set.items() if k not in seen)
                   if is_relative_to(d_path, must_be_relative_to) and not d_path / SNOOTY_TOML in nested_set]
        seen.update(dirs_set)
        for name in files:
            if splitext(name)[1] not in extensions: continue
            path = Path(join(base, name))
            if is_relative_to(path.resolve(), must_be_relative_to): yield path
```

The file system is an *input*: every canonical (fully resolved) directory `c : κ` has an ordered
list of entries (the order `os.scandir` delivers), and every entry carries the canonical id its
name resolves to (`Path.resolve()` is an input, so symbolic links of any topology — aliases,
links to ancestors, to the scan root, out of the jail, chains of links — are covered without
modelling `realpath`). `inJail c` is `is_relative_to(c, must_be_relative_to)`, `hasToml c` is
`exists(c / "snooty.toml")`, `Entry.wanted` is `splitext(name)[1] in extensions`.

`os.walk(top, topdown=True, followlinks=True)` (CPython 3.12: explicit stack, children pushed in
reverse so that they are popped in listing order) is the worklist `loop`; the stack holds
`(path relative to the scan root, canonical id)`.
-/
namespace SnootyVerif.Walk

/-- what a name is after following links -/
inductive Kind (κ : Type) where
  /-- `entry.is_dir()` false, target exists, `Path.resolve()` = `c` (regular file or link to one) -/
  | file (c : κ)
  /-- `entry.is_dir()` true (directory or link to one), `Path.resolve()` = `c` -/
  | dir (c : κ)
  /-- link whose target does not exist; non-strict `Path.resolve()` = `c` -/
  | dangling (c : κ)
  /-- link cycle (`x -> x`): `is_dir()` is false, `Path.resolve()` raises `RuntimeError` (CPython ≤ 3.12) or
  `OSError`, which `get_files` catches: the name is skipped (71ff38c) -/
  | loop
  deriving DecidableEq, Repr

structure Entry (κ : Type) where
  name : String
  kind : Kind κ
  /-- `os.path.splitext(name)[1] in extensions` -/
  wanted : Bool
  deriving DecidableEq, Repr

structure FS (κ : Type) where
  /-- listing of every canonical directory, in `os.scandir` order -/
  dirs : List (κ × List (Entry κ))
  inJail : κ → Bool
  hasToml : κ → Bool
  /-- some directory strictly between the scan root and this one (a proper ancestor of its resolved path) has a
  `snooty.toml`: the directory lies inside a nested project without being its root -/
  inNested : κ → Bool := fun _ => false

/-- a directory the walk must not enter: a nested project, or (reached through a link) a directory inside one -/
def FS.pruned {κ : Type} (fs : FS κ) (k : κ) : Bool := fs.hasToml k || fs.inNested k

abbrev Path := List String

inductive Err where
  | fuel
  deriving DecidableEq, Repr

variable {κ : Type} [DecidableEq κ]

def lookupDir (c : κ) : List (κ × List (Entry κ)) → List (Entry κ)
  | [] => []          -- no listing: `scandir` failed, `os.walk` (onerror=None) skips the directory
  | (k, es) :: t => if k = c then es else lookupDir c t

def FS.entries (fs : FS κ) (c : κ) : List (Entry κ) := lookupDir c fs.dirs

/-- `dirs` of `os.walk`, already paired with `base_resolved.joinpath(d).resolve()` -/
def dirPairs (es : List (Entry κ)) : List (κ × String) :=
  es.filterMap fun e => match e.kind with
    | .dir c => some (c, e.name)
    | _ => none

/-- `d[k] = v` on an insertion-ordered dict: an existing key keeps its position, the value is replaced -/
def dictInsert (k : κ) (v : String) : List (κ × String) → List (κ × String)
  | [] => [(k, v)]
  | (k', v') :: t => if k' = k then (k', v) :: t else (k', v') :: dictInsert k v t

/-- `dict(pairs)` -/
def mkDict (ps : List (κ × String)) : List (κ × String) :=
  ps.foldl (fun d kv => dictInsert kv.1 kv.2 d) []

/-- the `diagnostics[...] = [NestedProject(d_name, 0)]` loop; the key `FileId(relpath(d_path/snooty.toml, root))`
is an injective function of `d_path`, so the model keys the dict by `d_path` -/
def addDiags (hasToml : κ → Bool) (dset : List (κ × String)) (dg : List (κ × String)) : List (κ × String) :=
  dset.foldl (fun dg kd => if hasToml kd.1 then dictInsert kd.1 kd.2 dg else dg) dg

/-- the `for name in files:` loop; a name whose `resolve()` raises (`Kind.loop`) is skipped by the `except` clause -/
def yields (inJail : κ → Bool) (p : Path) (es : List (Entry κ)) : List (Path × κ) :=
  es.filterMap fun e => match e.kind with
    | .file c => if e.wanted && inJail c then some (p ++ [e.name], c) else none
    | .dangling c => if e.wanted && inJail c then some (p ++ [e.name], c) else none
    | _ => none

structure St (κ : Type) where
  /-- `seen` -/
  seen : List κ
  /-- the paths yielded so far, with what they resolve to -/
  out : List (Path × κ)
  /-- `diagnostics`, keyed by the resolved nested directory; value = the `d_name` of the message -/
  diags : List (κ × String)
  /-- trace (never read by the walk): resolved bases that passed the jail re-check, in order -/
  scans : List κ

/-- one iteration of `for base, dirs, files in os.walk(...)`; returns the directories `os.walk` will
descend into (what is left in `dirs`), in order -/
def step (fs : FS κ) (p : Path) (c : κ) (st : St κ) : Except Err (List (Path × κ) × St κ) :=
  let es := fs.entries c
  if fs.inJail c = false then
    -- `dirs[:] = []; continue`: nothing below a directory outside the jail is looked at
    .ok ([], st)
  else
    let dset := mkDict (dirPairs es)
    let diags := addDiags fs.hasToml dset st.diags
    let kept := dset.filter fun kd => decide (kd.1 ∉ st.seen) && fs.inJail kd.1 && !fs.pruned kd.1
    let seen := st.seen ++ (dset.map (·.1)).filter (fun k => decide (k ∉ st.seen))
    .ok (kept.map (fun kd => (p ++ [kd.2], kd.1)),
              { seen := seen, out := st.out ++ yields fs.inJail p es, diags := diags, scans := st.scans ++ [c] })

def loop (fs : FS κ) : Nat → List (Path × κ) → St κ → Except Err (St κ)
  | _, [], st => .ok st
  | 0, _ :: _, _ => .error .fuel
  | fuel + 1, (p, c) :: rest, st =>
    match step fs p c st with
    | .error e => .error e
    | .ok (ch, st') => loop fs fuel (ch ++ rest) st'

def St.init : St κ := { seen := [], out := [], diags := [], scans := [] }

def walk (fs : FS κ) (root : κ) (fuel : Nat) : Except Err (St κ) :=
  loop fs fuel [([], root)] St.init

/-- every canonical id some listed name resolves to as a directory -/
def FS.dirTargets (fs : FS κ) : List κ :=
  fs.dirs.flatMap fun d => (dirPairs d.2).map (·.1)

def dedup : List κ → List κ
  | [] => []
  | a :: l => if a ∈ dedup l then dedup l else a :: dedup l

/-- the fuel `walk_fuel` shows sufficient: one iteration per distinct directory target, plus the root -/
def FS.fuel (fs : FS κ) : Nat := (dedup fs.dirTargets).length + 1

/-! ## specification vocabulary -/

/-- `Clean fs root p b`: the relative path `p` leads from the scan root to the canonical directory `b`
through directory entries (real directories or links) each of which resolves inside the jail to a
directory without `snooty.toml`. The scan root itself is not examined (`get_files` never tests it). -/
inductive Clean (fs : FS κ) (root : κ) : Path → κ → Prop where
  | root : Clean fs root [] root
  | step {p : Path} {b k : κ} {e : Entry κ} : Clean fs root p b → e ∈ fs.entries b → e.kind = .dir k →
      fs.inJail k = true → fs.pruned k = false → Clean fs root (p ++ [e.name]) k

end SnootyVerif.Walk
