import SnootyVerif.Model.Ids
/-
Model of the target database and of target registration (property C08).

Mirrors
* `snooty/types.py: normalize_target`            ↦ `normalize`   (`re.sub(r"\s+", " ", s)`; `\s` is the parameter `isSpace`)
* `snooty/target_database.py: TargetDatabase.local_definitions` (a `defaultdict(list)`) ↦ `Db`
  (association list in insertion order, `Db.add` = `self.local_definitions[key].append(..)`)
* `TargetDatabase.define_local_target`            ↦ `defineLocal`  (`max(targets, key=count("."))` raises
  `ValueError` on an empty sequence: explicit error branch)
* `snooty/postprocess.py: TargetHandler.choose_html_id / enter_node / enter_page` ↦ `chooseBase`, `pass4Page`
  (html ids through `Ids.assignAll`, the model of `assign_unique_id` built for C09)
* `HeadingHandler.enter_node` (`std:doc` registration of the first heading of a root page) ↦ `pass3Docs`
* `AddTitlesToLabelTargetsHandler`                ↦ `addTitles`
* `ContentsHandler`                               ↦ `contentsOf`

Text is `List Char` (`Str`); html ids, heading ids and page slugs are opaque `String`s.
A page is modelled *after include expansion* as the document-order list of the items the
handlers react to (`Item`).
-/
namespace SnootyVerif.Targets
open SnootyVerif

abbrev Str := List Char

inductive PyErr where
  | valueError
  | indexError
  | stopIteration
  | assertionError
deriving DecidableEq, Repr

/-! ### inline nodes (titles, children of a role) -/
mutual
/-- `n.Text` or any `n.InlineParent` (`tag` = its type: literal, emphasis, …). -/
inductive Inl where
  | text (v : Str)
  | wrap (tag : String) (kids : Inls)
deriving DecidableEq, Repr
inductive Inls where
  | nil
  | cons (h : Inl) (t : Inls)
deriving DecidableEq, Repr
end

/-! ### `normalize_target` -/

/-- `re.sub(r"\s+", " ", s)`: `inRun` = the previous character belonged to a whitespace run
(whose single replacement blank has already been emitted). -/
def normAux (isSpace : Char → Bool) : Bool → Str → Str
  | _, [] => []
  | inRun, c :: cs =>
    if isSpace c then (if inRun then normAux isSpace true cs else ' ' :: normAux isSpace true cs)
    else c :: normAux isSpace false cs

def normalize (isSpace : Char → Bool) (s : Str) : Str := normAux isSpace false s

/-! ### the database -/

/-- `TargetDatabase.LocalDefinition`; `page` is the slug (`FileId.without_known_suffix`) of the root page
it was registered under (only `.txt` files are walked, so slug ↔ page is one-to-one). -/
structure LocalDef where
  canonical : Str
  page : String
  htmlId : String
  title : Inls
deriving DecidableEq, Repr

abbrev Db := List (Str × List LocalDef)

/-- `self.local_definitions.get(key, [])` -/
def Db.get : Db → Str → List LocalDef
  | [], _ => []
  | (k', l) :: rest, k => if k' = k then l else Db.get rest k

/-- `self.local_definitions[key].append(d)` -/
def Db.add : Db → Str → LocalDef → Db
  | [], k, d => [(k, [d])]
  | (k', l) :: rest, k, d => if k' = k then (k', l ++ [d]) :: rest else (k', l) :: Db.add rest k d

/-- Python's `max(xs, key=f)`: the *first* maximal element, `none` for the empty sequence (`ValueError`). -/
def firstMaxBy {α : Type} (f : α → Nat) : List α → Option α
  | [] => none
  | x :: xs =>
    match firstMaxBy f xs with
    | none => some x
    | some y => if f y > f x then some y else some x

def countDots (s : Str) : Nat := (s.filter (· == '.')).length

/-- `f"{domain}:{name}:{target}"` -/
def mkKey (domain role target : Str) : Str := domain ++ ':' :: role ++ ':' :: target

def addAll (isSpace : Char → Bool) (domain role : Str) (d : LocalDef) : Db → List Str → Db
  | db, [] => db
  | db, t :: ts => addAll isSpace domain role d (db.add (mkKey domain role (normalize isSpace t)) d) ts

/-- `TargetDatabase.define_local_target` -/
def defineLocal (isSpace : Char → Bool) (db : Db) (domain role : Str) (targets : List Str)
    (page : String) (title : Inls) (htmlId : String) : Except PyErr Db :=
  match firstMaxBy countDots targets with
  | none => .error .valueError
  | some canon => .ok (addAll isSpace domain role ⟨canon, page, htmlId, title⟩ db targets)

/-! ### pages -/

/-- `n.TargetIdentifier` -/
structure Ident where
  ids : List Str
  title : Inls
deriving DecidableEq, Repr

/-- `n.RefRole` as left by the parser; `rid` identifies the node (its source line in the harness). -/
structure Ref where
  rid : Nat
  domain : Str
  role : Str
  target : Str
  flag : Str
  kids : Inls
deriving DecidableEq, Repr

inductive Item where
  /-- `n.Target` -/
  | target (domain role : Str) (idents : List Ident)
  /-- an `n.Section` opened by its `n.Heading`; `depth` = section nesting (1 = page title) -/
  | heading (depth : Nat) (base : String) (title : Inls)
  /-- `n.RefRole` (inside a paragraph) met while `fileid_stack.current = src` -/
  | ref (src : String) (r : Ref)
  /-- `.. contents::` with its `:depth:` -/
  | contents (depth : Option Int)
  /-- any other node (paragraph, include directive, root of an included file, …) -/
  | other
deriving DecidableEq, Repr

structure Page where
  slug : String
  items : List Item
deriving DecidableEq, Repr

def stdS : Str := ['s', 't', 'd']
def labelS : Str := ['l', 'a', 'b', 'e', 'l']
def docS : Str := ['d', 'o', 'c']
def programS : Str := ['p', 'r', 'o', 'g', 'r', 'a', 'm']
def optionS : Str := ['o', 'p', 't', 'i', 'o', 'n']

/-! ### pass 3 -/

def Inls.isNil : Inls → Bool
  | .nil => true
  | _ => false

def anyTitled : List Ident → Bool
  | [] => false
  | i :: is => !i.title.isNil || anyTitled is

def setTitles (t : Inls) : List Ident → List Ident
  | [] => []
  | i :: is => { i with title := t } :: setTitles t is

/-- `AddTitlesToLabelTargetsHandler`, run backwards: `next` is the title the pending labels will
receive (`some t` while only targets / title-less identifiers separate us from the next section).
A label whose identifiers carry children of their own resets the pending list when those children
are visited, so it keeps them. -/
def addTitlesAux : List Item → List Item × Option Inls
  | [] => ([], none)
  | it :: rest =>
    let (rest', next) := addTitlesAux rest
    match it with
    | .target d r idents =>
      if anyTitled idents then (.target d r idents :: rest', none)
      else if d = stdS ∧ r = labelS then
        match next with
        | some t => (.target d r (setTitles t idents) :: rest', next)
        | none => (.target d r idents :: rest', next)
      else (.target d r idents :: rest', next)
    | .heading dp b t => (.heading dp b t :: rest', some t)
    | .ref src r => (.ref src r :: rest', none)
    | .contents d => (.contents d :: rest', none)
    | .other => (.other :: rest', none)

def addTitles (items : List Item) : List Item := (addTitlesAux items).1

/-- `ProgramOptionHandler`, loop over the identifiers of an option target: every id also under
`program.id`, first title child (must be an `n.Text`) prefixed by the program name. -/
def qualify (prog : Str) : List Ident → Except PyErr (List Ident)
  | [] => .ok []
  | i :: is =>
    match i.title with
    | .nil => .error .indexError
    | .cons (.wrap _ _) _ => .error .assertionError
    | .cons (.text v) rest =>
      match qualify prog is with
      | .error e => .error e
      | .ok is' =>
        .ok (⟨i.ids ++ i.ids.map (fun x => prog ++ '.' :: x), .cons (.text (prog ++ ' ' :: v)) rest⟩ :: is')

/-- `ProgramOptionHandler.enter_node` over the items of one page; `pend` = identifiers of the
pending `std:program` target. (The `MissingOption` diagnostic is not part of the model.) -/
def programAux : Option (List Ident) → List Item → Except PyErr (List Item)
  | _, [] => .ok []
  | pend, .target d r idents :: rest =>
    if d = stdS ∧ r = programS then
      match programAux (some idents) rest with
      | .error e => .error e
      | .ok rest' => .ok (.target d r idents :: rest')
    else if d = stdS ∧ r = optionS then
      match pend with
      | none =>
        match programAux pend rest with
        | .error e => .error e
        | .ok rest' => .ok (.target d r idents :: rest')
      | some [] => .error .stopIteration
      | some (pi :: _) =>
        match pi.title with
        | .nil => .error .indexError
        | .cons (.wrap _ _) _ => .error .assertionError
        | .cons (.text prog) _ =>
          match qualify prog idents with
          | .error e => .error e
          | .ok idents' =>
            match programAux pend rest with
            | .error e => .error e
            | .ok rest' => .ok (.target d r idents' :: rest')
    else
      match programAux pend rest with
      | .error e => .error e
      | .ok rest' => .ok (.target d r idents :: rest')
  | pend, it :: rest =>
    match programAux pend rest with
    | .error e => .error e
    | .ok rest' => .ok (it :: rest')

def headingBases : List Item → List String
  | [] => []
  | .heading _ b _ :: rest => b :: headingBases rest
  | _ :: rest => headingBases rest

/-- the first heading of a page (its base id and children) -/
def firstHeading : List Item → Option (String × Inls)
  | [] => none
  | .heading _ b t :: _ => some (b, t)
  | _ :: rest => firstHeading rest

/-- `HeadingHandler.enter_node`, `std:doc` part: the first heading of every root page is registered
(twice: the code contains the call two times) under `std:doc:<slug>` with `make_html5_id(id)`. -/
def pass3Docs (isSpace isWord : Char → Bool) : Db → List Page → Except PyErr Db
  | db, [] => .ok db
  | db, p :: ps =>
    match firstHeading p.items with
    | none => pass3Docs isSpace isWord db ps
    | some (b, t) =>
      let hid := String.ofList (Ids.makeHtml5Id isWord b.toList)
      match defineLocal isSpace db stdS docS [p.slug.toList] p.slug t hid with
      | .error e => .error e
      | .ok db1 =>
        match defineLocal isSpace db1 stdS docS [p.slug.toList] p.slug t hid with
        | .error e => .error e
        | .ok db2 => pass3Docs isSpace isWord db2 ps

/-- `x > contents_depth` where `none` = `sys.maxsize` -/
def gtDepth (x : Int) : Option Int → Bool
  | none => false
  | some cd => x > cd

/-- `ContentsHandler` (with `HeadingHandler`'s id assignment, which runs first on every node);
state = has_contents_directive, contents_depth, collected (depth, id). -/
def contentsAux (reserved : List String) :
    List Item → List String → Bool → Option Int → List (Nat × String) → Bool × Option Int × List (Nat × String)
  | [], _, has, cd, acc => (has, cd, acc)
  | .contents d :: rest, issued, has, cd, acc =>
    if has then contentsAux reserved rest issued has cd acc
    else contentsAux reserved rest issued true d acc
  | .heading dp b _ :: rest, issued, has, cd, acc =>
    -- HeadingHandler runs first on the node: `assign_unique_id`
    let i := Ids.assignOne reserved issued b
    if gtDepth ((dp : Int) - 1) cd then contentsAux reserved rest (i :: issued) has cd acc
    else if dp > 1 then contentsAux reserved rest (i :: issued) has cd (acc ++ [(dp, i)])
    else contentsAux reserved rest (i :: issued) has cd acc
  | _ :: rest, issued, has, cd, acc => contentsAux reserved rest issued has cd acc

/-- `page.ast.options["headings"]` (`none` = option not set) -/
def contentsOf (items : List Item) : Option (List (Nat × String)) :=
  let (has, cd, acc) := contentsAux (headingBases items) items [] false none []
  if has then
    let l := acc.filter (fun h => !gtDepth ((h.1 : Int) - 1) cd)
    if l.isEmpty then none else some l
  else none

/-! ### pass 4 -/

def longest : List Str → Option Str := firstMaxBy List.length

/-- candidates of `choose_html_id`: the longest id of every identifier that has ids -/
def idCandidates : List Ident → List Str
  | [] => []
  | i :: is =>
    match longest i.ids with
    | none => idCandidates is
    | some l => l :: idCandidates is

/-- `TargetHandler.choose_html_id` -/
def chooseBase (isWord : Char → Bool) (domain role : Str) (idents : List Ident) : Option String :=
  match longest (idCandidates idents) with
  | none => none
  | some c => some (String.ofList (domain ++ '-' :: role ++ '-' :: Ids.makeHtml5Id isWord c))

/-- base html ids of the targets of a page that get one, in document order -/
def targetBases (isWord : Char → Bool) : List Item → List String
  | [] => []
  | .target d r idents :: rest =>
    match chooseBase isWord d r idents with
    | none => targetBases isWord rest
    | some b => b :: targetBases isWord rest
  | _ :: rest => targetBases isWord rest

def defineIdents (isSpace : Char → Bool) (domain role : Str) (page htmlId : String) :
    Db → List Ident → Except PyErr Db
  | db, [] => .ok db
  | db, i :: is =>
    match defineLocal isSpace db domain role i.ids page i.title htmlId with
    | .error e => .error e
    | .ok db' => defineIdents isSpace domain role page htmlId db' is

/-- the walk of `TargetHandler.enter_node` over one page; `reserved` / `issued` are the handler's
`reserved_ids` / `issued_ids`; returns the db and, per target in document order, the `html_id`
stored on the node. -/
def pass4Items (isSpace isWord : Char → Bool) (page : String) (reserved : List String) :
    Db → List Item → List String → Except PyErr (Db × List (Option String))
  | db, [], _ => .ok (db, [])
  | db, .target d r idents :: rest, issued =>
    match chooseBase isWord d r idents with
    | none =>
      match pass4Items isSpace isWord page reserved db rest issued with
      | .error e => .error e
      | .ok (db', out) => .ok (db', none :: out)
    | some b =>
      let hid := Ids.assignOne reserved issued b
      match defineIdents isSpace d r page hid db idents with
      | .error e => .error e
      | .ok db1 =>
        match pass4Items isSpace isWord page reserved db1 rest (hid :: issued) with
        | .error e => .error e
        | .ok (db', out) => .ok (db', some hid :: out)
  | db, _ :: rest, issued => pass4Items isSpace isWord page reserved db rest issued

/-- `enter_page` (clear issued ids, reserve every base id of the page) then the walk -/
def pass4Page (isSpace isWord : Char → Bool) (db : Db) (p : Page) : Except PyErr (Db × List (Option String)) :=
  pass4Items isSpace isWord p.slug (targetBases isWord p.items) db p.items []

def pass4 (isSpace isWord : Char → Bool) : Db → List Page → Except PyErr (Db × List (List (Option String)))
  | db, [] => .ok (db, [])
  | db, p :: ps =>
    match pass4Page isSpace isWord db p with
    | .error e => .error e
    | .ok (db1, out) =>
      match pass4 isSpace isWord db1 ps with
      | .error e => .error e
      | .ok (db2, outs) => .ok (db2, out :: outs)

end SnootyVerif.Targets
