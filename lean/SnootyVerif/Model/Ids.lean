/-
Model of anchor-id assignment (property C09).

Mirrors, for the code in /repo after the `fix:` commit that introduced the
issued-id set:
* `snooty/util.py: make_html5_id`
* `snooty/postprocess.py: HeadingHandler.enter_node / enter_page` (headings and
  collapsibles share one id space),
* `snooty/postprocess.py: TargetHandler.enter_node / enter_page`,
* `snooty/postprocess.py: FootnoteHandler`.

Also keeps the *previous* counter-based algorithms (`headingsOld`, `targetsOld`)
so that the refutation witnesses stay machine-checked.
-/
namespace SnootyVerif.Ids

/-- `base-k`, the suffixed form both handlers use. -/
def sfx (base : String) (k : Nat) : String := base ++ "-" ++ toString k

/-- Python: `k = start; while f"{base}-{k}" in taken: k += 1`.
The unbounded `while` is modelled by structural recursion on a fuel equal to the
number of candidates still able to block (each blocking element is removed once
hit, so with `fuel = taken.length` the fuel cannot run out before the set is empty). -/
def firstFreeAux (base : String) : Nat → List String → Nat → Nat
  | 0, _, k => k
  | f + 1, taken, k =>
    if (sfx base k) ∈ taken then firstFreeAux base f (taken.erase (sfx base k)) (k + 1) else k

def firstFree (base : String) (taken : List String) (k : Nat) : Nat :=
  firstFreeAux base taken.length taken k

/-- One id: first occurrence of `b` keeps `b`; later ones get the first free
suffix that is neither a base id present on the page (`reserved`) nor issued. -/
def assignOne (reserved issued : List String) (b : String) : String :=
  if b ∈ issued then sfx b (firstFree b (reserved ++ issued) 1) else b

def assignFrom (reserved : List String) : List String → List String → List String
  | _, [] => []
  | issued, b :: bs =>
    let r := assignOne reserved issued b
    r :: assignFrom reserved (r :: issued) bs

/-- All ids of one page, in document order, given the base ids in document order. -/
def assignAll (bases : List String) : List String := assignFrom bases [] bases

/-- Footnote reference ids `id1, id2, …` (per page). -/
def footnotes (n : Nat) : List String := (List.range n).map (fun i => "id" ++ toString (i + 1))

/-- `PAT_INVALID_ID_CHARACTERS.sub("-", s)` then empty → "unnamed".
`isWord` is Python's `\w` (parameter, see DESIGN §4). -/
def validIdChar (isWord : Char → Bool) (c : Char) : Bool :=
  isWord c || c == '_' || c == '.' || c == '-'

def unnamed : List Char := ['u', 'n', 'n', 'a', 'm', 'e', 'd']

/-- on character lists (Lean's `String` is byte-based; the driver converts). -/
def makeHtml5Id (isWord : Char → Bool) (s : List Char) : List Char :=
  let cs := s.map (fun c => if validIdChar isWord c then c else '-')
  if cs.isEmpty then unnamed else cs

/-! ### The algorithms as they were before the fix (kept for the refutations). -/

def count (xs : List String) (x : String) : Nat := (xs.filter (· == x)).length

/-- old HeadingHandler: counter keyed by the original id. -/
def headingsOld : List String → List String → List String
  | _, [] => []
  | seen, b :: bs =>
    let c := count seen b
    (if c > 0 then sfx b c else b) :: headingsOld (b :: seen) bs

/-- old TargetHandler: counter keyed by the assigned id. -/
def targetsOld : List String → List String → List String
  | _, [] => []
  | assigned, b :: bs =>
    let c := count assigned b
    let r := if c > 0 then sfx b c else b
    r :: targetsOld (r :: assigned) bs

end SnootyVerif.Ids
