/-!
# C02 / C08 — title injection of the reference pass (`RefsHandler`, snooty/postprocess.py)

A reference without text of its own (`:ref:`label``, `:doc:`/page``) is given the TITLE of what it points to: the children of
the heading that follows the label, resp. the title of the target page. The event walk then descends into the injected nodes.
A title may itself contain references - in the worst case the very reference being resolved (a heading that refers to its own
label; a page title that links to its own page). The code after the fix injects titles WITHOUT cross-reference roles
(`without_ref_roles`): a role is replaced by its children, a role that points where the reference itself points is dropped.

```
def without_ref_roles(nodes, own):
    result = []
    for node in nodes:
        if isinstance(node, RefRole):
            if key(node) != key(own): result.extend(without_ref_roles(node.children, own))
            continue
        if isinstance(node, Parent): node.children = without_ref_roles(node.children, own)
        result.append(node)
    return result
```
-/
namespace SnootyVerif.TitleInject

inductive N where
  | text (s : String)
  | wrap (cs : List N)                 -- any other inline container (emphasis, literal …)
  | ref (target : String) (cs : List N) -- a cross-reference role
deriving Repr

mutual
/-- `without_ref_roles([n], own)` -/
def strip (own : String) : N → List N
  | .text s => [.text s]
  | .wrap cs => [.wrap (stripL own cs)]
  | .ref t cs => if t = own then [] else stripL own cs
def stripL (own : String) : List N → List N
  | [] => []
  | n :: ns => strip own n ++ stripL own ns
end

mutual
def hasRef : N → Bool
  | .text _ => false
  | .wrap cs => hasRefL cs
  | .ref _ _ => true
def hasRefL : List N → Bool
  | [] => false
  | n :: ns => hasRef n || hasRefL ns
end

mutual
def size : N → Nat
  | .text _ => 1
  | .wrap cs => 1 + sizeL cs
  | .ref _ cs => 1 + sizeL cs
def sizeL : List N → Nat
  | [] => 0
  | n :: ns => size n + sizeL ns
end

mutual
/-- a printable form (equality of trees is decided on it in the examples) -/
def render : N → List String
  | .text s => [s]
  | .wrap cs => "<" :: renderL cs ++ [">"]
  | .ref t cs => "[" :: t :: renderL cs ++ ["]"]
def renderL : List N → List String
  | [] => []
  | n :: ns => render n ++ renderL ns
end

/-- titles: what a target name resolves to (`none` = undefined target: the reference is left alone and reported) -/
abbrev Titles := String → Option (List N)

mutual
/-- the reference pass over one tree as the event walk performs it: a reference without children is given the (stripped or
raw) title and the walk DESCENDS INTO WHAT WAS INJECTED; `none` = the recursion limit was hit (Python: RecursionError).
`stripTitles = true` is the code after the fix, `false` the code before it. -/
def resolve (stripTitles : Bool) (titles : Titles) : Nat → N → Option N
  | 0, _ => none
  | _ + 1, .text s => some (.text s)
  | fuel + 1, .wrap cs => (resolveL stripTitles titles fuel cs).map .wrap
  | fuel + 1, .ref t cs =>
    match cs with
    | [] =>
      match titles t with
      | none => some (.ref t [])
      | some title =>
        let injected := if stripTitles then stripL t title else title
        (resolveL stripTitles titles fuel injected).map (.ref t)
    | _ :: _ => (resolveL stripTitles titles fuel cs).map (.ref t)
def resolveL (stripTitles : Bool) (titles : Titles) : Nat → List N → Option (List N)
  | _, [] => some []
  | fuel, n :: ns =>
    match resolve stripTitles titles fuel n with
    | none => none
    | some n' => (resolveL stripTitles titles fuel ns).map (n' :: ·)
end

end SnootyVerif.TitleInject
