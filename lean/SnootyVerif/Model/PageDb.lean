/-!
# Model of `snooty/page_database.py` (`PageDatabase`) + `snooty/util.py` (`WorkerLauncher`)

A labelled transition system.  One transition = one atomic segment of the Python code at
lock-acquisition / worker-phase granularity (critical sections of `PageDatabase._lock` are atomic:
the lock assumption).  Every client call (`db[k] = v`, `del db[k]`, `db.flush(f)`, `db.cancel()`)
is an *operation*; operations of different threads interleave arbitrarily.

```
db[k] = v / del db[k]          set k v / del k          (one critical section)
WorkerLauncher.cancel()        cEnter r  : with self._lock: if thread alive: cancel.set(); join …
                               cJoin  r  : … join returned (the tracked thread died); lock released
                               cClear r  : cancel() returns (the token was cleared under the lock, in cEnter / cJoin)
WorkerLauncher.run(arg)        = cancel() ; rTrack r : with self._lock: self.__thread = thread
                                          ; rStart r : thread.start()
worker thread (inner/start)    wBegin r  : with db._lock: clean → return cached | copy (polls cancel)
                               wRun   r  : args.run(copied, token)   (polls the token, no lock)
                               wPublish r: with db._lock: publish, mark clean
                               wRet   r  : if cancel.is_set(): Cancelled else put(result); thread dies
```
Two instances of the dirty mechanism (`Mode`): `asWritten` = the set `__changed_pages`, cleared
wholesale at publish time; `fixed` = generation counters (dirty ⇔ `gen ≠ cachedGen`; publish only a
snapshot newer than the published one).  `post : Store → R` is the postprocessor, an arbitrary function.
Ghost state: `hist` (store at every generation), `cachedGen` in mode `asWritten`, `startGen`, and the
generation carried by worker phases.
-/
namespace SnootyVerif.PageDb

abbrev Key := Nat
abbrev Ver := Nat
/-- Python `dict` FileId ↦ page (a page is represented by its version number), insertion order -/
abbrev Store := List (Key × Ver)

/-- `self._parsed[key] = value` -/
def storeSet : Store → Key → Ver → Store
  | [], k, v => [(k, v)]
  | (k', v') :: r, k, v => if k' = k then (k, v) :: r else (k', v') :: storeSet r k v

/-- `try: del self._parsed[key] except KeyError: pass` -/
def storeDel (s : Store) (k : Key) : Store := s.filter (fun p => p.1 != k)

def insertByKey (p : Key × Ver) : Store → Store
  | [] => [p]
  | q :: r => if p.1 ≤ q.1 then p :: q :: r else q :: insertByKey p r

/-- `{k: fast_deep_copy(self._parsed[k][0]) for k in sorted(self._parsed.keys())}` -/
def snapshotOf : Store → Store
  | [] => []
  | p :: r => insertByKey p (snapshotOf r)

inductive Mode
  | asWritten
  | fixed
  deriving DecidableEq, Repr

/-- what the result queue of a request finally holds -/
inductive Outcome (R : Type)
  | ok (g : Nat) (res : R)
  | cancelled
  deriving DecidableEq, Repr

/-- progress of the client side of an operation -/
inductive CPhase
  | joining   -- inside `cancel()`, holding the launcher lock, blocked in `join`
  | unlocked  -- launcher lock released, `__cancel.clear()` not yet executed
  | cleared   -- `cancel()` returned (a pure cancel is finished; a request still has to launch)
  | tracked   -- `self.__thread = thread` done
  | launched  -- `thread.start()` done
  deriving DecidableEq, Repr

/-- progress of the worker thread of a request -/
inductive WPhase (R : Type)
  | none                                -- no thread (pure cancel, or request before `thread.start()`)
  | started                             -- alive, in front of `with self._lock`
  | copied (snapGen : Nat) (snap : Store)
  | ran (snapGen : Nat) (res : R)
  | published (snapGen : Nat) (res : R)
  | cachedHit (g : Nat) (res : R)       -- nothing dirty: `return self.__cached`
  | cancelled                           -- observed the token in the copy loop or in `run`
  | done (out : Outcome R)              -- thread finished, outcome in the queue
  deriving DecidableEq, Repr

def WPhase.alive {R : Type} : WPhase R → Bool
  | .none => false
  | .done _ => false
  | _ => true

structure Op (R : Type) where
  isReq : Bool
  /-- ghost: generation at the moment the operation was issued -/
  startGen : Nat
  c : CPhase
  w : WPhase R
  deriving DecidableEq, Repr

structure St (R : Type) where
  store : Store
  gen : Nat
  /-- ghost: `hist[g]` = store at generation `g` -/
  hist : List Store
  cached : R
  /-- generation of the snapshot `cached` was computed from (ghost in mode `asWritten`) -/
  cachedGen : Nat
  /-- `__changed_pages` (mode `asWritten` only) -/
  changed : List Key
  /-- `WorkerLauncher.__cancel` -/
  flag : Bool
  /-- `WorkerLauncher.__thread` : the operation whose worker is tracked -/
  tracked : Option Nat
  /-- holder of `WorkerLauncher._lock` (only a joining `cancel()` holds it across steps) -/
  joiner : Option Nat
  ops : List (Op R)
  deriving DecidableEq, Repr

inductive Label
  | set (k : Key) (v : Ver)
  | del (k : Key)
  /-- `PageDatabase.invalidate()`: something the postprocessor reads besides the pages changed (facets.toml) -/
  | inv
  | cEnter (r : Nat) (isReq : Bool)
  | cJoin (r : Nat)
  | cClear (r : Nat)
  | rTrack (r : Nat)
  | rStart (r : Nat)
  | wBegin (r : Nat)
  | wRun (r : Nat)
  | wPublish (r : Nat)
  | wRet (r : Nat)
  deriving DecidableEq, Repr

def init {R : Type} (post : Store → R) : St R :=
  { store := [], gen := 0, hist := [[]], cached := post [], cachedGen := 0, changed := [],
    flag := false, tracked := none, joiner := none, ops := [] }

/-- `if not self.__changed_pages` / `if self.__cached_generation == self.__generation` -/
def dirty {R : Type} (m : Mode) (s : St R) : Bool :=
  match m with
  | .asWritten => !s.changed.isEmpty
  | .fixed => s.gen != s.cachedGen

def mutate {R : Type} (s : St R) (k : Key) (st' : Store) : St R :=
  { s with store := st', gen := s.gen + 1, hist := s.hist ++ [st'],
           changed := if s.changed.contains k then s.changed else s.changed ++ [k] }

/-- `self.__thread and self.__thread.is_alive()` -/
def trackedAlive {R : Type} (s : St R) : Bool :=
  match s.tracked with
  | none => false
  | some t =>
    match s.ops[t]? with
    | some o => o.w.alive
    | none => false

def setOp {R : Type} (s : St R) (r : Nat) (o : Op R) : St R := { s with ops := s.ops.set r o }

/-- the publish critical section -/
def publish {R : Type} (m : Mode) (s : St R) (g : Nat) (res : R) : St R :=
  match m with
  | .asWritten => { s with cached := res, cachedGen := g, changed := [] }
  | .fixed => if s.cachedGen < g then { s with cached := res, cachedGen := g } else s

/-- one transition; `none` = the label is not enabled in `s` (the thread would block, or no such
thread is at that point) -/
def step {R : Type} (m : Mode) (post : Store → R) (s : St R) : Label → Option (St R)
  | .set k v => some (mutate s k (storeSet s.store k v))
  | .del k => some (mutate s k (storeDel s.store k))
  -- a new generation of the same pages: whatever was computed from an earlier generation is no longer current
  | .inv => some { s with gen := s.gen + 1, hist := s.hist ++ [s.store] }
  | .cEnter r isReq =>
    if r = s.ops.length ∧ s.joiner = none then
      if trackedAlive s then
        some { s with flag := true, joiner := some r,
                      ops := s.ops ++ [{ isReq := isReq, startGen := s.gen, c := .joining, w := .none }] }
      else
        -- nothing to cancel: the token is cleared and the lock released in the same critical section
        some { s with flag := false, ops := s.ops ++ [{ isReq := isReq, startGen := s.gen, c := .unlocked, w := .none }] }
    else none
  | .cJoin r =>
    match s.ops[r]? with
    | some o =>
      if o.c = .joining ∧ trackedAlive s = false then
        -- `join` returned; `self.__cancel.clear()` STILL UNDER THE LOCK, then the lock is released
        some (setOp { s with joiner := none, flag := false } r { o with c := .unlocked })
      else none
    | none => none
  | .cClear r =>
    match s.ops[r]? with
    | some o =>
      -- `cancel()` returns (the token was cleared before the lock was released: a clear() that came any later could erase the
      -- set() of a cancel() that is already waiting for its worker - the code before the fix did that)
      if o.c = .unlocked then some (setOp s r { o with c := .cleared }) else none
    | none => none
  | .rTrack r =>
    match s.ops[r]? with
    | some o =>
      if o.isReq = true ∧ o.c = .cleared ∧ s.joiner = none then
        some (setOp { s with tracked := some r } r { o with c := .tracked })
      else none
    | none => none
  | .rStart r =>
    match s.ops[r]? with
    | some o =>
      if o.c = .tracked then some (setOp s r { o with c := .launched, w := .started }) else none
    | none => none
  | .wBegin r =>
    match s.ops[r]? with
    | some o =>
      match o.w with
      | .started =>
        if dirty m s = false then some (setOp s r { o with w := .cachedHit s.cachedGen s.cached })
        else if s.flag = true ∧ s.store ≠ [] then some (setOp s r { o with w := .cancelled })
        else some (setOp s r { o with w := .copied s.gen (snapshotOf s.store) })
      | _ => none
    | none => none
  | .wRun r =>
    match s.ops[r]? with
    | some o =>
      match o.w with
      | .copied g snap =>
        if s.flag = true then some (setOp s r { o with w := .cancelled })
        else some (setOp s r { o with w := .ran g (post snap) })
      | _ => none
    | none => none
  | .wPublish r =>
    match s.ops[r]? with
    | some o =>
      match o.w with
      | .ran g res => some (setOp (publish m s g res) r { o with w := .published g res })
      | _ => none
    | none => none
  | .wRet r =>
    match s.ops[r]? with
    | some o =>
      match o.w with
      | .published g res =>
        some (setOp s r { o with w := .done (if s.flag = true then .cancelled else .ok g res) })
      | .cachedHit g res =>
        some (setOp s r { o with w := .done (if s.flag = true then .cancelled else .ok g res) })
      | .cancelled => some (setOp s r { o with w := .done .cancelled })
      | _ => none
    | none => none

/-- run a label sequence; `none` as soon as a label is not enabled -/
def runFrom {R : Type} (m : Mode) (post : Store → R) (s : St R) : List Label → Option (St R)
  | [] => some s
  | l :: ls =>
    match step m post s l with
    | some s' => runFrom m post s' ls
    | none => none

/-- lenient variant used by the driver: a disabled label is skipped and reported -/
def runLenient {R : Type} (m : Mode) (post : Store → R) (s : St R) : List Label → St R × List Bool
  | [] => (s, [])
  | l :: ls =>
    match step m post s l with
    | some s' => let (t, bs) := runLenient m post s' ls; (t, true :: bs)
    | none => let (t, bs) := runLenient m post s ls; (t, false :: bs)

/-- outcome of operation `r`, if its worker has finished -/
def outcome? {R : Type} (s : St R) (r : Nat) : Option (Outcome R) :=
  match s.ops[r]? with
  | some o => match o.w with
    | .done out => some out
    | _ => none
  | none => none

/-! ### variant: a non-atomic `__delitem__` (seeded defect, refuted in `Properties/C13.lean`)

`del db[k]` split into two critical sections, the generation bump first (`delBump`), the removal of the
entry second (`delRemove k`), any other thread being free to run in between. -/
inductive SLabel
  | base (l : Label)
  | delBump
  | delRemove (k : Key)
  deriving DecidableEq, Repr

def stepSplit {R : Type} (m : Mode) (post : Store → R) (s : St R) : SLabel → Option (St R)
  | .base l => step m post s l
  | .delBump => some { s with gen := s.gen + 1, hist := s.hist ++ [s.store] }
  | .delRemove k => some { s with store := storeDel s.store k }

def runSplit {R : Type} (m : Mode) (post : Store → R) (s : St R) : List SLabel → Option (St R)
  | [] => some s
  | l :: ls =>
    match stepSplit m post s l with
    | some s' => runSplit m post s' ls
    | none => none

end SnootyVerif.PageDb
