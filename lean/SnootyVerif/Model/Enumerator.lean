/-!
# C01 — enumerated-list markers: `roman.py`, `Body.parse_enumerator`, `Body.make_enumerator`

Mirrors `snooty/tinydocutils/roman.py` — the standard conversion over the numeral map (M 1000, CM 900, … I 1): `to_roman`
takes numerals greedily for `0 < n < MAX_ROMAN`, `from_roman` reads numerals greedily and accepts the result only if it is in
range and spells back to the input; both raise `ValueError` subclasses otherwise — and `snooty/tinydocutils/states.py`
`Body.parse_enumerator` / `Body.make_enumerator`. Text is `List Char`. The numeral map, the bound and the `except` clause
around the converter call are parameters, instantiated with the generated `Gen/Enum.lean`.
(`toRomanTable` / `fromRomanTable` are the lookup-table functions of the code BEFORE the repair, kept for the refutation
witnesses.)
-/
namespace SnootyVerif.Enumerator

inductive PyErr
  | ValueError | TypeError | KeyError | ParserError
  deriving DecidableEq, Repr

def PyErr.name : PyErr → String
  | .ValueError => "ValueError" | .TypeError => "TypeError" | .KeyError => "KeyError" | .ParserError => "ParserError"

deriving instance DecidableEq for Except

/-! ## roman.py -/

/-- `ROMAN_NUMERAL_MAP` and `MAX_ROMAN` -/
structure Roman where
  map : List (List Char × Nat)
  max : Nat

/-- `while n >= value: result += numeral; n -= value` — returns (emitted text, remaining n). The loop runs at most `n` times
when `value > 0` (`roman_map_strictly_decreasing` establishes that for the real map), so fuel `n` is exact. -/
def emit (numeral : List Char) (value : Nat) : Nat → Nat → List Char × Nat
  | 0, n => ([], n)
  | fuel + 1, n =>
    if value ≤ n then
      let r := emit numeral value fuel (n - value)
      (numeral ++ r.1, r.2)
    else ([], n)

/-- `for numeral, value in ROMAN_NUMERAL_MAP: …` of `to_roman` -/
def toRomanAux : List (List Char × Nat) → Nat → List Char
  | [], _ => []
  | (numeral, value) :: rest, n =>
    let r := emit numeral value n n
    r.1 ++ toRomanAux rest r.2

/-- `roman.to_roman` (`OutOfRangeError` is a `ValueError`) -/
def toRoman (R : Roman) (n : Nat) : Except PyErr (List Char) :=
  if 0 < n ∧ n < R.max then .ok (toRomanAux R.map n) else .error .ValueError

/-- `while s[index:index+len(numeral)] == numeral: result += value; index += len(numeral)` on the unread rest of `s` —
returns (new rest, new result). At most `len(rest)` iterations for a non-empty numeral. -/
def eat (numeral : List Char) (value : Nat) : Nat → List Char → Nat → List Char × Nat
  | 0, t, acc => (t, acc)
  | fuel + 1, t, acc =>
    if numeral.isPrefixOf t then eat numeral value fuel (t.drop numeral.length) (acc + value)
    else (t, acc)

/-- `for numeral, value in ROMAN_NUMERAL_MAP: …` of `from_roman` -/
def fromRomanAux : List (List Char × Nat) → List Char → Nat → Nat
  | [], _, acc => acc
  | (numeral, value) :: rest, t, acc =>
    let r := eat numeral value t.length t acc
    fromRomanAux rest r.1 r.2

/-- `roman.from_roman`: greedy reading, then `if not (0 < result < MAX_ROMAN) or to_roman(result) != s: raise
InvalidRomanNumeralError` (a `ValueError`) -/
def fromRoman (R : Roman) (s : List Char) : Except PyErr Nat :=
  if 0 < fromRomanAux R.map s 0 ∧ fromRomanAux R.map s 0 < R.max ∧ toRomanAux R.map (fromRomanAux R.map s 0) = s then
    .ok (fromRomanAux R.map s 0)
  else .error .ValueError

/-- values strictly decreasing and positive, numerals non-empty: what makes the two greedy loops terminate and agree -/
def mapWellFormed : List (List Char × Nat) → Bool
  | [] => true
  | [(numeral, value)] => numeral ≠ [] && 0 < value
  | (numeral, value) :: (numeral', value') :: rest =>
    numeral ≠ [] && value' < value && mapWellFormed ((numeral', value') :: rest)

/-! ### the lookup table of the code before the repair (I..XX; at first with "VII" twice) -/

def indexOf (table : List (List Char)) (s : List Char) : Option Nat :=
  match table with
  | [] => none
  | x :: rest => if x = s then some 0 else (indexOf rest s).map (· + 1)

/-- the former `roman.to_roman`: `ROMAN_NUMERALS[n - 1]` -/
def toRomanTable (table : List (List Char)) (n : Nat) : Except PyErr (List Char) :=
  if n < 1 ∨ n > table.length then .error .ValueError
  else match table[n - 1]? with
    | some s => .ok s
    | none => .error .ValueError

/-- the former `roman.from_roman`: `ROMAN_NUMERALS.index(s) + 1` -/
def fromRomanTable (table : List (List Char)) (s : List Char) : Except PyErr Nat :=
  match indexOf table s with
  | some i => .ok (i + 1)
  | none => .error .ValueError

/-! ## character classes of `Body.enum.sequencepats` (explicit ASCII ranges, so no Unicode tables involved) -/

def isDigit (c : Char) : Bool := '0' ≤ c ∧ c ≤ '9'
def isLowerAZ (c : Char) : Bool := 'a' ≤ c ∧ c ≤ 'z'
def isUpperAZ (c : Char) : Bool := 'A' ≤ c ∧ c ≤ 'Z'
def isLowerRoman (c : Char) : Bool := ['i', 'v', 'x', 'l', 'c', 'd', 'm'].contains c
def isUpperRoman (c : Char) : Bool := ['I', 'V', 'X', 'L', 'C', 'D', 'M'].contains c

/-- `self.enum.sequenceregexps[seq].match(text)`; `none` = `KeyError` (unknown sequence name) -/
def seqMatches (seq : String) (text : List Char) : Option Bool :=
  if seq = "arabic" then some (text ≠ [] && text.all isDigit)
  else if seq = "loweralpha" then some (match text with | [c] => isLowerAZ c | _ => false)
  else if seq = "upperalpha" then some (match text with | [c] => isUpperAZ c | _ => false)
  else if seq = "lowerroman" then some (text ≠ [] && text.all isLowerRoman)
  else if seq = "upperroman" then some (text ≠ [] && text.all isUpperRoman)
  else none

def digitsValue (text : List Char) : Nat := text.foldl (fun acc c => acc * 10 + (c.toNat - 48)) 0

/-- ASCII upper-casing of `[ivxlcdm]` (`s.upper()` in `_lowerroman_to_int`; only ever applied to those letters) -/
def upperAscii (c : Char) : Char := if isLowerAZ c then Char.ofNat (c.toNat - 32) else c

/-- CPython refuses `int(s)` for more than 4300 digits (`sys.int_info.default_max_str_digits`) with `ValueError` -/
def maxStrDigits : Nat := 4300

/-- `self.enum.converters[sequence](text)`; `KeyError` for an unknown sequence -/
def convert (R : Roman) (seq : String) (text : List Char) : Except PyErr Nat :=
  if seq = "arabic" then (if text.length > maxStrDigits then .error .ValueError else .ok (digitsValue text))
  else if seq = "loweralpha" then (match text with | [c] => .ok (c.toNat - 96) | _ => .error .TypeError)
  else if seq = "upperalpha" then (match text with | [c] => .ok (c.toNat - 64) | _ => .error .TypeError)
  else if seq = "lowerroman" then fromRoman R (text.map upperAscii)
  else if seq = "upperroman" then fromRoman R text
  else .error .KeyError

/-- what the `try … except` around the converter call does with an exception of class `e`:
handlers = generated `(classes, action)` list; action `handled` = `ordinal = None`, `raise:X` = re-raise as X -/
def onConvertError (handlers : List (List String × List String)) (e : PyErr) : Except PyErr (Option Nat) :=
  match handlers with
  | [] => .error e
  | (cs, act) :: rest =>
    if cs.contains e.name then
      (if act = ["handled"] then .ok none
       else if act = ["raise:ParserError"] then .error .ParserError
       else .error e)
    else onConvertError rest e

def firstSeq (seqs : List String) (text : List Char) : Option String :=
  match seqs with
  | [] => none
  | s :: rest => if seqMatches s text = some true then some s else firstSeq rest text

structure Tables where
  roman : Roman
  sequences : List String
  handlers : List (List String × List String)

/-- the sequence suggested by the caller / by the special cases `i`, `I`; `""` = not decided yet -/
def hintSeq (text : List Char) (expected : Option String) : Except PyErr String :=
  match expected with
  | some e =>
    (match seqMatches e text with
     | none => .error .ParserError            -- KeyError → "unknown enumerator sequence"
     | some true => .ok e
     | some false => .ok "")
  | none =>
    if text = ['i'] then .ok "lowerroman"
    else if text = ['I'] then .ok "upperroman"
    else .ok ""

/-- first half of `Body.parse_enumerator`: which sequence the enumerator text belongs to -/
def determineSeq (T : Tables) (text : List Char) (expected : Option String) : Except PyErr String :=
  if text = ['#'] then .ok "#"
  else match hintSeq text expected with
    | .error e => .error e
    | .ok s =>
      if s ≠ "" then .ok s
      else match firstSeq T.sequences text with
        | some s' => .ok s'
        | none => .error .ParserError             -- "enumerator sequence not matched"

/-- second half: the ordinal; `none` is Python's `None` ("invalid enumerator text") -/
def ordinalOf (T : Tables) (s : String) (text : List Char) : Except PyErr (Option Nat) :=
  if s = "#" then .ok (some 1)
  else match convert T.roman s text with
    | .ok n => .ok (some n)
    | .error e => onConvertError T.handlers e

/-- `Body.parse_enumerator` after the format has been determined by the regular expression: (sequence, ordinal) -/
def parseEnumerator (T : Tables) (text : List Char) (expected : Option String) : Except PyErr (String × Option Nat) :=
  match determineSeq T text expected with
  | .error e => .error e
  | .ok s =>
    match ordinalOf T s text with
    | .error e => .error e
    | .ok o => .ok (s, o)

/-- the text matched by `pats["enum"]`: `#` or one of the sequence patterns -/
def EnumeratorMatch (T : Tables) (text : List Char) : Prop :=
  text = ['#'] ∨ ∃ s ∈ T.sequences, seqMatches s text = some true

/-- `Body.make_enumerator` for the alphabetic / roman / arabic sequences: `none` = Python `None` (out of range) -/
def makeEnumerator (R : Roman) (ordinal : Nat) (seq : String) : Except PyErr (Option (List Char)) :=
  if seq = "#" then .ok (some ['#'])
  else if seq = "arabic" then .ok (some (Nat.toDigits 10 ordinal))
  else if seq = "loweralpha" ∨ seq = "upperalpha" then
    (if ordinal > 26 then .ok none
     else .ok (some [Char.ofNat (ordinal + (if seq = "loweralpha" then 96 else 64))]))
  else if seq = "lowerroman" ∨ seq = "upperroman" then
    (match toRoman R ordinal with
     | .ok r => .ok (some (if seq = "lowerroman" then r.map (fun c => if isUpperAZ c then Char.ofNat (c.toNat + 32) else c) else r))
     | .error _ => .ok none)       -- `except ValueError: return None`
  else .error .ParserError

end SnootyVerif.Enumerator
