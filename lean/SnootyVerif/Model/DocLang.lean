/-!
# A language model of the supported reST subset: `render` and `expected`

`Blk` / `Inl` are syntax trees of documents; `emit ℓ start b` produces, for a layout `ℓ`
(the blank-line / indentation / adornment-length choices reST treats as equivalent), the source
lines of `b` *and* the AST the parser is expected to produce when those lines start at (zero-based)
line `start`.  Every expected node that the property says reports a line carries a *claim*
`(line, text)`: the line number and the source line it claims to start on.

Lines are opaque `String`s (only `++`, `length`, equality with `""`).  Import-free, total,
structurally recursive.
-/
namespace SnootyVerif.DocLang

/-! ## expected AST -/

inductive Val
  | str (s : String)
  | int (n : Int)
  | bool (b : Bool)
  | null
  | raw (json : String)        -- spec data handed through by the harness (option values)
  deriving Repr, DecidableEq

inductive ENode
  | mk (kind : String) (attrs : List (String × Val)) (claim : Option (Nat × String)) (kids : List ENode)
  deriving Repr

def ENode.kind : ENode → String | .mk k _ _ _ => k
def ENode.attrs : ENode → List (String × Val) | .mk _ a _ _ => a
def ENode.claim : ENode → Option (Nat × String) | .mk _ _ c _ => c
def ENode.kids : ENode → List ENode | .mk _ _ _ ks => ks

def leaf (kind : String) (attrs : List (String × Val)) : ENode := .mk kind attrs none []
def textNode (s : String) : ENode := leaf "text" [("value", .str s)]

mutual
  /-- all nodes of a tree, pre-order -/
  def flat : ENode → List ENode
    | .mk k a c ks => ENode.mk k a c ks :: flatList ks
  def flatList : List ENode → List ENode
    | [] => []
    | n :: ns => flat n ++ flatList ns
end

mutual
  /-- rewrite the claimed source text of every node: `g (line - base) text` -/
  def mapClaims (base : Nat) (g : Nat → String → String) : ENode → ENode
    | .mk k a c ks =>
      .mk k a (match c with | some (ln, t) => some (ln, g (ln - base) t) | none => none)
        (mapClaimsList base g ks)
  def mapClaimsList (base : Nat) (g : Nat → String → String) : List ENode → List ENode
    | [] => []
    | n :: ns => mapClaims base g n :: mapClaimsList base g ns
end

mutual
  /-- drop every claim (inline nodes never report a line of their own) -/
  def clearClaims : ENode → ENode
    | .mk k a _ ks => .mk k a none (clearClaimsList ks)
  def clearClaimsList : List ENode → List ENode
    | [] => []
    | n :: ns => clearClaims n :: clearClaimsList ns
end

/-! ## layout -/

structure Layout where
  gap : Nat          -- blank lines between blocks: 1 + (gap + line) % (gapMod) (gapMod = 0: always 1)
  gapMod : Nat
  bodyIndent : Nat   -- indentation of directive bodies, definitions and comment continuation lines
  bulletPad : Nat    -- spaces after a list marker
  afterTitle : Nat   -- blank lines after a title underline
  underExtra : Nat   -- adornment longer than the title by this much
  itemGap : Nat      -- blank lines between simple list items
  padBlank : Bool    -- blank lines inside indented blocks keep the indentation whitespace
  trailing : Nat     -- blank lines at the end of the document
  deriving Repr

def Layout.gapAt (ℓ : Layout) (line : Nat) : Nat :=
  1 + (if ℓ.gapMod = 0 then 0 else (ℓ.gap + line) % ℓ.gapMod)

def spaces (n : Nat) : String := String.ofList (List.replicate n ' ')
def repeatChar (c : Char) (n : Nat) : String := String.ofList (List.replicate n c)

/-- put `p` in front of a line; empty lines stay empty unless `padBlank` -/
def pfx (padBlank : Bool) (p l : String) : String := if l = "" && !padBlank then "" else p ++ l

/-- line 0 gets `first`, the others `rest` -/
def pfxAt (padBlank : Bool) (first rest : String) (i : Nat) (l : String) : String :=
  pfx padBlank (if i = 0 then first else rest) l

def prefixLines (padBlank : Bool) (first rest : String) (lines : List String) : List String :=
  lines.mapIdx (pfxAt padBlank first rest)

/-! ## inline items -/

/-- how a role is registered in rstspec.toml (data handed in by the harness) -/
structure RoleSpec where
  kind : String       -- "text" | "explicit_title" | "ref" | "link"
  domain : String
  name : String
  pre : String        -- ref: tag prefix incl. "." ; link: the URL template before `%s`
  post : String       -- link: the URL template after `%s`
  fmt : Option String -- one formatting wrapper ("literal" / "emphasis" / "strong")
  deriving Repr

inductive Inl
  | text (s : String)                  -- plain characters
  | esc (c : String)                   -- `\c`
  | sp                                 -- one space
  | nl                                 -- line break inside the paragraph
  | escnl                              -- a backslash as the last character of a line: it escapes the line break,
                                       -- which this parser keeps as character data (the backslash goes)
  | emph (s : String)
  | strong (s : String)
  | literal (s : String)
  | role (markup : String) (label : Option String) (target : String) (spec : RoleSpec)
  | extref (label uri : String)        -- `label <uri>`_
  | footref (name : String)            -- [#name]_
  | subref (name : String)             -- |name|
  | namedref (name : String)           -- `name`_
  /-- a role whose label is written with backslash escapes: `labelSrc` is what the source holds, `labelTxt` what the
  reader sees (supplied by the harness: the escape kernel has its own model, `Model/Escape.lean`) -/
  | roleL (markup : String) (labelSrc labelTxt : String) (target : String) (spec : RoleSpec)
  deriving Repr

def inlSrc : Inl → String
  | .text s => s
  | .esc c => "\\" ++ c
  | .sp => " "
  | .nl => "\n"
  | .escnl => "\\\n"
  | .emph s => "*" ++ s ++ "*"
  | .strong s => "**" ++ s ++ "**"
  | .literal s => "``" ++ s ++ "``"
  | .role m (some l) t _ => ":" ++ m ++ ":`" ++ l ++ " <" ++ t ++ ">`"
  | .role m none t _ => ":" ++ m ++ ":`" ++ t ++ "`"
  | .extref l u => "`" ++ l ++ " <" ++ u ++ ">`_"
  | .footref n => "[#" ++ n ++ "]_"
  | .subref n => "|" ++ n ++ "|"
  | .namedref n => "`" ++ n ++ "`_"
  | .roleL m ls _ t _ => ":" ++ m ++ ":`" ++ ls ++ " <" ++ t ++ ">`"

/-- source lines of an inline sequence (`nl` starts a new line); never empty -/
def inlLines : List Inl → String → List String
  | [], cur => [cur]
  | .nl :: xs, cur => cur :: inlLines xs ""
  | .escnl :: xs, cur => (cur ++ "\\") :: inlLines xs ""
  | x :: xs, cur => inlLines xs (cur ++ inlSrc x)

def wrapFmt (fmt : Option String) (kids : List ENode) : List ENode :=
  match fmt with
  | some f => [ENode.mk f [] none kids]
  | none => kids

def roleNodes (label : Option String) (target : String) (sp : RoleSpec) : List ENode :=
  if sp.kind = "text" then
    [.mk "role" [("domain", .str sp.domain), ("name", .str sp.name), ("target", .str "")] none [textNode target]]
  else if sp.kind = "explicit_title" then
    [.mk "role" [("domain", .str sp.domain), ("name", .str sp.name), ("target", .str target)] none
      (match label with | some l => [textNode l] | none => [])]
  else if sp.kind = "ref" then
    [.mk "ref_role" [("domain", .str sp.domain), ("name", .str sp.name), ("target", .str (sp.pre ++ target))] none
      (match label with
       | some l => wrapFmt sp.fmt [textNode l]
       | none => match sp.fmt with | some f => [ENode.mk f [] none []] | none => [])]
  else
    wrapFmt sp.fmt
      [.mk "reference" [("refuri", .str (sp.pre ++ target ++ sp.post))] none
        [textNode (match label with | some l => l | none => target)]]

inductive Tok
  | t (s : String)
  | n (es : List ENode)

def inlTok : Inl → Tok
  | .text s => .t s
  | .esc c => .t c
  | .sp => .t " "
  | .nl => .t "\n"
  | .escnl => .t "\n"
  | .emph s => .n [.mk "emphasis" [] none [textNode s]]
  | .strong s => .n [.mk "strong" [] none [textNode s]]
  | .literal s => .n [.mk "literal" [] none [textNode s]]
  | .role _ l t sp => .n (roleNodes l t sp)
  | .extref l u =>
    .n [.mk "reference" [("refuri", .str u)] none [textNode l],
        leaf "named_reference" [("refname", .str l), ("refuri", .str u)]]
  | .footref nm => .n [leaf "footnote_reference" [("refname", .str nm)]]
  | .subref nm => .n [leaf "substitution_reference" [("name", .str nm)]]
  | .namedref nm => .n [.mk "reference" [("refname", .str nm)] none [textNode nm]]
  | .roleL _ _ lt t sp => .n (roleNodes (some lt) t sp)

/-- adjacent character data becomes one text node -/
def mergeToks : List Tok → String → List ENode
  | [], acc => if acc = "" then [] else [textNode acc]
  | .t s :: ts, acc => mergeToks ts (acc ++ s)
  | .n es :: ts, acc => (if acc = "" then [] else [textNode acc]) ++ es ++ mergeToks ts ""

def inlNodes (xs : List Inl) : List ENode := clearClaimsList (mergeToks (xs.map inlTok) "")

/-- the character data an inline item contributes to text nodes of the AST (markup delimiters and
escaping backslashes are gone; a role target that becomes an attribute is not character data) -/
def inlText : Inl → String
  | .text s => s
  | .esc c => c
  | .sp => " "
  | .nl => "\n"
  | .escnl => "\n"
  | .emph s => s
  | .strong s => s
  | .literal s => s
  | .role _ (some l) t sp => if sp.kind = "text" then t else l
  | .role _ none t sp =>
    if sp.kind = "text" then t else if sp.kind = "explicit_title" then "" else if sp.kind = "ref" then "" else t
  | .extref l _ => l
  | .footref _ => ""
  | .subref _ => ""
  | .namedref n => n
  | .roleL _ _ lt t sp => if sp.kind = "text" then t else lt

def inlsText : List Inl → String
  | [] => ""
  | x :: xs => inlText x ++ inlsText xs

/-! ## enumerators (rendering side only) -/

inductive EnumSeq | arabic | loweralpha | upperalpha | lowerroman | upperroman
  deriving Repr, DecidableEq
inductive EnumFmt | period | rparen | parens
  deriving Repr, DecidableEq

def EnumSeq.name : EnumSeq → String
  | .arabic => "arabic" | .loweralpha => "loweralpha" | .upperalpha => "upperalpha"
  | .lowerroman => "lowerroman" | .upperroman => "upperroman"

/-- roman numeral of `n < 4000` by repeated subtraction -/
def romanAux : Nat → Nat → List (Nat × String) → String
  | 0, _, _ => ""
  | _, _, [] => ""
  | fuel + 1, n, (v, s) :: rest =>
    if v ≤ n ∧ 0 < v then s ++ romanAux fuel (n - v) ((v, s) :: rest) else romanAux fuel n rest

def romanTable : List (Nat × String) :=
  [(1000, "M"), (900, "CM"), (500, "D"), (400, "CD"), (100, "C"), (90, "XC"), (50, "L"), (40, "XL"),
   (10, "X"), (9, "IX"), (5, "V"), (4, "IV"), (1, "I")]

def toRoman (n : Nat) : String := romanAux (n + 20) n romanTable

def lowerAscii (s : String) : String :=
  String.ofList (s.toList.map (fun c => if 'A' ≤ c ∧ c ≤ 'Z' then Char.ofNat (c.toNat + 32) else c))

def enumText (seq : EnumSeq) (n : Nat) : String :=
  match seq with
  | .arabic => toString n
  | .loweralpha => String.singleton (Char.ofNat (96 + n))
  | .upperalpha => String.singleton (Char.ofNat (64 + n))
  | .lowerroman => lowerAscii (toRoman n)
  | .upperroman => toRoman n

def enumMarker (fmt : EnumFmt) (body : String) : String :=
  match fmt with
  | .period => body ++ "."
  | .rparen => body ++ ")"
  | .parens => "(" ++ body ++ ")"

/-! ## blocks -/

inductive Blk
  | para (xs : List Inl)
  | section (title : List Inl) (style : Char) (over : Bool) (kids : List Blk)
  | bullet (marker : Char) (items : List Blk)                 -- items: `.item`
  | enumerated (seq : EnumSeq) (fmt : EnumFmt) (start : Nat) (auto : Bool) (items : List Blk)
  | item (kids : List Blk)
  | deflist (items : List Blk)                                -- items: `.defitem`
  | defitem (term : List Inl) (kids : List Blk)
  | lineblock (lines : List (List Inl))
  | comment (lines : List String)
  | label (name : String)
  | directive (name domain : String) (arg : List Inl) (opts : List (String × String × Val)) (kids : List Blk)
  | code (dirname : String) (lang : Option String) (opts : List (String × String × Val))
      (attrs : List (String × Val)) (lines : List String)
  | transition (style : Char) (len : Nat)                     -- a line of `len` adornment characters
  | footnote (name : String) (kids : List Blk)                -- `.. [#name] first paragraph` + indented blocks
  | substdef (name : String) (xs : List Inl)                  -- `.. |name| replace:: inline text`
  | blocksub (name : String)                                  -- a paragraph that is nothing but `|name|`
  | namedtarget (name uri : String)                           -- `.. _name: uri`
  /-- a directive without options whose argument runs over several lines (`arg` holds at least one `nl`): the parser
  re-parses such an argument as the first body element(s) of the directive, starting ON the directive's line - or, with
  `nextLine`, on the line after it (nothing but the directive's name on its own line, no blank line before the text) -/
  | directiveML (name domain : String) (nextLine : Bool) (arg : List Inl) (kids : List Blk)
  deriving Repr

inductive SeqMode
  | blocks                                   -- body elements separated by blank lines
  | bullets (marker : String) (sep : Nat)
  | enums (seq : EnumSeq) (fmt : EnumFmt) (ord : Nat) (auto : Bool) (sep : Nat)
  | defs
  deriving Repr

def headLine (lines : List String) : String :=
  match lines with
  | l :: _ => l
  | [] => ""

def optLine (o : String × String × Val) : String :=
  ":" ++ o.1 ++ ":" ++ (if o.2.1 = "" then "" else " " ++ o.2.1)

def optAttrs (opts : List (String × String × Val)) : List (String × Val) :=
  opts.map (fun o => (o.1, o.2.2))

def concatSrc (xs : List Inl) : String := xs.foldl (fun acc x => acc ++ inlSrc x) ""

/-- is every item a single paragraph? (then items may follow each other without blank lines) -/
def simpleItems : List Blk → Bool
  | [] => true
  | .item [.para _] :: bs => simpleItems bs
  | _ :: _ => false

structure Out where
  lines : List String
  nodes : List ENode
  deriving Repr

def blanks (n : Nat) : List String := List.replicate n ""

def lineNodes : List (List Inl) → List ENode
  | [] => []
  | l :: ls => ENode.mk "line" [] none (inlNodes l) :: lineNodes ls

mutual
  /-- source lines (at column 0) and expected nodes of one block starting at line `start` -/
  def emit (ℓ : Layout) (start : Nat) : Blk → Out
    | .para xs =>
      let lines := inlLines xs ""
      ⟨lines, [.mk "paragraph" [] (some (start, headLine lines)) (inlNodes xs)]⟩
    | .section title style over kids =>
      let t := concatSrc title
      let adorn := repeatChar style (t.length + ℓ.underExtra)
      let head := (if over then [adorn] else []) ++ [t, adorn]
      let pre := head ++ blanks (if kids.isEmpty then 0 else ℓ.afterTitle)
      let k := emitSeq ℓ SeqMode.blocks (start + pre.length) kids
      ⟨pre ++ k.lines,
       [.mk "section" [] none
          (.mk "heading" [] (some (start + (if over then 2 else 1), adorn)) (inlNodes title) :: k.nodes)]⟩
    | .bullet marker items =>
      let sep := if simpleItems items then ℓ.itemGap else ℓ.gapAt start
      let k := emitSeq ℓ (SeqMode.bullets (String.singleton marker) sep) start items
      ⟨k.lines, [.mk "list" [("enumtype", .str "unordered")] none k.nodes]⟩
    | .enumerated seq fmt st auto items =>
      let sep := if simpleItems items then ℓ.itemGap else ℓ.gapAt start
      let k := emitSeq ℓ (SeqMode.enums seq fmt st auto sep) start items
      ⟨k.lines,
       [.mk "list" ([("enumtype", .str seq.name)] ++ (if st = 1 ∨ auto then [] else [("startat", .int st)])) none
          k.nodes]⟩
    | .item kids => emitSeq ℓ SeqMode.blocks start kids
    | .deflist items =>
      let k := emitSeq ℓ SeqMode.defs start items
      ⟨k.lines, [.mk "definitionList" [] none k.nodes]⟩
    | .defitem term kids =>
      let k := emitSeq ℓ SeqMode.blocks (start + 1) kids
      let ind := spaces ℓ.bodyIndent
      ⟨concatSrc term :: prefixLines ℓ.padBlank ind ind k.lines,
       [.mk "definitionListItem" [] none
          (.mk "term" [] none (inlNodes term) ::
            mapClaimsList (start + 1) (pfxAt ℓ.padBlank ind ind) k.nodes)]⟩
    | .lineblock ls =>
      ⟨ls.map (fun l => if l.isEmpty then "|" else "| " ++ concatSrc l),
       [.mk "line_block" [] none (clearClaimsList (lineNodes ls))]⟩
    | .comment ls =>
      let ind := spaces ℓ.bodyIndent
      ⟨prefixLines ℓ.padBlank ".. " ind ls,
       [.mk "comment" [] none (clearClaimsList [textNode (String.intercalate "\n" ls)])]⟩
    | .label name =>
      let l := ".. _" ++ name ++ ":"
      ⟨[l], [.mk "target" [("domain", .str "std"), ("name", .str "label")] (some (start, l))
              (clearClaimsList [leaf "target_identifier" [("ids", .raw ("[\"" ++ name ++ "\"]"))]])]⟩
    | .directive name domain arg opts kids =>
      let ind := spaces ℓ.bodyIndent
      let l0 := ".. " ++ name ++ "::" ++ (if arg.isEmpty then "" else " " ++ concatSrc arg)
      let head := l0 :: opts.map (fun o => ind ++ optLine o)
      let g := if kids.isEmpty then 0 else ℓ.gapAt start
      let k := emitSeq ℓ SeqMode.blocks (start + head.length + g) kids
      ⟨head ++ blanks g ++ prefixLines ℓ.padBlank ind ind k.lines,
       [.mk "directive"
          [("domain", .str domain), ("name", .str name)] (some (start, l0))
          (.mk "argument" [] none (inlNodes arg) ::
           .mk "options" (optAttrs opts) none [] ::
           mapClaimsList (start + head.length + g) (pfxAt ℓ.padBlank ind ind) k.nodes)]⟩
    | .directiveML name domain nextLine arg kids =>
      let ind := spaces ℓ.bodyIndent
      let al := inlLines arg ""
      let l0 := if nextLine then ".. " ++ name ++ "::" else ".. " ++ name ++ ":: " ++ headLine al
      let l1 := ind ++ headLine al
      let head := if nextLine then l0 :: l1 :: (al.drop 1).map (fun l => ind ++ l) else l0 :: (al.drop 1).map (fun l => ind ++ l)
      let g := if kids.isEmpty then 0 else ℓ.gapAt start
      let k := emitSeq ℓ SeqMode.blocks (start + head.length + g) kids
      ⟨head ++ blanks g ++ prefixLines ℓ.padBlank ind ind k.lines,
       [.mk "directive"
          [("domain", .str domain), ("name", .str name)] (some (start, l0))
          (.mk "argument" [] none [] ::
           .mk "options" [] none [] ::
           .mk "paragraph" [] (if nextLine then some (start + 1, l1) else some (start, l0)) (inlNodes arg) ::
           mapClaimsList (start + head.length + g) (pfxAt ℓ.padBlank ind ind) k.nodes)]⟩
    | .code dirname lang opts attrs ls =>
      let ind := spaces ℓ.bodyIndent
      let l0 := ".. " ++ dirname ++ "::" ++ (match lang with | some l => " " ++ l | none => "")
      let head := l0 :: opts.map (fun o => ind ++ optLine o)
      let g := if ls.isEmpty then 0 else ℓ.gapAt start
      ⟨head ++ blanks g ++ prefixLines ℓ.padBlank ind ind ls,
       [.mk "code"
          ([("lang", match lang with | some l => Val.str l | none => Val.null),
            ("value", .str (String.intercalate "\n" ls))] ++ attrs)
          (some (start, l0)) []]⟩
    | .transition style len =>
      let l := repeatChar style len
      ⟨[l], [.mk "transition" [] (some (start, l)) []]⟩
    | .footnote name kids =>
      let ind := spaces ℓ.bodyIndent
      let first := ".. [#" ++ name ++ "] "
      let k := emitSeq ℓ SeqMode.blocks start kids
      let lines := prefixLines ℓ.padBlank first ind k.lines
      ⟨(if lines.isEmpty then [".. [#" ++ name ++ "]"] else lines),
       [.mk "footnote" [("name", .str name)] (some (start, headLine (if lines.isEmpty then [".. [#" ++ name ++ "]"] else lines)))
          (mapClaimsList start (pfxAt ℓ.padBlank first ind) k.nodes)]⟩
    | .substdef name xs =>
      let l := ".. |" ++ name ++ "| replace:: " ++ concatSrc xs
      ⟨[l], [.mk "substitution_definition" [("name", .str name)] (some (start, l)) (inlNodes xs)]⟩
    | .blocksub name =>
      let l := "|" ++ name ++ "|"
      ⟨[l], [.mk "substitution_reference" [("name", .str name)] (some (start, l)) []]⟩
    | .namedtarget name uri =>
      let l := ".. _" ++ name ++ ": " ++ uri
      ⟨[l], [.mk "named_reference" [("refname", .str name), ("refuri", .str uri)] (some (start, l)) []]⟩

  /-- a sequence of blocks / list items / definition items starting at line `start` -/
  def emitSeq (ℓ : Layout) (mode : SeqMode) (start : Nat) : List Blk → Out
    | [] => ⟨[], []⟩
    | b :: bs =>
      match mode with
      | .blocks =>
        let o := emit ℓ start b
        match bs with
        | [] => o
        | _ :: _ =>
          let g := ℓ.gapAt (start + o.lines.length)
          let r := emitSeq ℓ .blocks (start + o.lines.length + g) bs
          ⟨o.lines ++ blanks g ++ r.lines, o.nodes ++ r.nodes⟩
      | .bullets marker sep =>
        let o := emit ℓ start b
        let first := marker ++ spaces ℓ.bulletPad
        let rest := spaces first.length
        let lines := prefixLines ℓ.padBlank first rest o.lines
        let node := ENode.mk "listItem" [] none (mapClaimsList start (pfxAt ℓ.padBlank first rest) o.nodes)
        match bs with
        | [] => ⟨lines, [node]⟩
        | _ :: _ =>
          let r := emitSeq ℓ (.bullets marker sep) (start + lines.length + sep) bs
          ⟨lines ++ blanks sep ++ r.lines, node :: r.nodes⟩
      | .enums seq fmt ord auto sep =>
        let o := emit ℓ start b
        let first := enumMarker fmt (if auto then "#" else enumText seq ord) ++ spaces ℓ.bulletPad
        let rest := spaces first.length
        let lines := prefixLines ℓ.padBlank first rest o.lines
        let node := ENode.mk "listItem" [] none (mapClaimsList start (pfxAt ℓ.padBlank first rest) o.nodes)
        match bs with
        | [] => ⟨lines, [node]⟩
        | _ :: _ =>
          let r := emitSeq ℓ (.enums seq fmt (ord + 1) auto sep) (start + lines.length + sep) bs
          ⟨lines ++ blanks sep ++ r.lines, node :: r.nodes⟩
      | .defs =>
        let o := emit ℓ start b
        match bs with
        | [] => o
        | _ :: _ =>
          let g := ℓ.gapAt (start + o.lines.length)
          let r := emitSeq ℓ .defs (start + o.lines.length + g) bs
          ⟨o.lines ++ blanks g ++ r.lines, o.nodes ++ r.nodes⟩
end

/-- the whole document -/
def emitDoc (ℓ : Layout) (bs : List Blk) : Out :=
  let o := emitSeq ℓ SeqMode.blocks 0 bs
  ⟨o.lines ++ blanks ℓ.trailing, [.mk "root" [] none o.nodes]⟩

def render (ℓ : Layout) (bs : List Blk) : List String := (emitDoc ℓ bs).lines
def expected (ℓ : Layout) (bs : List Blk) : List ENode := (emitDoc ℓ bs).nodes

end SnootyVerif.DocLang
