/-!
# Model of the open project: environment, parsed-page store, incremental operations (C12)

Mirrors, at the level of "which files are re-parsed and which stored pages are replaced / dropped":

* `snooty/parser.py` `_Project.update`, `delete`, `_page_updated`, `update_asset`, `build`, `postprocess`
  and the asset dependency graph `asset_dg`;
* `snooty/page_database.py` `PageDatabase` (`_parsed : key ↦ (page, source fileid, diagnostics)`,
  the cached postprocessor result and the dirty mark that gates re-running it);
* `snooty/gizaparser/domain.py` `GizaYamlDomain.update` / `delete` (one YAML source yields several pages).

The parser itself is abstract: `parse e p` is the list of `(output key, page)` a source file `p` yields in
environment `e`, `reads e p` the files that parse looked at (content *or* existence). The footprint law
is a structure field, i.e. an explicit hypothesis of everything proved about a `Parser` — not an axiom.
`Page` stands for the whole stored tuple (page, diagnostics). The postprocessor is an arbitrary function
of the store. Python dict writes are modelled as pointwise function update (`putAll` folds over the
produced pages in order: the later page wins, as `self.pages[key] = …` does).
-/
namespace SnootyVerif.Project

/-- the files the project can see: `none` = does not exist. Editor buffers shadow the disk. -/
abbrev Env (Path Content : Type) := Path → Option Content

/-- `PageDatabase._parsed`: output key ↦ (parse result, fileid of the source it came from) -/
abbrev Store (Path Key Page : Type) := Key → Option (Page × Path)

structure Parser (Path Key Page Content : Type) where
  /-- the pages a source yields (an rst file: one page; a giza YAML file: one per entry) -/
  parse : Env Path Content → Path → List (Key × Page)
  /-- every path whose content or existence the parse depended on -/
  reads : Env Path Content → Path → List Path
  /-- **footprint law**: the parse result is determined by what was read -/
  footprint : ∀ (e e' : Env Path Content) (p : Path), (∀ f ∈ reads e p, e f = e' f) → parse e p = parse e' p

inductive Op (Path Content : Type) where
  /-- `project.update(p)` after the file changed on disk, or `project.update(p, text)` from an editor buffer -/
  | update (p : Path) (c : Content)
  /-- a new file: the language server maps `Created` to the same `project.update(p)` -/
  | create (p : Path) (c : Content)
  /-- `project.delete(p)` -/
  | delete (p : Path)
  /-- `project.postprocess()` -/
  | postprocess

section
variable {Path Key Page Content Result : Type} [DecidableEq Path] [DecidableEq Key]

def Op.touched : Op Path Content → Option Path
  | .update p _ => some p
  | .create p _ => some p
  | .delete p => some p
  | .postprocess => none

/-- effect of an operation on the environment -/
def Op.env (op : Op Path Content) (e : Env Path Content) : Env Path Content :=
  match op with
  | .update p c => fun q => if q = p then some c else e q
  | .create p c => fun q => if q = p then some c else e q
  | .delete p => fun q => if q = p then none else e q
  | .postprocess => e

def envAfter (e : Env Path Content) : List (Op Path Content) → Env Path Content
  | [] => e
  | op :: rest => envAfter (op.env e) rest

/-- the page a list of produced pages leaves under key `k` (the last one written) -/
def lookupLast (k : Key) : List (Key × Page) → Option Page
  | [] => none
  | (k', pg) :: rest =>
    match lookupLast k rest with
    | some x => some x
    | none => if k' = k then some pg else none

/-- `for page in pages: self.pages[page.fake_full_fileid()] = (page, source, …)` -/
def putAll (s : Store Path Key Page) (p : Path) (out : List (Key × Page)) : Store Path Key Page :=
  out.foldl (fun s kp => fun k => if k = kp.1 then some (kp.2, p) else s k) s

/-- remove every stored page whose source is `p` -/
def dropSource (s : Store Path Key Page) (p : Path) : Store Path Key Page :=
  fun k => match s k with
    | some (pg, q) => if q = p then none else some (pg, q)
    | none => none

def emptyStore : Store Path Key Page := fun _ => none

/-- what a fresh open + `build()` leaves in the store: every existing source (in discovery order `srcs`) is parsed -/
def storeOf (P : Parser Path Key Page Content) (srcs : List Path) (e : Env Path Content) : Store Path Key Page :=
  srcs.foldl (fun s p => if (e p).isSome then putAll s p (P.parse e p) else s) emptyStore

/-- re-parse one source in environment `e`: its former pages are replaced by what it yields now
(nothing if it no longer exists or is not a source) -/
def refresh (P : Parser Path Key Page Content) (srcs : List Path) (e : Env Path Content)
    (s : Store Path Key Page) (p : Path) : Store Path Key Page :=
  if p ∈ srcs ∧ (e p).isSome then putAll (dropSource s p) p (P.parse e p) else dropSource s p

/-- re-parse as the code did before the fix: pages the source no longer yields are left behind, and a
vanished source keeps all its pages unless it yields exactly itself (an rst page: `del self.pages[fileid]`) -/
def refreshAsWritten (P : Parser Path Key Page Content) (srcs : List Path) (singleOutput : Path → Bool)
    (e : Env Path Content) (s : Store Path Key Page) (p : Path) : Store Path Key Page :=
  if p ∈ srcs ∧ (e p).isSome then putAll s p (P.parse e p)
  else if singleOutput p then dropSource s p else s

/-! ## Layer 1: the store machine with explicit refresh sets -/

/-- open project: environment, parsed pages, cached postprocessor result, dirty mark -/
structure St (Path Key Page Content Result : Type) where
  env : Env Path Content
  store : Store Path Key Page
  cache : Result
  dirty : Bool

/-- open + build (which postprocesses once) -/
def St.init (P : Parser Path Key Page Content) (srcs : List Path) (post : Store Path Key Page → Result)
    (e : Env Path Content) : St Path Key Page Content Result :=
  { env := e, store := storeOf P srcs e, cache := post (storeOf P srcs e), dirty := false }

/-- one operation together with the list `R` of sources the implementation chooses to re-parse.
`postprocess` re-parses nothing: it runs `post` on (a copy of) the store iff something is marked dirty. -/
def step (P : Parser Path Key Page Content) (srcs : List Path) (post : Store Path Key Page → Result)
    (st : St Path Key Page Content Result) (x : Op Path Content × List Path) : St Path Key Page Content Result :=
  match x.1 with
  | .postprocess => if st.dirty then { st with cache := post st.store, dirty := false } else st
  | op =>
    { env := op.env st.env,
      store := x.2.foldl (refresh P srcs (op.env st.env)) st.store,
      cache := st.cache,
      dirty := true }

def run (P : Parser Path Key Page Content) (srcs : List Path) (post : Store Path Key Page → Result)
    (st : St Path Key Page Content Result) : List (Op Path Content × List Path) → St Path Key Page Content Result
  | [] => st
  | x :: rest => run P srcs post (step P srcs post st x) rest

/-- what the next `postprocess()` hands out -/
def deliver (post : Store Path Key Page → Result) (st : St Path Key Page Content Result) : Result :=
  if st.dirty then post st.store else st.cache

/-- the obligation on one operation: every existing source whose footprint contains the touched path,
and the touched path itself, is among the re-parsed sources -/
def Covers (P : Parser Path Key Page Content) (srcs : List Path) (e : Env Path Content)
    (op : Op Path Content) (R : List Path) : Prop :=
  ∀ s ∈ srcs, ∀ q, op.touched = some q → (s = q ∨ ((e s).isSome = true ∧ q ∈ P.reads e s)) → s ∈ R

/-- the obligation along a whole history (`hdep`) -/
def CoversAll (P : Parser Path Key Page Content) (srcs : List Path) :
    Env Path Content → List (Op Path Content × List Path) → Prop
  | _, [] => True
  | e, x :: rest => Covers P srcs e x.1 x.2 ∧ CoversAll P srcs (x.1.env e) rest

/-! ## Layer 2: the re-parse sets the code computes (asset dependency graph) -/

/-- `_Project` bookkeeping: `graph s` = the edges `s → asset` recorded by `_page_updated` at the last parse of `s` -/
structure CodeSt (Path Key Page Content Result : Type) extends St Path Key Page Content Result where
  graph : Path → List Path

/-- which sources `update(q)` / `delete(q)` re-parse: a source file is re-parsed itself; for any other file
the predecessors in the dependency graph are (`update_asset`) -/
def chosen (srcs : List Path) (graph : Path → List Path) (q : Path) : List Path :=
  if q ∈ srcs then [q] else srcs.filter (fun s => decide (q ∈ graph s))

/-- graph maintenance of `_page_updated` (node removed, edges re-added) and of `delete` (node removed) -/
def regraph (recorded : Env Path Content → Path → List Path) (srcs : List Path) (e : Env Path Content)
    (R : List Path) (g : Path → List Path) : Path → List Path :=
  fun s => if s ∈ R then (if s ∈ srcs ∧ (e s).isSome then recorded e s else []) else g s

def codeStep (P : Parser Path Key Page Content) (recorded : Env Path Content → Path → List Path)
    (srcs : List Path) (post : Store Path Key Page → Result)
    (st : CodeSt Path Key Page Content Result) (op : Op Path Content) : CodeSt Path Key Page Content Result :=
  match op.touched with
  | none => { toSt := step P srcs post st.toSt (op, []), graph := st.graph }
  | some q =>
    let R := chosen srcs st.graph q
    { toSt := step P srcs post st.toSt (op, R), graph := regraph recorded srcs (op.env st.env) R st.graph }

def codeRun (P : Parser Path Key Page Content) (recorded : Env Path Content → Path → List Path)
    (srcs : List Path) (post : Store Path Key Page → Result)
    (st : CodeSt Path Key Page Content Result) : List (Op Path Content) → CodeSt Path Key Page Content Result
  | [] => st
  | op :: rest => codeRun P recorded srcs post (codeStep P recorded srcs post st op) rest

def CodeSt.init (P : Parser Path Key Page Content) (recorded : Env Path Content → Path → List Path)
    (srcs : List Path) (post : Store Path Key Page → Result) (e : Env Path Content) :
    CodeSt Path Key Page Content Result :=
  { toSt := St.init P srcs post e,
    graph := fun s => if s ∈ srcs ∧ (e s).isSome then recorded e s else [] }

/-! ## Layer 3: sources that read other sources

A page may read another SOURCE file while it is parsed: `literalinclude` of an `.rst` / `.yaml` file (content), a `:doc:`
role or a card url (existence). `_page_updated` keeps, on each dependency edge, what the file held when it was read
(`hash`); `update(q)` of a source re-parses `q` and - `update_dependents(q, only_changed=True)` - the sources whose edge
to `q` holds something else than `q` holds now; a create or a delete re-parses every source with an edge to `q`
(`update_dependents(q)`), and so does `update_asset` for a file that is not a source. -/

/-- the weaker obligation this policy meets: a reader of the touched path has to be re-parsed only if what the path
holds really changed -/
def CoversCh (P : Parser Path Key Page Content) (srcs : List Path) (e : Env Path Content)
    (op : Op Path Content) (R : List Path) : Prop :=
  ∀ s ∈ srcs, ∀ q, op.touched = some q →
    (s = q ∨ ((e s).isSome = true ∧ q ∈ P.reads e s ∧ op.env e q ≠ e q)) → s ∈ R

structure CodeSt3 (Path Key Page Content Result : Type) extends St Path Key Page Content Result where
  /-- `graph s` = the edges `s → (file, what it held)` recorded at the last parse of `s` -/
  graph : Path → List (Path × Option Content)

/-- the sources `update(q)` / `delete(q)` re-parse -/
def chosen3 [DecidableEq Content] (srcs : List Path) (graph : Path → List (Path × Option Content))
    (e : Env Path Content) (op : Op Path Content) (q : Path) : List Path :=
  let now := op.env e q
  -- `update_dependents(q)` without `only_changed` (created / deleted) or `update_asset(q)` (not a source)
  let all := decide (q ∉ srcs) || (e q).isNone || now.isNone
  (if q ∈ srcs then [q] else []) ++
    srcs.filter (fun s => decide (s ≠ q) && (graph s).any (fun rc => decide (rc.1 = q) && (all || decide (rc.2 ≠ now))))

def regraph3 (recorded : Env Path Content → Path → List (Path × Option Content)) (srcs : List Path)
    (e : Env Path Content) (R : List Path) (g : Path → List (Path × Option Content)) :
    Path → List (Path × Option Content) :=
  fun s => if s ∈ R then (if s ∈ srcs ∧ (e s).isSome then recorded e s else []) else g s

def codeStep3 [DecidableEq Content] (P : Parser Path Key Page Content)
    (recorded : Env Path Content → Path → List (Path × Option Content))
    (srcs : List Path) (post : Store Path Key Page → Result)
    (st : CodeSt3 Path Key Page Content Result) (op : Op Path Content) : CodeSt3 Path Key Page Content Result :=
  match op.touched with
  | none => { toSt := step P srcs post st.toSt (op, []), graph := st.graph }
  | some q =>
    let R := chosen3 srcs st.graph st.env op q
    { toSt := step P srcs post st.toSt (op, R), graph := regraph3 recorded srcs (op.env st.env) R st.graph }

def codeRun3 [DecidableEq Content] (P : Parser Path Key Page Content)
    (recorded : Env Path Content → Path → List (Path × Option Content))
    (srcs : List Path) (post : Store Path Key Page → Result)
    (st : CodeSt3 Path Key Page Content Result) : List (Op Path Content) → CodeSt3 Path Key Page Content Result
  | [] => st
  | op :: rest => codeRun3 P recorded srcs post (codeStep3 P recorded srcs post st op) rest

def CodeSt3.init (P : Parser Path Key Page Content)
    (recorded : Env Path Content → Path → List (Path × Option Content))
    (srcs : List Path) (post : Store Path Key Page → Result) (e : Env Path Content) :
    CodeSt3 Path Key Page Content Result :=
  { toSt := St.init P srcs post e,
    graph := fun s => if s ∈ srcs ∧ (e s).isSome then recorded e s else [] }

/-! ## Layer 4: two sources which yield one output key (fix 70b888c)

`self.pages` holds one page per output key: where two YAML files define one ref it is the page of the file
generated last. When that file stops yielding the key (it is deleted, or the entry is taken out of it) the
key is dropped from the store, and `_Project._regenerate_other_generators` generates the *other* files
which yield a dropped key again. (The code asks `GizaCategory.outputs`, what each file yielded the last
time it was generated; the model asks what it yields in the current environment.) -/

/-- the keys among `keys` filed under source `p` which `out`, what `p` yields now, does not hold any more -/
def droppedKeys (keys : List Key) (s : Store Path Key Page) (p : Path) (out : List (Key × Page)) : List Key :=
  keys.filter (fun k => match s k with
    | some (_, q) => decide (q = p) && !(out.any (fun kp => decide (kp.1 = k)))
    | none => false)

/-- `GizaYamlDomain.other_generators`: the existing sources other than `p` which yield one of the dropped keys -/
def otherGenerators (P : Parser Path Key Page Content) (srcs : List Path) (e : Env Path Content)
    (p : Path) (dropped : List Key) : List Path :=
  srcs.filter (fun q => decide (q ≠ p) && (e q).isSome && (P.parse e q).any (fun kp => decide (kp.1 ∈ dropped)))

/-- re-parse one source and then every other source which yields a key that was dropped on the way -/
def refreshShared (P : Parser Path Key Page Content) (srcs : List Path) (keys : List Key) (e : Env Path Content)
    (s : Store Path Key Page) (p : Path) : Store Path Key Page :=
  let out := if p ∈ srcs ∧ (e p).isSome then P.parse e p else []
  (otherGenerators P srcs e p (droppedKeys keys s p out)).foldl (refresh P srcs e) (refresh P srcs e s p)

def stepShared (P : Parser Path Key Page Content) (srcs : List Path) (keys : List Key) (post : Store Path Key Page → Result)
    (st : St Path Key Page Content Result) (x : Op Path Content × List Path) : St Path Key Page Content Result :=
  match x.1 with
  | .postprocess => if st.dirty then { st with cache := post st.store, dirty := false } else st
  | op =>
    { env := op.env st.env,
      store := x.2.foldl (refreshShared P srcs keys (op.env st.env)) st.store,
      cache := st.cache,
      dirty := true }

def runShared (P : Parser Path Key Page Content) (srcs : List Path) (keys : List Key) (post : Store Path Key Page → Result)
    (st : St Path Key Page Content Result) : List (Op Path Content × List Path) → St Path Key Page Content Result
  | [] => st
  | x :: rest => runShared P srcs keys post (stepShared P srcs keys post st x) rest

/-! ## The code before the fix (store part only) -/

/-- `update` / `delete` as written before the fix: stale outputs of a multi-output source are never dropped -/
def stepAsWritten (P : Parser Path Key Page Content) (srcs : List Path) (singleOutput : Path → Bool)
    (es : Env Path Content × Store Path Key Page) (x : Op Path Content × List Path) :
    Env Path Content × Store Path Key Page :=
  match x.1 with
  | .postprocess => es
  | op => (op.env es.1, x.2.foldl (refreshAsWritten P srcs singleOutput (op.env es.1)) es.2)

def runAsWritten (P : Parser Path Key Page Content) (srcs : List Path) (singleOutput : Path → Bool)
    (es : Env Path Content × Store Path Key Page) : List (Op Path Content × List Path) →
    Env Path Content × Store Path Key Page
  | [] => es
  | x :: rest => runAsWritten P srcs singleOutput (stepAsWritten P srcs singleOutput es x) rest

end
end SnootyVerif.Project
