/-!
# C01 — the visitor's `isinstance` dispatch, exception handlers, reporter threshold

Mirrors `snooty/parser.py`:

* `JSONVisitor.dispatch_visit` is an ordered chain `if isinstance(node, C₁): … elif isinstance(node, C₂): … else: …`.
  `isinstance(node, C)` holds iff `C` occurs in the MRO of `type(node)`. `firstMatch` walks the chain in order.
  Each branch is abstracted to the list of ways it can leave the function (tags produced by the translator
  `harness/gen_c01.py`: `push`, `diag`, `ret`, `skipNode`, `skipDeparture`, `skipChildren`, `raise:<Exception>`).
* `InlineJSONVisitor.dispatch_visit` first returns for block-level nodes (`Body` but neither `Inline` nor
  `system_message`) and otherwise delegates.
* `caughtBy` is Python's `try/except` clause selection: first handler one of whose classes is in the MRO of the
  raised exception.
* `reporterRaises` is `Reporter.system_message`: `if level >= self.halt_level: raise SystemMessage`.

The tables themselves (`Gen/Dispatch.lean`, `Gen/NodeKinds.lean`, `Gen/Emitted.lean`, `Gen/Enum.lean`) are regenerated
from the repo on every run.
-/
namespace SnootyVerif.Dispatch

/-- outcome tags that do NOT propagate an exception out of `walkabout` (Skip* are caught by `Node.walkabout`) -/
def okTags : List String := ["push", "diag", "ret", "skipNode", "skipDeparture", "skipChildren", "skipSiblings", "stopTraversal"]

def isRaise (t : String) : Bool := !(okTags.contains t)

def outcomeOk (out : List String) : Bool := out.all (fun t => !isRaise t)

/-- `isinstance(node, (c₁, …, cₙ))` for a node whose class has MRO `mro` -/
def meets (classes mro : List String) : Bool := classes.any (fun c => mro.contains c)

/-- the first branch of the chain whose test succeeds; the `else` outcome when none does -/
def firstMatch (chain : List (List String × List String)) (elseOut : List String) (mro : List String) : List String :=
  match chain with
  | [] => elseOut
  | (cs, out) :: rest => if meets cs mro then out else firstMatch rest elseOut mro

def lookup (kinds : List (String × List String)) (k : String) : Option (List String) :=
  match kinds with
  | [] => none
  | (n, mro) :: rest => if n == k then some mro else lookup rest k

/-- `JSONVisitor.dispatch_visit` on a node of class `k`; `none` when `k` is not a known node class -/
def dispatch (kinds : List (String × List String)) (chain : List (List String × List String)) (elseOut : List String)
    (k : String) : Option (List String) :=
  (lookup kinds k).map (firstMatch chain elseOut)

/-- `InlineJSONVisitor.dispatch_visit` -/
def dispatchInline (kinds : List (String × List String)) (chain : List (List String × List String)) (elseOut : List String)
    (skip : List String × List String) (k : String) : Option (List String) :=
  (lookup kinds k).map (fun mro => if meets skip.1 mro && !meets skip.2 mro then ["ret"] else firstMatch chain elseOut mro)

/-- every emitted kind is known and none of the ways its branch leaves the function is a raise -/
def allOk (f : String → Option (List String)) (ks : List String) : Bool :=
  ks.all (fun k => match f k with | some out => outcomeOk out | none => false)

/-! ## try/except clause selection -/

/-- handlers = [(classes of the except clause, what the handler does)] ; `excMro` = MRO of the raised exception -/
def caughtBy (handlers : List (List String × List String)) (excMro : List String) : Option (List String) :=
  match handlers with
  | [] => none
  | (cs, act) :: rest => if meets cs excMro then some act else caughtBy rest excMro

/-! ## reporter -/

/-- `Reporter.system_message(level, …)` raises `SystemMessage` iff `level >= halt_level` -/
def reporterRaises (haltLevel level : Nat) : Bool := level ≥ haltLevel

/-- docutils message levels: DEBUG 0, INFO 1, WARNING 2, ERROR 3, SEVERE 4 -/
def maxLevel : Nat := 4

end SnootyVerif.Dispatch
