/-!
# Model of diagnostic delivery (property C14)

Mirrors, import-free:
* `snooty/page_database.py`  `PageDatabase.__setitem__`, `set_orphan_diagnostics`, `merge_diagnostics`
* `snooty/parser.py`         `filter_diagnostics`, the `backend.on_diagnostics` calls of `_Project.__init__`,
                             `_page_updated`, `build`, `postprocess`, `_Project.on_diagnostics/set_diagnostics`
* `snooty/main.py`           `Backend.on_diagnostics` (error counter), `Backend.on_update` (asset diagnostics),
                             the exit status computed at the end of `main()`
* `snooty/eventparser.py`    `FileIdStack` discipline of `EventParser.consume` (attribution of postprocess diagnostics)

Python `dict` = association list in insertion order; a `set` that is iterated = list given as a parameter.
-/
namespace SnootyVerif.Diag

/-- a diagnostic: class name (what `silence_diagnostics` matches on), zero-based line, severity
(1 info, 2 warning, 3 error = `Diagnostic.Level`), and `oid`, the identity of the Python object (`id(d)`):
the same `Diagnostic` object put into several lists has the same `oid` everywhere, two objects that merely
compare equal have different ones. -/
structure D where
  cls : String
  line : Nat
  sev : Nat
  oid : Nat
deriving DecidableEq, Repr

abbrev FileId := String
/-- `Dict[FileId, List[Diagnostic]]` -/
abbrev DMap := List (FileId × List D)

def keys (m : DMap) : List FileId := m.map (·.1)

/-- `m[k] = v` on a Python dict: replaces in place, else appends at the end. -/
def dictSet (m : DMap) (k : FileId) (v : List D) : DMap :=
  match m with
  | [] => [(k, v)]
  | (k', v') :: t => if k' = k then (k', v) :: t else (k', v') :: dictSet t k v

/-- `if k in m: m[k].extend(xs) else: m[k] = list(xs)`; also `try: lst = m[k] except KeyError: lst = []; m[k] = lst`
followed by `lst.extend(xs)`, and `defaultdict(list)[k].extend(xs)`. -/
def appendAt (m : DMap) (k : FileId) (xs : List D) : DMap :=
  match m.lookup k with
  | some l => dictSet m k (l ++ xs)
  | none => dictSet m k xs

/-- one value of `PageDatabase._parsed`: key = output file id (`page.fake_full_fileid()`),
value = `(page, page.fileid, diagnostics)`; the page itself is irrelevant here. -/
structure Out where
  out : FileId
  src : FileId
  ds : List D
deriving DecidableEq, Repr

/-- `PageDatabase.__setitem__` -/
def storeSet (m : List Out) (o : Out) : List Out :=
  match m with
  | [] => [o]
  | o' :: t => if o'.out = o.out then o :: t else o' :: storeSet t o

def pagesStore (outs : List Out) : List Out := outs.foldl storeSet []

/-- `seen = {id(d) for d in merged}; merged.extend(d for d in diagnostics if id(d) not in seen)` -/
def accum (merged : List D) (ds : List D) : List D :=
  merged ++ ds.filter (fun d => !((merged.map (·.oid)).contains d.oid))

/-- one iteration of the fixed code:
`result = {}; for _, source, diagnostics in self._parsed.values(): merged = result.setdefault(source, []); …`
— every output of a source contributes, each object once, first-seen order. -/
def parsedStep (acc : DMap) (o : Out) : DMap :=
  match acc.lookup o.src with
  | some l => dictSet acc o.src (accum l o.ds)
  | none => dictSet acc o.src (accum [] o.ds)

def parsedResult (parsed : List Out) : DMap := parsed.foldl parsedStep []

/-- the code before the fix: `{v[1]: list(v[2]) for v in self._parsed.values()}` — several outputs of one
source collapse, last wins. -/
def parsedResultOld (parsed : List Out) : DMap :=
  parsed.foldl (fun acc o => dictSet acc o.src o.ds) []

/-- `for key, diagnostics in self._orphan_diagnostics.items(): …` -/
def addOrphan (acc : DMap) (orphan : DMap) : DMap :=
  orphan.foldl (fun acc e => appendAt acc e.1 e.2) acc

/-- `for other in others: try: lst.extend(other[key]) except KeyError: pass` -/
def extendFrom (others : List DMap) (k : FileId) : List D :=
  others.flatMap (fun o => match o.lookup k with | some l => l | none => [])

/-- `for key in all_keys: …` — `order` is the iteration order of the set `all_keys`. -/
def mergeOthers (acc : DMap) (order : List FileId) (others : List DMap) : DMap :=
  order.foldl (fun acc k => appendAt acc k (extendFrom others k)) acc

/-- `all_keys`, in first-occurrence order (one admissible iteration order of the Python set). -/
def allKeys (others : List DMap) : List FileId := (others.flatMap keys).eraseDups

/-- the part of `merge_diagnostics` after the per-source dict `base` has been built -/
def mergeFrom (base : DMap) (orphan : DMap) (order : List FileId) (others : List DMap) : DMap :=
  mergeOthers (addOrphan base orphan) order others

/-- `PageDatabase.merge_diagnostics(*others)` (fixed code) -/
def mergeDiagnostics (parsed : List Out) (orphan : DMap) (order : List FileId) (others : List DMap) : DMap :=
  mergeFrom (parsedResult parsed) orphan order others

/-- `PageDatabase.merge_diagnostics(*others)` before the fix (last output wins) -/
def mergeDiagnosticsOld (parsed : List Out) (orphan : DMap) (order : List FileId) (others : List DMap) : DMap :=
  mergeFrom (parsedResultOld parsed) orphan order others

/-- `filter_diagnostics(config, diagnostics)` with `S = config.silence_diagnostics` -/
def filterDiagnostics (S : List String) (ds : List D) : List D :=
  if S.isEmpty then ds else ds.filter (fun d => !(S.contains d.cls))

/-! ## what the specification talks about -/

/-- all entries of a map filed under `f`, concatenated -/
def getAll (m : DMap) (f : FileId) : List D := m.flatMap (fun e => if e.1 = f then e.2 else [])

/-- everything the parse producer reported about source `f` (one list per output) -/
def parsedAll (parsed : List Out) (f : FileId) : List D :=
  parsed.flatMap (fun o => if o.src = f then o.ds else [])

/-- first occurrences by object identity, in order, appended to `acc` -/
def dedupInto (acc : List D) : List D → List D
  | [] => acc
  | d :: t => if (acc.map (·.oid)).contains d.oid then dedupInto acc t else dedupInto (acc ++ [d]) t

/-- what the fixed comprehension holds for source `f` -/
def parsedUnion (parsed : List Out) (f : FileId) : List D :=
  parsed.foldl (fun l o => if o.src = f then accum l o.ds else l) []

/-- "a list never holds the same object twice" -/
def OutputsNodup (parsed : List Out) : Prop := ∀ o ∈ parsed, (o.ds.map (·.oid)).Nodup

/-- "the identity determines the object" (over the diagnostics of a build) -/
def IdsFaithful (ds : List D) : Prop := ∀ a ∈ ds, ∀ b ∈ ds, a.oid = b.oid → a = b

/-- the list of the last output of source `f` (what the code before the fix kept) -/
def parsedLast (parsed : List Out) (f : FileId) : Option (List D) :=
  parsed.foldl (fun acc o => if o.src = f then some o.ds else acc) none

def srcs (parsed : List Out) : List FileId := parsed.map (·.src)

/-- "outputs sharing a source carry equal lists" -/
def EqualLists (parsed : List Out) : Prop :=
  ∀ a ∈ parsed, ∀ b ∈ parsed, a.src = b.src → a.ds = b.ds

def mergedAt (m : DMap) (f : FileId) : List D := (m.lookup f).getD []

/-! ## delivery streams of a build -/

/-- the producers of one `Project(...)` + `build()`:
`cfg` the file id of snooty.toml; `init` the batches of `__init__` (fetch, config, one per substitution, one per banner);
`parsedA` the `_page_updated` calls for rst/.ast pages, `nested` the nested-project map, `parsedB` the yaml pages,
`orphan` the yaml diagnostics without page, `post` = `PostprocessorResult.diagnostics`, `order` = set order in the merge. -/
structure Producers where
  cfg : FileId
  init : List (List D)
  parsedA : List Out
  nested : DMap
  parsedB : List Out
  orphan : DMap
  post : DMap
  order : List FileId
deriving Repr

abbrev Stream := List (FileId × List D)

/-- `self.initialization_diagnostics` (a `defaultdict(list)`, touched only under `if batch:`) -/
def initMap (cfg : FileId) (init : List (List D)) : DMap :=
  init.foldl (fun acc b => if b.isEmpty then acc else appendAt acc cfg b) []

def filtered (S : List String) (m : Stream) : Stream := m.map (fun e => (e.1, filterDiagnostics S e.2))

def outEvents (outs : List Out) : Stream := outs.map (fun o => (o.src, o.ds))

/-- every call of `backend.on_diagnostics` made by `_Project` (fixed code: `__init__` filters and uses one spelling) -/
def onStream (S : List String) (p : Producers) : Stream :=
  filtered S ((p.init.filter (fun b => !b.isEmpty)).map (fun b => (p.cfg, b)))
  ++ filtered S (outEvents p.parsedA)
  ++ filtered S p.nested
  ++ filtered S (outEvents p.parsedB)
  ++ filtered S p.orphan
  ++ filtered S p.post

/-- the code before the fix: `__init__` called `backend.on_diagnostics` directly (no filter), and filed the
substitution/banner batches under a second spelling `cfg2` of the configuration file. `second` says which
batches went under `cfg2`. -/
def onStreamOrig (S : List String) (cfg2 : FileId) (second : List Bool) (p : Producers) : Stream :=
  ((p.init.zip second).filter (fun b => !b.1.isEmpty)).map (fun b => (if b.2 then cfg2 else p.cfg, b.1))
  ++ filtered S (outEvents p.parsedA)
  ++ filtered S p.nested
  ++ filtered S (outEvents p.parsedB)
  ++ filtered S p.orphan
  ++ filtered S p.post

def finalMerged (p : Producers) : DMap :=
  mergeDiagnostics (pagesStore (p.parsedA ++ p.parsedB)) p.orphan p.order [p.post, initMap p.cfg p.init]

/-- every call of `backend.set_diagnostics` -/
def setStream (S : List String) (p : Producers) : Stream := filtered S (finalMerged p)

/-- per-file view of a stream: everything delivered under `f`, in order -/
def deliveredAt (s : Stream) (f : FileId) : List D := getAll s f

/-! ## command line: error counter and exit status -/

def isError (d : D) : Bool := decide (3 ≤ d.sev)

/-- `Backend.total_errors` after the given `on_diagnostics` calls -/
def countErrors (s : Stream) : Nat := (s.flatMap (·.2)).countP isError

/-- the end of `main()`: `exit_code = 0; if args["build"] and backend.total_errors > 0:
exit_code = 1 if project.config.fail_on_diagnostics else EXIT_STATUS_ERROR_DIAGNOSTICS (= 2)` -/
def exitCode (build : Bool) (errors : Nat) (failOnDiagnostics : Bool) : Nat :=
  if build && decide (errors > 0) then (if failOnDiagnostics then 1 else 2) else 0

/-- `except ProjectLoadError: backend.close(); sys.exit(1)` happens before anything else -/
def mainExit (loadError : Bool) (build : Bool) (errors : Nat) (failOnDiagnostics : Bool) : Nat :=
  if loadError then 1 else exitCode build errors failOnDiagnostics

/-- the calls reaching `main.Backend.on_diagnostics` during `snooty build`: those of `_Project`, then those of
`Backend.on_update` for asset diagnostics (fixed code: filtered with the project's silence list). -/
def cliStream (S : List String) (p : Producers) (assets : Stream) : Stream :=
  onStream S p ++ filtered S assets

def cliExit (S : List String) (p : Producers) (assets : Stream) (fail : Bool) : Nat :=
  mainExit false true (countErrors (cliStream S p assets)) fail

/-! ## attribution: `EventParser.consume` and `FileIdStack` -/

/-- an AST reduced to what matters: a `Root` node carries a file id (the page itself, or an expanded include),
`fault t` is a node on which a handler appends diagnostic `t` to `context.diagnostics[fileid_stack.current]`. -/
inductive Node where
  | fault : D → Node
  | plain : List Node → Node
  | root : FileId → List Node → Node

mutual
/-- `_iterate`: push on `Root`, fire `enter_node` (which may file a diagnostic under `stack[-1]`), children, pop.
An empty stack makes `fileid_stack.current` raise IndexError: `none`. -/
def walk (stack : List FileId) (acc : Stream) : Node → Option Stream
  | .fault d => match stack.getLast? with
      | some cur => some (acc ++ [(cur, [d])])
      | none => none
  | .plain cs => walkList stack acc cs
  | .root f cs => walkList (stack ++ [f]) acc cs
def walkList (stack : List FileId) (acc : Stream) : List Node → Option Stream
  | [] => some acc
  | c :: cs => match walk stack acc c with
      | some acc' => walkList stack acc' cs
      | none => none
end

/-- `consume`: each page is walked from its own `Root` (so the stack is never empty) -/
def walkPage (fileid : FileId) (children : List Node) : Option Stream :=
  walk [] [] (.root fileid children)

mutual
/-- specification: the faults of a tree with the file id of the nearest enclosing `Root` -/
def owned (cur : FileId) : Node → Stream
  | .fault d => [(cur, [d])]
  | .plain cs => ownedList cur cs
  | .root f cs => ownedList f cs
def ownedList (cur : FileId) : List Node → Stream
  | [] => []
  | c :: cs => owned cur c ++ ownedList cur cs
end

end SnootyVerif.Diag

/-! ## the store under update / delete (`PageDatabase.__setitem__`, `set_orphan_diagnostics`, `__delitem__`)

What `merge_diagnostics` reads is the state the mutation history left behind. Python `del d[k]` removes the entry; a later
assignment re-adds it at the end of the dict. -/
namespace SnootyVerif.Diag

structure Store where
  parsed : List Out
  orphan : DMap
deriving Repr

inductive Op where
  /-- `db[out] = (page, src, diagnostics)` -/
  | set (o : Out)
  /-- `db.set_orphan_diagnostics(k, ds)` -/
  | setOrphan (k : FileId) (ds : List D)
  /-- `del db[k]`: forgets the stored page of that key AND the orphan diagnostics of that key; missing keys are ignored -/
  | del (k : FileId)
deriving Repr

def Store.empty : Store := ⟨[], []⟩

def Store.step (s : Store) : Op → Store
  | .set o => { s with parsed := storeSet s.parsed o }
  | .setOrphan k ds => { s with orphan := dictSet s.orphan k ds }
  | .del k => { parsed := s.parsed.filter (fun o => o.out != k), orphan := s.orphan.filter (fun e => e.1 != k) }

def Store.run (ops : List Op) : Store := ops.foldl Store.step Store.empty

def lookupOut (m : List Out) (k : FileId) : Option Out := m.find? (fun o => o.out == k)

/-- ABSTRACT SPEC (last write wins), read from the END of the history: the page stored under `k` -/
def specOut : List Op → FileId → Option Out
  | [], _ => none
  | .set o :: earlier, k => if o.out = k then some o else specOut earlier k
  | .setOrphan _ _ :: earlier, k => specOut earlier k
  | .del k' :: earlier, k => if k' = k then none else specOut earlier k

/-- ABSTRACT SPEC: the orphan diagnostics recorded for `k` -/
def specOrphan : List Op → FileId → Option (List D)
  | [], _ => none
  | .set _ :: earlier, k => specOrphan earlier k
  | .setOrphan k' ds :: earlier, k => if k' = k then some ds else specOrphan earlier k
  | .del k' :: earlier, k => if k' = k then none else specOrphan earlier k

end SnootyVerif.Diag
