/-
Model of `snooty/eventparser.py`: `FileIdStack` and `EventParser.consume / _iterate`
(properties C02, C14: which file a handler is told it is in).
-/
namespace SnootyVerif.EventWalk

inductive Nd where
  | leaf (id : Nat)
  | plain (id : Nat) (cs : List Nd)
  /-- Directive (argument walked first) / DefinitionListItem (term walked first) -/
  | pre (id : Nat) (pre : List Nd) (cs : List Nd)
  /-- `n.Root`: pushes its fileid for the duration of its subtree -/
  | root (id : Nat) (file : String) (cs : List Nd)
deriving Repr

/-- what a listener can observe: `fileid_stack.root` / `.current` (`none` = IndexError) -/
inductive Evt where
  | pageStart (root cur : Option String)
  | pageEnd (root cur : Option String)
  | enter (id : Nat) (root cur : Option String)
  | exit (id : Nat) (root cur : Option String)
deriving DecidableEq, Repr

/-- the stack with the CURRENT file first (Python list reversed) -/
abbrev Stack := List String
def Stack.cur (s : Stack) : Option String := s.head?
def Stack.root (s : Stack) : Option String := s.getLast?

def Nd.id : Nd → Nat
  | .leaf i => i | .plain i _ => i | .pre i _ _ => i | .root i _ _ => i

mutual
/-- `_iterate`: events fired and the stack afterwards -/
def iterate : Stack → Nd → List Evt × Stack
  | s, .leaf i => ([.enter i s.root s.cur, .exit i s.root s.cur], s)
  | s, .plain i cs =>
    let r := iterateL s cs
    (.enter i s.root s.cur :: r.1 ++ [.exit i r.2.root r.2.cur], r.2)
  | s, .pre i pre cs =>
    let r1 := iterateL s pre
    let r2 := iterateL r1.2 cs
    (.enter i s.root s.cur :: r1.1 ++ r2.1 ++ [.exit i r2.2.root r2.2.cur], r2.2)
  | s, .root i file cs =>
    let s1 : Stack := file :: s
    let r := iterateL s1 cs
    (.enter i s1.root s1.cur :: r.1 ++ [.exit i r.2.root r.2.cur], r.2.drop 1)
def iterateL : Stack → List Nd → List Evt × Stack
  | s, [] => ([], s)
  | s, d :: ds =>
    let r1 := iterate s d
    let r2 := iterateL r1.2 ds
    (r1.1 ++ r2.1, r2.2)
end

/-- `consume` for one page: page events use a fresh one-element stack; the walk starts from the
parser's own (empty, because cleared after every page) stack -/
def consumePage (file : String) (ast : Nd) : List Evt × Stack :=
  let r := iterate [] ast
  (.pageStart (some file) (some file) :: r.1 ++ [.pageEnd (some file) (some file)], [])

def consume : List (String × Nd) → List Evt
  | [] => []
  | (f, ast) :: ps => (consumePage f ast).1 ++ consume ps

/-! ### stack-free specification: the file a node belongs to is passed down the tree -/

mutual
def spec (rootFile : Option String) (cur : Option String) : Nd → List Evt
  | .leaf i => [.enter i rootFile cur, .exit i rootFile cur]
  | .plain i cs => .enter i rootFile cur :: specL rootFile cur cs ++ [.exit i rootFile cur]
  | .pre i pre cs => .enter i rootFile cur :: specL rootFile cur pre ++ specL rootFile cur cs ++ [.exit i rootFile cur]
  | .root i file cs =>
    let r := match rootFile with | some r => some r | none => some file
    .enter i r (some file) :: specL r (some file) cs ++ [.exit i r (some file)]
def specL (rootFile : Option String) (cur : Option String) : List Nd → List Evt
  | [] => []
  | d :: ds => spec rootFile cur d ++ specL rootFile cur ds
end

end SnootyVerif.EventWalk
