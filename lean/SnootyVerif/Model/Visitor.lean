/-!
# C01 / C03 / C04 — the visitor's node stack (`JSONVisitor.state`) over the walk of a docutils tree

Mirrors `snooty/tinydocutils/nodes.py: Node.walkabout` and the stack bookkeeping of
`snooty/parser.py: JSONVisitor.dispatch_visit / dispatch_departure`:

```
walkabout(node):                                   dispatch_departure(node):
  call_depart = True                                 if len(state) == 1 or isinstance(node, definition): return
  try:                                               popped = state.pop(); top = state[-1]
    try: dispatch_visit(node)                        if isinstance(popped, _DefinitionListTerm):
    except SkipNode: return                              assert isinstance(top, DefinitionListItem)
    except SkipDeparture: call_depart = False            top.term = popped.children; return
    for child in children[:]: child.walkabout()      if not isinstance(top, NO_CHILDREN):
  except SkipChildren: pass                              if isinstance(top, Parent): top.children.append(popped)
  if call_depart: dispatch_departure(node)               else: logger.error(...)          # dropped
                                                      … per-directive rewrites of `popped` (not bookkeeping)
```

`dispatch_visit` is abstracted, per doctree node, to the OUTCOME it had on that node: how many AST nodes it pushed
and how it left (`normal` return / `SkipNode` / `SkipDeparture` / `SkipChildren`). Which outcomes each branch of the
`isinstance` chain can have is translated from the source on every run (`Gen/VisitPaths.lean`), and the outcome
actually observed on every node of every real parse is compared with that table by the harness.

The content of the pushed node is abstracted to an id (the index of the doctree node) and the class properties the
departure looks at (`AKind`).
-/
namespace SnootyVerif.Visitor

/-- how `dispatch_visit` left -/
inductive Exit where
  | normal | skipNode | skipDeparture | skipChildren
deriving DecidableEq, Repr

/-- what `dispatch_departure` asks about an AST node: `Parent` / not a Parent (Text, Code, Transition …) /
`_DefinitionListTerm` / `DefinitionListItem` / `NO_CHILDREN` (SubstitutionReference) -/
inductive AKind where
  | parent | leaf | term | dlItem | noChildren
deriving DecidableEq, Repr

/-- a docutils node together with what the visitor did on it -/
inductive DNode where
  | mk (id : Nat) (pushes : Nat) (exit : Exit) (kind : AKind) (departSkip : Bool) (cs : List DNode)
deriving Repr

/-- the AST under construction: id, kind, `term`, `children` -/
inductive T where
  | mk (id : Nat) (kind : AKind) (term : List T) (cs : List T)
deriving Repr

def T.id : T → Nat | .mk i _ _ _ => i
def T.kind : T → AKind | .mk _ k _ _ => k
def T.term : T → List T | .mk _ _ t _ => t
def T.cs : T → List T | .mk _ _ _ c => c

inductive Err where
  /-- `state.pop()` / `state[-1]` on an empty list -/
  | indexError
  /-- `assert isinstance(top_of_state, n.DefinitionListItem)` -/
  | assertionError
deriving DecidableEq, Repr

def Err.name : Err → String
  | .indexError => "IndexError" | .assertionError => "AssertionError"

/-- `popped` leaves the stack and is attached to (or dropped under) `top` -/
def attach (top popped : T) : Except Err T :=
  if popped.kind = .term then
    if top.kind = .dlItem then .ok (.mk top.id top.kind popped.cs top.cs) else .error .assertionError
  else if top.kind = .noChildren then .ok top
  else if top.kind = .leaf then .ok top
  else .ok (.mk top.id top.kind top.term (top.cs ++ [popped]))

/-- the bookkeeping part of `dispatch_departure`; the stack has its TOP FIRST -/
def depart (departSkip : Bool) (st : List T) : Except Err (List T) :=
  if st.length = 1 ∨ departSkip then .ok st
  else match st with
    | [] => .error .indexError
    | [_] => .error .indexError
    | popped :: top :: rest => (attach top popped).map (· :: rest)

def pushN : Nat → T → List T → List T
  | 0, _, st => st
  | n + 1, t, st => pushN n t (t :: st)

mutual
/-- `Node.walkabout(visitor)` as far as `visitor.state` is concerned -/
def walk : List T → DNode → Except Err (List T)
  | st, .mk id pushes exit kind dskip cs =>
    let st1 := pushN pushes (.mk id kind [] []) st
    match exit with
    | .skipNode => .ok st1
    | .skipDeparture => walkL st1 cs
    | .skipChildren => depart dskip st1
    | .normal => (walkL st1 cs).bind (depart dskip)
def walkL : List T → List DNode → Except Err (List T)
  | st, [] => .ok st
  | st, d :: ds => (walk st d).bind (fun st1 => walkL st1 ds)
end

/-- `visitor = JSONVisitor(...); document.walkabout(visitor); visitor.state[-1]` (the stack starts empty; the result is the
LAST element of the Python list, i.e. the top) -/
def walkDoc (d : DNode) : Except Err T :=
  (walk [] d).bind (fun st => match st with | [] => .error .indexError | t :: _ => .ok t)

/-! ## the discipline every branch of `dispatch_visit` has to follow -/

/-- an outcome that keeps pushes and pops paired:
* returns normally or skips the children ⇒ pushed exactly one node (its departure pops it), or pushed nothing and
  the departure returns at once for this class (`definition`);
* `SkipNode` / `SkipDeparture` (no departure will run) ⇒ pushed nothing. -/
def balancedOutcome (pushes : Nat) (exit : Exit) (departSkip : Bool) : Bool :=
  match exit with
  | .normal => (pushes == 1 && !departSkip) || (pushes == 0 && departSkip)
  | .skipChildren => pushes == 1 && !departSkip
  | .skipNode => pushes == 0
  | .skipDeparture => pushes == 0

mutual
def balanced : DNode → Bool
  | .mk _ pushes exit _ dskip cs => balancedOutcome pushes exit dskip && balancedL cs
def balancedL : List DNode → Bool
  | [] => true
  | d :: ds => balanced d && balancedL ds
end

/-! ## stack-free specification: what a doctree node contributes to its nearest pushed ancestor -/

/-- `attach` where it succeeds; a term handed to anything but a definition list item (where `attach` raises) leaves the
host as it is -/
def attachT (top popped : T) : T :=
  match attach top popped with
  | .ok t => t
  | .error _ => top

def attachAllT : T → List T → T
  | top, [] => top
  | top, p :: ps => attachAllT (attachT top p) ps

mutual
/-- the AST nodes a doctree node hands to the enclosing AST node, in order -/
def emit : DNode → List T
  | .mk id pushes exit kind _ cs =>
    match exit with
    | .skipNode => []
    | .skipDeparture => emitL cs
    | .skipChildren => if pushes = 0 then [] else [.mk id kind [] []]
    | .normal => if pushes = 0 then emitL cs else [attachAllT (.mk id kind [] []) (emitL cs)]
def emitL : List DNode → List T
  | [] => []
  | d :: ds => emit d ++ emitL ds
end

/-! ## ids in document order (C03: reading order is preserved, nothing is duplicated) -/

mutual
def T.ids : T → List Nat
  | .mk i _ term cs => i :: (idsL term ++ idsL cs)
def idsL : List T → List Nat
  | [] => []
  | t :: ts => t.ids ++ idsL ts
end

mutual
def DNode.ids : DNode → List Nat
  | .mk i _ _ _ _ cs => i :: dIdsL cs
def dIdsL : List DNode → List Nat
  | [] => []
  | d :: ds => d.ids ++ dIdsL ds
end

/-! ## `TermsOk`: a term is only ever handed to a definition list item -/

mutual
/-- `host` = kind of the nearest pushed ancestor -/
def termsOk (host : AKind) : DNode → Bool
  | .mk _ pushes exit kind _ cs =>
    match exit with
    | .skipNode => true
    | .skipDeparture => termsOkL host cs
    | .skipChildren => pushes == 0 || kind != .term || host == .dlItem
    | .normal =>
      if pushes == 0 then termsOkL host cs
      else (kind != .term || host == .dlItem) && termsOkL kind cs
def termsOkL (host : AKind) : List DNode → Bool
  | [] => true
  | d :: ds => termsOk host d && termsOkL host ds
end

/-! ## `plain`: containers that keep what they are handed -/

mutual
/-- every pushed node is a `Parent` that keeps its children, or a leaf without children; no terms -/
def plain : DNode → Bool
  | .mk _ _ _ kind _ cs => (kind == .parent || (kind == .leaf && cs.isEmpty)) && plainL cs
def plainL : List DNode → Bool
  | [] => true
  | d :: ds => plain d && plainL ds
end

/-! ## no bookkeeping node escapes (C04): `_DefinitionListTerm` never remains in the tree -/

mutual
/-- no node of kind `term` anywhere in the tree (children and term lists) -/
def T.clean : T → Bool
  | .mk _ k term cs => k != .term && cleanL term && cleanL cs
def cleanL : List T → Bool
  | [] => true
  | t :: ts => t.clean && cleanL ts
end

/-- nothing of kind `term` strictly below the node -/
def T.cleanBelow : T → Bool
  | .mk _ _ term cs => cleanL term && cleanL cs

/-! ## paths of `Gen/VisitPaths.lean` -/

def exitOfTag (s : String) : Option Exit :=
  if s == "normal" then some .normal
  else if s == "skipNode" then some .skipNode
  else if s == "skipDeparture" then some .skipDeparture
  else if s == "skipChildren" then some .skipChildren
  else none

/-- a translated path `(pushes, exit tag, via)` of a branch whose class is (not) one the departure returns early for -/
def pathBalanced (departSkip : Bool) (p : Nat × String × String) : Bool :=
  match exitOfTag p.2.1 with
  | some e => balancedOutcome p.1 e departSkip
  | none => false

end SnootyVerif.Visitor
