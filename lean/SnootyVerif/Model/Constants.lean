/-
Model of `snooty/types.py: ProjectConfig.render_constants` / `_substitute` (property C16):
the `[constants]` table of snooty.toml is expanded top to bottom into a FRESH dict, so a
placeholder `{+name+}` sees only the already-expanded constants declared before it; any other
name (undefined, declared later, or the constant itself) is reported (`ConstantNotDeclared`) and
replaced by a zero-width space.

Which substrings are placeholders is decided by Python's regex `{\+([\w-]+)\+}` (Unicode `\w`):
the harness segments each source text with the real pattern; the model works on segments.

Import-free on purpose.
-/
namespace SnootyVerif.Constants

inductive Seg where
  | lit (s : String)      -- text between placeholders
  | ref (name : String)   -- `{+name+}`
  deriving DecidableEq, Repr

/-- what an undeclared placeholder is replaced with -/
def zwsp : String := "\u200b"

/-- `_substitute(source, constants)`: the expanded text and, in order, the names reported as
`ConstantNotDeclared`. -/
def substitute (env : List (String × String)) : List Seg → String × List String
  | [] => ("", [])
  | .lit s :: r => (s ++ (substitute env r).1, (substitute env r).2)
  | .ref n :: r =>
    match env.lookup n with
    | some v => (v ++ (substitute env r).1, (substitute env r).2)
    | none => (zwsp ++ (substitute env r).1, n :: (substitute env r).2)

/-- loop of `render_constants` with the dict `constants` built so far (`env`); TOML keys are
unique, so `constants[k] = result` appends. -/
def renderFrom (env : List (String × String)) : List (String × List Seg) → List (String × String) × List String
  | [] => (env, [])
  | (k, segs) :: rest =>
    ((renderFrom (env ++ [(k, (substitute env segs).1)]) rest).1,
     (substitute env segs).2 ++ (renderFrom (env ++ [(k, (substitute env segs).1)]) rest).2)

/-- `render_constants`: the new `constants` dict and all diagnostics -/
def render (tbl : List (String × List Seg)) : List (String × String) × List String :=
  renderFrom [] tbl

/-- the placeholder names of a source text, in order -/
def refs : List Seg → List String
  | [] => []
  | .lit _ :: r => refs r
  | .ref n :: r => n :: refs r

end SnootyVerif.Constants
