/-!
# Model of `literalinclude` / `input` / `output` (snooty/parser.py `handle_directive`,
snooty/util.py `lines_contain`, snooty/rstparser.py `parse_linenos`,
snooty/parser.py `_validate_io_code_block_children`)

Text is `List Char`.  Python's Unicode tables enter through two parameters:
`isWord` (`\w` of `re`) and `isSpace` (`str.isspace`, used by `lstrip`, `strip`, `int`).
Import-free, total, structurally recursive.
-/
namespace SnootyVerif.LitInc

abbrev Line := List Char

/-! ## `text.split("\n")` and `"\n".join(lines)` -/

/-- first line and the remaining lines of `text.split("\n")` (the result is never empty) -/
def splitNE : List Char → Line × List Line
  | [] => ([], [])
  | c :: cs =>
    let r := splitNE cs
    if c = '\n' then ([], r.1 :: r.2) else (c :: r.1, r.2)

/-- `text.split("\n")` -/
def splitLines (t : List Char) : List Line := (splitNE t).1 :: (splitNE t).2

/-- `"\n".join(lines)` -/
def joinLines : List Line → List Char
  | [] => []
  | [l] => l
  | l :: l' :: ls => l ++ '\n' :: joinLines (l' :: ls)

/-! ## `util.lines_contain`: `re.compile(rf"^\W*{re.escape(needle)}\W*$").match(line)` -/

def allNonWord (isWord : Char → Bool) (l : Line) : Bool := l.all (fun c => !isWord c)

/-- `needle\W*$` anchored at the current position -/
def matchHere (isWord : Char → Bool) : Line → Line → Bool
  | [], rest => allNonWord isWord rest
  | _ :: _, [] => false
  | n :: ns, c :: cs => n == c && matchHere isWord ns cs

/-- `^\W*needle\W*$` with backtracking over the length of the leading `\W*` -/
def matchLine (isWord : Char → Bool) (needle : Line) : Line → Bool
  | [] => matchHere isWord needle []
  | c :: cs => matchHere isWord needle (c :: cs) || (!isWord c && matchLine isWord needle cs)

/-- indices (from `i`) of the matching lines, in order: the generator `lines_contain` -/
def linesContainFrom (isWord : Char → Bool) (needle : Line) : Nat → List Line → List Nat
  | _, [] => []
  | i, l :: ls =>
    if matchLine isWord needle l then i :: linesContainFrom isWord needle (i + 1) ls
    else linesContainFrom isWord needle (i + 1) ls

def linesContain (isWord : Char → Bool) (needle : Line) (lines : List Line) : List Nat :=
  linesContainFrom isWord needle 0 lines

/-! ## diagnostics -/

inductive Diag
  | expectedPathArg      -- ExpectedPathArg
  | cannotOpen           -- CannotOpenFile
  | notFound             -- InvalidLiteralInclude '"…" not found in …'
  | ambiguous            -- AmbiguousLiteralInclude
  | order                -- InvalidLiteralInclude '"…" precedes "…"'
  | emphasize            -- InvalidLiteralInclude 'Invalid emphasize-lines specification …'
  deriving DecidableEq, Repr

/-- `_locate_text`: `next(matching_lines, -1)`, not-found diagnostic, ambiguity diagnostic
for the remaining matches. -/
def locate (ms : List Nat) : Int × List Diag :=
  match ms with
  | [] => (-1, [Diag.notFound])
  | m :: rest => ((m : Int), if rest.isEmpty then [] else [Diag.ambiguous])

/-! ## Python slicing `xs[a:b]` for arbitrary ints -/

def normIdx (n : Nat) (i : Int) : Nat :=
  if i < 0 then (i + (n : Int)).toNat else min i.toNat n

def pySlice {α : Type} (xs : List α) (a b : Int) : List α :=
  (xs.take (normIdx xs.length b)).drop (normIdx xs.length a)

/-! ## marker search + excerpt (parser.py 1310-1339, fixed order check) -/

structure Bounds where
  startAfter : Int
  endBefore : Int
  diags : List Diag
  deriving Repr

/-- the index arithmetic: `start_after`, `end_before` as they stand just before the slice -/
def bounds (isWord : Char → Bool) (sa eb : Option Line) (lines : List Line) : Bounds :=
  -- start_after = 0; if "start-after" in options: start_after = _locate_text(..) + 1
  let (startAfter, d1) :=
    match sa with
    | none => ((0 : Int), [])
    | some s => let r := locate (linesContain isWord s lines); (r.1 + 1, r.2)
  -- end_before = len(lines); if "end-before" in options: end_before = _locate_text(..)
  let (endBefore, d2) :=
    match eb with
    | none => ((lines.length : Int), [])
    | some e => locate (linesContain isWord e lines)
  -- if both requested and start_after > end_before >= 0: diagnostic (start_after already points past the marker line, so
  -- equality is the legal case of the end marker on the very next line; the code before the repair tested `>=`)
  let d3 :=
    if sa.isSome && eb.isSome && decide (startAfter > endBefore) && decide (endBefore ≥ 0)
    then [Diag.order] else []
  -- if end_before == -1: end_before = len(lines)
  let endBefore := if endBefore = -1 then (lines.length : Int) else endBefore
  { startAfter := startAfter, endBefore := endBefore, diags := d1 ++ d2 ++ d3 }

/-- `lines[start_after:end_before]` and the diagnostics of the search -/
def excerpt (isWord : Char → Bool) (sa eb : Option Line) (lines : List Line) : List Line × List Diag :=
  let b := bounds isWord sa eb lines
  (pySlice lines b.startAfter b.endBefore, b.diags)

/-! ### the code before the fix: the order check ran even with a single marker and then
formatted an unbound local (`UnboundLocalError`) -/

inductive PyErr | unboundLocal
  deriving DecidableEq, Repr

def excerptOrig (isWord : Char → Bool) (sa eb : Option Line) (lines : List Line) :
    Except PyErr (List Line × List Diag) :=
  let (startAfter, d1) :=
    match sa with
    | none => ((0 : Int), [])
    | some s => let r := locate (linesContain isWord s lines); (r.1 + 1, r.2)
  let (endBefore, d2) :=
    match eb with
    | none => ((lines.length : Int), [])
    | some e => locate (linesContain isWord e lines)
  if decide (startAfter ≥ endBefore) && decide (endBefore ≥ 0) then
    if sa.isSome && eb.isSome then
      let endBefore := if endBefore = -1 then (lines.length : Int) else endBefore
      .ok (pySlice lines startAfter endBefore, d1 ++ d2 ++ [Diag.order])
    else .error PyErr.unboundLocal
  else
    let endBefore := if endBefore = -1 then (lines.length : Int) else endBefore
    .ok (pySlice lines startAfter endBefore, d1 ++ d2)

/-! ## dedent (parser.py 1341-1369) -/

def lstrip (isSpace : Char → Bool) (l : Line) : Line := l.dropWhile isSpace

/-- `len(line) - len(line.lstrip())` -/
def indent (isSpace : Char → Bool) (l : Line) : Nat := l.length - (lstrip isSpace l).length

/-- `len(line.lstrip()) > 0` -/
def nonBlank (isSpace : Char → Bool) (l : Line) : Bool := decide ((lstrip isSpace l).length > 0)

def minList : Nat → List Nat → Nat
  | m, [] => m
  | m, x :: xs => minList (min m x) xs

/-- `min(indent(l) for l in lines if nonblank(l))`, `ValueError` (no such line) → 0 -/
def minIndent (isSpace : Char → Bool) (lines : List Line) : Nat :=
  match (lines.filter (nonBlank isSpace)).map (indent isSpace) with
  | [] => 0
  | x :: xs => minList x xs

inductive DedentOpt
  | absent
  | flag                 -- `:dedent:` → options["dedent"] is True
  | count (n : Nat)      -- `:dedent: n` (validated as nonnegative int by the option converter)
  deriving DecidableEq, Repr

def dedentAmount (isSpace : Char → Bool) (d : DedentOpt) (lines : List Line) : Nat :=
  match d with
  | .absent => 0
  | .flag => minIndent isSpace lines
  | .count n => n

/-- `[line[dedent:] for line in lines]` -/
def dedentLines (n : Nat) (lines : List Line) : List Line := lines.map (fun l => l.drop n)

/-! ## `rstparser.parse_linenos` -/

inductive LnErr
  | badInt      -- int() raised ValueError
  | negative
  | tooLarge
  | reversed
  deriving DecidableEq, Repr

def rstripSp (isSpace : Char → Bool) (l : Line) : Line := (l.reverse.dropWhile isSpace).reverse

/-- `s.strip()` -/
def strip (isSpace : Char → Bool) (l : Line) : Line := rstripSp isSpace (l.dropWhile isSpace)

def digitVal (c : Char) : Option Nat :=
  if '0' ≤ c ∧ c ≤ '9' then some (c.toNat - 48) else none

/-- decimal digits with single underscores between digits (Python's `int` grammar, ASCII digits) -/
def parseDigits : Nat → Bool → List Char → Option Nat
  | acc, prev, [] => if prev then some acc else none
  | acc, prev, c :: cs =>
    if c = '_' then (if prev && !cs.isEmpty then parseDigits acc false cs else none)
    else
      match digitVal c with
      | some d => parseDigits (acc * 10 + d) true cs
      | none => none

/-- `int(s)`; `none` = ValueError -/
def parseInt (isSpace : Char → Bool) (s : List Char) : Option Int :=
  match strip isSpace s with
  | '-' :: ds => (parseDigits 0 false ds).map (fun n => -(n : Int))
  | '+' :: ds => (parseDigits 0 false ds).map (fun n => (n : Int))
  | ds => (parseDigits 0 false ds).map (fun n => (n : Int))

/-- first piece and remaining pieces of `s.split(sep)` -/
def splitOnNE (sep : Char) : List Char → List Char × List (List Char)
  | [] => ([], [])
  | c :: cs =>
    let r := splitOnNE sep cs
    if c = sep then ([], r.1 :: r.2) else (c :: r.1, r.2)

def splitOn (sep : Char) (s : List Char) : List (List Char) := (splitOnNE sep s).1 :: (splitOnNE sep s).2

/-- `s.split("-", 1)`: (parts[0], parts[1] if present) -/
def splitDash1 : List Char → List Char × Option (List Char)
  | [] => ([], none)
  | c :: cs =>
    if c = '-' then ([], some cs)
    else let r := splitDash1 cs; (c :: r.1, r.2)

def parseTerm (isSpace : Char → Bool) (maxVal : Nat) (t : List Char) : Except LnErr (Int × Int) :=
  let parts := splitDash1 t
  match parseInt isSpace parts.1 with
  | none => .error .badInt
  | some lower =>
    let higher? : Option Int := match parts.2 with
      | none => some lower
      | some p => parseInt isSpace p
    match higher? with
    | none => .error .badInt
    | some higher =>
      if lower < 0 ∨ higher < 0 then .error .negative
      else if lower > (maxVal : Int) ∨ higher > (maxVal : Int) then .error .tooLarge
      else if lower > higher then .error .reversed
      else .ok (lower, higher)

def parseTerms (isSpace : Char → Bool) (maxVal : Nat) : List (List Char) → Except LnErr (List (Int × Int))
  | [] => .ok []
  | t :: ts =>
    match parseTerm isSpace maxVal t with
    | .error e => .error e
    | .ok p =>
      match parseTerms isSpace maxVal ts with
      | .error e => .error e
      | .ok ps => .ok (p :: ps)

def parseLinenos (isSpace : Char → Bool) (term : List Char) (maxVal : Nat) : Except LnErr (List (Int × Int)) :=
  if (strip isSpace term).isEmpty then .ok []
  else parseTerms isSpace maxVal (splitOn ',' (strip isSpace term))

/-! ## the directive handler -/

inductive FileState
  | osError                    -- `read_bytes` raised OSError (missing, directory, …)
  | undecodable                -- bytes read, `str(data, "utf-8")` raised UnicodeDecodeError
  | text (t : List Char)       -- decoded text
  deriving Repr

inductive DirName | literalinclude | input | output
  deriving DecidableEq, Repr

structure Options where
  startAfter : Option Line := none
  endBefore : Option Line := none
  dedent : DedentOpt := .absent
  emphasize : Option (List Char) := none
  language : Option String := none
  caption : Option String := none
  copyable : Option Bool := none
  linenos : Bool := false
  linenoStart : Option Nat := none
  source : Option String := none
  deriving Repr

structure Code where
  lang : Option String
  caption : Option String
  copyable : Bool
  emphasize : Option (List (Int × Int))
  value : List Char
  linenos : Bool
  linenoStart : Option Nat
  source : Option String
  deriving Repr

/-- what `self.dependencies[objective_fileid]` holds when the handler returns -/
inductive Dep
  | unset          -- never assigned (no argument)
  | noneRecorded   -- `None` (file could not be read)
  | hashed         -- blake2b of the bytes read
  deriving DecidableEq, Repr

structure Result where
  code : Option Code
  diags : List Diag
  dep : Dep
  deriving Repr

def literalInclude (isWord isSpace : Char → Bool) (name : DirName) (hasArg : Bool)
    (o : Options) (f : FileState) : Result :=
  if !hasArg then
    { code := none, diags := if name = .literalinclude then [Diag.expectedPathArg] else [], dep := .unset }
  else
    match f with
    | .osError => { code := none, diags := [Diag.cannotOpen], dep := .noneRecorded }
    | .undecodable => { code := none, diags := [Diag.cannotOpen], dep := .hashed }
    | .text t =>
      let lines := splitLines t
      let lenFile := lines.length
      let ex := excerpt isWord o.startAfter o.endBefore lines
      let n := dedentAmount isSpace o.dedent ex.1
      let out := dedentLines n ex.1
      let (emph, dE) : Option (List (Int × Int)) × List Diag :=
        match o.emphasize with
        | none => (none, [])
        | some term =>
          match parseLinenos isSpace term lenFile with
          | .ok ps => (some ps, [])
          | .error _ => (none, [Diag.emphasize])
      { code := some {
          lang := some (o.language.getD ""),
          caption := o.caption,
          copyable := match o.copyable with | none => true | some b => b,
          emphasize := emph,
          value := joinLines out,
          linenos := o.linenos,
          linenoStart := o.linenoStart,
          source := o.source },
        diags := ex.2 ++ dE,
        dep := .hashed }

/-! ## `_validate_io_code_block_children`: the parent's options overwrite four fields -/

structure ParentOpts where
  caption : Option String := none
  copyable : Option Bool := none
  source : Option String := none
  deriving Repr

def ioAdjust (p : ParentOpts) (childLanguage : Option String) (c : Code) : Code :=
  { c with
    lang := childLanguage,
    caption := p.caption,
    copyable := match p.copyable with | some true => true | _ => false,
    source := p.source }

end SnootyVerif.LitInc
