/-!
# Indented-block extraction (snooty/tinydocutils/statemachine.py)

`StringList.get_indented`, `get_text_block`, `trim_left` and the three `StateMachine` wrappers
`get_indented`, `get_known_indented`, `get_first_known_indented`.

Lines are `List Char` (already tab-expanded by `string2lines`).  `isSpace` is Python's
`str.isspace` (used by `strip`/`lstrip`); the comparison `line[0] != " "` is with U+0020 itself.
Import-free, total, structurally recursive.
-/
namespace SnootyVerif.Indent

abbrev Line := List Char

/-- `not line.strip()` -/
def isBlank (isSpace : Char → Bool) (l : Line) : Bool := l.all isSpace

/-- `len(line) - len(line.lstrip())` -/
def indentOf (isSpace : Char → Bool) (l : Line) : Nat := l.length - (l.dropWhile isSpace).length

/-- `line and (line[0] != " " or (block_indent is not None and line[:block_indent].strip()))`:
the line is not indented, or insufficiently indented -/
def unindented (isSpace : Char → Bool) (blockIndent : Option Nat) (line : Line) : Bool :=
  match line with
  | [] => false
  | c :: _ =>
    c != ' ' ||
      (match blockIndent with
       | some b => !isBlank isSpace (line.take b)
       | none => false)

/-- `indent = line_indent if indent is None else min(indent, line_indent)` -/
def minOpt (indent : Option Nat) (k : Nat) : Option Nat :=
  match indent with
  | none => some k
  | some i => some (min i k)

structure Scan where
  n : Nat                 -- number of lines the loop advanced over
  indent : Option Nat
  blankFinish : Bool
  deriving Repr, DecidableEq

/-- the `while end < last:` loop of `get_indented`.  `rest` = `data[end:]`; `prev` = `data[end-1]`
when `end > start`. -/
def scan (isSpace : Char → Bool) (untilBlank : Bool) (blockIndent : Option Nat) :
    Option Line → Option Nat → List Line → Scan
  | _, indent, [] => ⟨0, indent, true⟩          -- `else: blank_finish = True`
  | prev, indent, line :: rest =>
    if unindented isSpace blockIndent line then
      -- blank_finish = (end > start) and not self.data[end - 1].strip()
      ⟨0, indent, match prev with | some p => isBlank isSpace p | none => false⟩
    else if isBlank isSpace line then
      if untilBlank then ⟨0, indent, true⟩
      else
        let r := scan isSpace untilBlank blockIndent (some line) indent rest
        ⟨r.n + 1, r.indent, r.blankFinish⟩
    else
      let indent' := if blockIndent.isNone then minOpt indent (indentOf isSpace line) else indent
      let r := scan isSpace untilBlank blockIndent (some line) indent' rest
      ⟨r.n + 1, r.indent, r.blankFinish⟩

/-- `StringList.trim_left(length, start, end)`: `data[start:end] = [line[length:] for …]`;
`stop = none` is the default `sys.maxsize`. -/
def trimLeft (length start : Nat) (stop : Option Nat) (data : List Line) : List Line :=
  match stop with
  | none => data.take start ++ (data.drop start).map (fun l => l.drop length)
  | some e =>
    data.take start ++ ((data.take e).drop start).map (fun l => l.drop length) ++ data.drop (max start e)

structure Indented where
  block : List Line
  indent : Nat
  blankFinish : Bool
  stop : Nat        -- the final value of `end`
  deriving Repr, DecidableEq

/-- `if first_indent is not None and block: block.data[0] = block.data[0][first_indent:]` -/
def dropFirst : Option Nat → List Line → List Line
  | some f, b :: bs => b.drop f :: bs
  | _, block => block

/-- `if indent and strip_indent: block.trim_left(indent, start=(first_indent is not None))` -/
def stripBlock (indent : Option Nat) (stripIndent first : Bool) (block : List Line) : List Line :=
  match indent with
  | some i =>
    if i ≠ 0 && stripIndent then trimLeft i (if first then 1 else 0) none block else block
  | none => block

/-- `StringList.get_indented(start, until_blank, strip_indent, block_indent, first_indent)` -/
def getIndented (isSpace : Char → Bool) (data : List Line) (start : Nat)
    (untilBlank stripIndent : Bool) (blockIndent firstIndent : Option Nat) : Indented :=
  -- if block_indent is not None and first_indent is None: first_indent = block_indent
  let firstIndent := if blockIndent.isSome && firstIndent.isNone then blockIndent else firstIndent
  -- if first_indent is not None: end += 1
  let e0 := if firstIndent.isSome then start + 1 else start
  let prev := if firstIndent.isSome then data[start]? else none
  let s := scan isSpace untilBlank blockIndent prev blockIndent (data.drop e0)
  let stop := e0 + s.n
  -- block = self[start:end]
  let block := (data.take stop).drop start
  let block := dropFirst firstIndent block
  let block := stripBlock s.indent stripIndent firstIndent.isSome block
  ⟨block, s.indent.getD 0, s.blankFinish, stop⟩

inductive TextBlock
  | ok (block : List Line)
  | unexpectedIndentation (block : List Line)   -- `UnexpectedIndentationError(self[start:end], …)`
  deriving Repr, DecidableEq

/-- the loop of `get_text_block`; `acc` = number of lines already taken -/
def textScan (isSpace : Char → Bool) (flushLeft : Bool) : List Line → Nat × Bool
  | [] => (0, false)
  | line :: rest =>
    if isBlank isSpace line then (0, false)
    else if flushLeft && line.head? == some ' ' then (0, true)
    else let r := textScan isSpace flushLeft rest; (r.1 + 1, r.2)

/-- `StringList.get_text_block(start, flush_left)` -/
def getTextBlock (isSpace : Char → Bool) (data : List Line) (start : Nat) (flushLeft : Bool) : TextBlock :=
  let r := textScan isSpace flushLeft (data.drop start)
  let block := (data.take (start + r.1)).drop start
  if r.2 then .unexpectedIndentation block else .ok block

/-! ## the `StateMachine` wrappers -/

structure SM where
  lines : List Line       -- input_lines
  lineOffset : Nat
  inputOffset : Nat
  deriving Repr

structure Got where
  block : List Line
  indent : Nat
  offset : Nat            -- "its first line offset from BOF"
  blankFinish : Bool
  lineOffset : Int        -- the machine's line_offset afterwards
  deriving Repr, DecidableEq

/-- `while indented and not indented[0].strip(): indented.trim_start(); offset += 1` -/
def stripTop (isSpace : Char → Bool) : List Line → Nat → List Line × Nat
  | [], off => ([], off)
  | l :: ls, off => if isBlank isSpace l then stripTop isSpace ls (off + 1) else (l :: ls, off)

/-- `StateMachine.get_indented(until_blank, strip_indent)` -/
def smGetIndented (isSpace : Char → Bool) (sm : SM) (untilBlank stripIndent : Bool) : Got :=
  let offset := sm.lineOffset + sm.inputOffset
  let r := getIndented isSpace sm.lines sm.lineOffset untilBlank stripIndent none none
  -- if indented: self.next_line(len(indented) - 1)
  let lo : Int := if r.block.isEmpty then sm.lineOffset else (sm.lineOffset : Int) + r.block.length - 1
  let t := stripTop isSpace r.block offset
  ⟨t.1, r.indent, t.2, r.blankFinish, lo⟩

/-- `StateMachine.get_known_indented(indent, until_blank, strip_indent)` -/
def smGetKnownIndented (isSpace : Char → Bool) (sm : SM) (indent : Nat) (untilBlank stripIndent : Bool) : Got :=
  let offset := sm.lineOffset + sm.inputOffset
  let r := getIndented isSpace sm.lines sm.lineOffset untilBlank stripIndent (some indent) none
  let lo : Int := (sm.lineOffset : Int) + r.block.length - 1
  let t := stripTop isSpace r.block offset
  ⟨t.1, r.indent, t.2, r.blankFinish, lo⟩

/-- `StateMachine.get_first_known_indented(indent, until_blank, strip_indent, strip_top)` -/
def smGetFirstKnownIndented (isSpace : Char → Bool) (sm : SM) (indent : Nat)
    (untilBlank stripIndent stripTopFlag : Bool) : Got :=
  let offset := sm.lineOffset + sm.inputOffset
  let r := getIndented isSpace sm.lines sm.lineOffset untilBlank stripIndent none (some indent)
  let lo : Int := (sm.lineOffset : Int) + r.block.length - 1
  let t := if stripTopFlag then stripTop isSpace r.block offset else (r.block, offset)
  ⟨t.1, r.indent, t.2, r.blankFinish, lo⟩

end SnootyVerif.Indent
