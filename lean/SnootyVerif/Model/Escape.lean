/-!
# Backslash escapes and explicit titles
(snooty/tinydocutils/utils.py `escape2null`, `unescape`; snooty/rstparser.py
`unescape_backslashes`, `PAT_EXPLICIT_TITLE`, `parse_explicit_title`)

Text is `List Char`; `isSpace` is the class `\s` of `re` (a parameter).  Import-free, total.
-/
namespace SnootyVerif.Escape

abbrev Str := List Char

def NUL : Char := Char.ofNat 0

/-- `escape2null`: every backslash becomes NUL and the character after it is kept verbatim
(`parts.append("\x00" + text[found+1:found+2]); start = found + 2`). -/
def escape2null : Str → Str
  | [] => []
  | [c] => if c = '\\' then [NUL] else [c]
  | c :: d :: cs => if c = '\\' then NUL :: d :: escape2null cs else c :: escape2null (d :: cs)

/-- `"".join(text.split(a + b))` for a two-character separator: delete every occurrence, scanning
left to right without overlap -/
def remove2 (a b : Char) : Str → Str
  | [] => []
  | [c] => [c]
  | c :: d :: cs => if c = a ∧ d = b then remove2 a b cs else c :: remove2 a b (d :: cs)

/-- `"".join(text.split(a))` -/
def remove1 (a : Char) (s : Str) : Str := s.filter (fun c => c != a)

/-- `text.replace(a, r)` for a single character `a` -/
def replace1 (a : Char) (r : Char) (s : Str) : Str := s.map (fun c => if c = a then r else c)

/-- `text.replace(a + b, b)` (drop `a` in front of `b`), left to right without overlap -/
def dropBefore (a b : Char) : Str → Str
  | [] => []
  | [c] => [c]
  | c :: d :: cs => if c = a ∧ d = b then b :: dropBefore a b cs else c :: dropBefore a b (d :: cs)

/-- `unescape(text, restore_backslashes)` -/
def unescape (text : Str) (restoreBackslashes : Bool) : Str :=
  if restoreBackslashes then replace1 NUL '\\' text
  else remove1 NUL (remove2 NUL '\n' (remove2 NUL ' ' text))

/-- `rstparser.unescape_backslashes` -/
def unescapeBackslashes (text : Str) : Str :=
  replace1 NUL '\\' (dropBefore NUL '"' (dropBefore NUL '>' (dropBefore NUL '<' text)))

/-- index of the first `<` that is not preceded by NUL (`(?<!\x00)<`); `prev` = the character
before the list -/
def findLt : Option Char → Str → Option Nat
  | _, [] => none
  | prev, c :: cs =>
    if c = '<' ∧ prev ≠ some NUL then some 0 else (findLt (some c) cs).map (· + 1)

/-- `s.rstrip()` w.r.t. `\s` -/
def rstrip (isSpace : Char → Bool) (s : Str) : Str := (s.reverse.dropWhile isSpace).reverse

/-- where the closing `>` must be: `>$` matches at the very end or before one final newline -/
def closePos (s : Str) : Option Nat :=
  if s.getLast? = some '>' then some (s.length - 1)
  else if s.getLast? = some '\n' ∧ s.dropLast.getLast? = some '>' then some (s.length - 2)
  else none

/-- `PAT_EXPLICIT_TITLE.match(s)` = `^(?P<label>.*?)\s*(?<!\x00)<(?P<target>.*?)>$` (DOTALL):
`(label, target)`.  The lazy label ends before the whitespace run in front of the *first*
unescaped `<` that lies before the closing `>`. -/
def explicitTitle (isSpace : Char → Bool) (s : Str) : Option (Str × Str) :=
  match closePos s with
  | none => none
  | some e =>
    match findLt none (s.take e) with
    | none => none
    | some j => some (rstrip isSpace (s.take j), (s.take e).drop (j + 1))

/-- `parse_explicit_title(text)`: `(target, label or None)` -/
def parseExplicitTitle (isSpace : Char → Bool) (text : Str) : Str × Option Str :=
  match explicitTitle isSpace text with
  | some (label, target) => (unescapeBackslashes target, some (unescapeBackslashes label))
  | none => (unescapeBackslashes text, none)

end SnootyVerif.Escape
