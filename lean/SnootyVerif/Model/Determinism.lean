/-
Model of the order-normalising kernels behind build determinism (property C05).

Mirrors, for the code in /repo after the `fix:` commit that makes set members
order-independent:
* `snooty/util.py: structural_hash`             → `shashW` / `shash` (fixed) / `shashCur` (before the fix)
* `snooty/page_database.py: PageDatabase.__setitem__ / start` (dict update, `sorted(keys)`) → `snapshotOf`
* `snooty/main.py: Backend.on_update` (asset sort) and `ZipBackend.on_diagnostics / flush` → `manifestAssets`, `manifestDiagnostics`
* `snooty/rstparser.py: BaseDocutilsDirective.run` (missing required options message) → `missingOptionsMsg` / `missingOptionsMsgCur`
* `snooty/parser.py: check_valid_child` (expected children text) → `expectedChildrenStr` / `expectedChildrenStrCur`

Conventions: bytes and code points are `Nat`s; a Python `str` is the list of its code
points; a `set` is the list of its members in ENUMERATION order (the order Python's
iteration happens to produce, which depends on PYTHONHASHSEED) — every function that
iterates a set takes that list, and the determinism theorems quantify over its permutations.
The hash function (`hashlib.blake2b(digest_size=20)`) is the parameter `H`.
-/
namespace SnootyVerif.Determinism

/-! ### orders and sorting -/

/-- lexicographic `≤` on lists (Python's comparison of `str`, `bytes`, lists of path parts);
`a == b` on elements is expressed as `le a b && le b a`. -/
def lexLe {α : Type} (le : α → α → Bool) : List α → List α → Bool
  | [], _ => true
  | _ :: _, [] => false
  | a :: as, b :: bs => if le a b then (if le b a then lexLe le as bs else true) else false

def natLe (a b : Nat) : Bool := Nat.ble a b

/-- `bytes`/`str` comparison -/
def bytesLe : List Nat → List Nat → Bool := lexLe natLe

/-- comparison of `PurePosixPath`s (FileId): lexicographic on the list of parts. -/
def pathLe : List (List Nat) → List (List Nat) → Bool := lexLe bytesLe

def insertBy {α : Type} (le : α → α → Bool) (x : α) : List α → List α
  | [] => [x]
  | y :: ys => if le x y then x :: y :: ys else y :: insertBy le x ys

/-- `sorted(xs)` with `le` the element comparison (stable, like Python's). -/
def isort {α : Type} (le : α → α → Bool) : List α → List α
  | [] => []
  | x :: xs => insertBy le x (isort le xs)

/-- `sorted(xs, key=…)` -/
def keyLe {α κ : Type} (key : α → κ) (le : κ → κ → Bool) (a b : α) : Bool := le (key a) (key b)

/-! ### text helpers -/

/-- UTF-8 encoding of one code point (`bytes(s, "utf-8")`; surrogates never occur). -/
def utf8 (c : Nat) : List Nat :=
  if c < 0x80 then [c]
  else if c < 0x800 then [0xC0 + c / 64, 0x80 + c % 64]
  else if c < 0x10000 then [0xE0 + c / 4096, 0x80 + c / 64 % 64, 0x80 + c % 64]
  else [0xF0 + c / 262144, 0x80 + c / 4096 % 64, 0x80 + c / 64 % 64, 0x80 + c % 64]

def utf8s : List Nat → List Nat
  | [] => []
  | c :: cs => utf8 c ++ utf8s cs

def decAux : Nat → Nat → List Nat → List Nat
  | 0, _, acc => acc
  | f + 1, n, acc => if n < 10 then (48 + n) :: acc else decAux f (n / 10) ((48 + n % 10) :: acc)

/-- ASCII decimal digits of `n` (`f"{n}"`). -/
def dec (n : Nat) : List Nat := decAux (n + 1) n []

/-! ### structural_hash -/

inductive PyErr where
  | typeError
  deriving DecidableEq, Repr

mutual
/-- the values `structural_hash` distinguishes -/
inductive HVal where
  /-- `int | str | float | PurePath`: carries `str(obj)` -/
  | prim (text : List Nat)
  /-- a dataclass instance: fields in declaration order -/
  | record (fields : List HField)
  /-- `collections.abc.Sequence` that is not a `str` (list, tuple) -/
  | seq (members : List HVal)
  /-- `collections.abc.Set`: members in enumeration order -/
  | set (members : List HVal)
  /-- `collections.abc.Mapping` with `str` keys: entries in insertion order -/
  | map (entries : List HEntry)
  /-- `enum.Enum` member: carries `str(obj)` -/
  | enum (text : List Nat)
  | none
  /-- anything else: `raise TypeError("Unhashable type", obj)` -/
  | other
/-- `dataclasses.Field`: name, `metadata.get("nohash")`, current value -/
inductive HField where
  | mk (name : List Nat) (nohash : Bool) (val : HVal)
inductive HEntry where
  | mk (key : List Nat) (val : HVal)
end

/-- `E{len(child_hash)} ` + child_hash, for every member digest in the given order -/
def emitMembers : List (List Nat) → List Nat
  | [] => []
  | d :: ds => 69 :: dec d.length ++ [32] ++ d ++ emitMembers ds

/-- `F{len(name)} {name}` + child digest, for every (name, digest) in the given order -/
def emitFields : List (List Nat × List Nat) → List Nat
  | [] => []
  | (nm, d) :: fs => 70 :: dec nm.length ++ [32] ++ utf8s nm ++ d ++ emitFields fs

/-- `E{len(key)} {key} {len(child_hash)} ` + child digest -/
def emitEntries : List (List Nat × List Nat) → List Nat
  | [] => []
  | (k, d) :: es => 69 :: dec k.length ++ [32] ++ utf8s k ++ [32] ++ dec d.length ++ [32] ++ d ++ emitEntries es

def fieldNameLe (a b : List Nat × List Nat) : Bool := bytesLe a.1 b.1

mutual
/-- `structural_hash`, with `norm` applied to the list of member digests of a set
(`norm = id`: the code before the fix, which feeds them in enumeration order;
`norm = sorted`: the fixed code). `H` maps the bytes fed to one hasher to its digest.

Fields: Python sorts *all* fields by name and skips the `nohash` ones while iterating; the
model drops them first and sorts the remaining (name, digest) pairs, which is the same list
(names of one dataclass are distinct). A `nohash` field's value is never visited (so it
cannot raise). `O{len(fields)}` counts all fields. -/
def shashW (norm : List (List Nat) → List (List Nat)) (H : List Nat → List Nat) :
    HVal → Except PyErr (List Nat)
  | .prim t => .ok (H (80 :: utf8s t))
  | .record fs =>
    match fieldDigests norm H fs with
    | .error e => .error e
    | .ok ds => .ok (H (79 :: dec fs.length ++ [32] ++ emitFields (isort fieldNameLe ds)))
  | .seq xs =>
    match memberDigests norm H xs with
    | .error e => .error e
    | .ok ds => .ok (H (76 :: dec xs.length ++ [32] ++ emitMembers ds))
  | .set xs =>
    match memberDigests norm H xs with
    | .error e => .error e
    | .ok ds => .ok (H (76 :: dec xs.length ++ [32] ++ emitMembers (norm ds)))
  | .map es =>
    match entryDigests norm H es with
    | .error e => .error e
    | .ok ds => .ok (H (77 :: dec es.length ++ [32] ++ emitEntries ds))
  | .enum t => .ok (H (utf8s t))
  | .none => .ok (H [78])
  | .other => .error .typeError

def memberDigests (norm : List (List Nat) → List (List Nat)) (H : List Nat → List Nat) :
    List HVal → Except PyErr (List (List Nat))
  | [] => .ok []
  | x :: xs =>
    match shashW norm H x with
    | .error e => .error e
    | .ok d =>
      match memberDigests norm H xs with
      | .error e => .error e
      | .ok ds => .ok (d :: ds)

def fieldDigests (norm : List (List Nat) → List (List Nat)) (H : List Nat → List Nat) :
    List HField → Except PyErr (List (List Nat × List Nat))
  | [] => .ok []
  | .mk nm nohash v :: fs =>
    if nohash then fieldDigests norm H fs
    else
      match shashW norm H v with
      | .error e => .error e
      | .ok d =>
        match fieldDigests norm H fs with
        | .error e => .error e
        | .ok ds => .ok ((nm, d) :: ds)

def entryDigests (norm : List (List Nat) → List (List Nat)) (H : List Nat → List Nat) :
    List HEntry → Except PyErr (List (List Nat × List Nat))
  | [] => .ok []
  | .mk k v :: es =>
    match shashW norm H v with
    | .error e => .error e
    | .ok d =>
      match entryDigests norm H es with
      | .error e => .error e
      | .ok ds => .ok ((k, d) :: ds)
end

/-- the fixed `structural_hash`: member digests of a set are sorted (as `bytes`) before being fed -/
def shash (H : List Nat → List Nat) : HVal → Except PyErr (List Nat) := shashW (isort bytesLe) H

/-- `structural_hash` before the fix: member digests fed in enumeration order -/
def shashCur (H : List Nat → List Nat) : HVal → Except PyErr (List Nat) := shashW id H

/-- the "free" hash: the digest is the byte string itself (injective) -/
def freeHash : List Nat → List Nat := id

/-! ### PageDatabase: arrival of parsed pages, snapshot handed to the postprocessor -/

/-- `self._parsed[key] = value` on a dict (insertion-ordered): a known key keeps its
position and gets the new value, a new key is appended. -/
def upsert {κ π : Type} [DecidableEq κ] (k : κ) (v : π) : List (κ × π) → List (κ × π)
  | [] => [(k, v)]
  | (k', v') :: rest => if k' = k then (k', v) :: rest else (k', v') :: upsert k v rest

/-- the dict after all `__setitem__` calls, in the order pages finished parsing -/
def lastWins {κ π : Type} [DecidableEq κ] (arrivals : List (κ × π)) : List (κ × π) :=
  arrivals.foldl (fun acc kv => upsert kv.1 kv.2 acc) []

/-- `copied_pages` of `PageDatabase.start`: `for k in sorted(self._parsed.keys())`. -/
def snapshotOf {κ π : Type} [DecidableEq κ] (le : κ → κ → Bool) (arrivals : List (κ × π)) : List (κ × π) :=
  isort (keyLe Prod.fst le) (lastWins arrivals)

/-! ### output manifest -/

/-- `Backend.on_update`: `[a for a in page.static_assets if a.can_upload()]` (enumeration
order of a set) then `.sort(key=…)`. An asset is (sort key, uploadable, payload). -/
def manifestAssets {κ π : Type} (le : κ → κ → Bool) (enumeration : List (κ × Bool × π)) : List (κ × Bool × π) :=
  isort (keyLe Prod.fst le) (enumeration.filter (fun a => a.2.1))

/-- The sort key of `Backend.on_update`: `(asset.key, asset.fileid.as_posix())`, a pair of strings compared as Python
compares tuples - which is `pathLe` on the two-element list. `asset.key` is the spelling used in the source text (two
different files can share it: a relative path used in two directories); `fileid` is what makes two assets of a page
different members of the `static_assets` set. -/
def assetSortKey (key fileid : List Nat) : List (List Nat) := [key, fileid]

/-- an asset as the set holds it: (spelling, fileid, uploadable, payload) -/
abbrev Asset (π : Type) := List Nat × List Nat × Bool × π

/-- `Backend.on_update` on the set enumerated in the given order -/
def manifestOfSet {π : Type} (enumeration : List (Asset π)) : List (List (List Nat) × Bool × π) :=
  manifestAssets pathLe (enumeration.map (fun a => (assetSortKey a.1 a.2.1, a.2.2.1, a.2.2.2)))

/-- the code before the repair: `.sort(key=lambda a: a.key)` -/
def manifestOfSetKeyOnly {π : Type} (enumeration : List (Asset π)) : List (List Nat × Bool × π) :=
  manifestAssets bytesLe (enumeration.map (fun a => (a.1, a.2.2.1, a.2.2.2)))

/-- `self.diagnostics[path].extend(diagnostics)` on a `defaultdict(list)` -/
def extendAt {κ δ : Type} [DecidableEq κ] (k : κ) (ds : List δ) : List (κ × List δ) → List (κ × List δ)
  | [] => [(k, ds)]
  | (k', ds') :: rest => if k' = k then (k', ds' ++ ds) :: rest else (k', ds') :: extendAt k ds rest

/-- `ZipBackend.on_diagnostics` for every event (empty lists are dropped), then `flush`:
one `diagnostics/<key>.bson` entry per key in `sorted(keys)` order. -/
def manifestDiagnostics {κ δ : Type} [DecidableEq κ] (le : κ → κ → Bool) (events : List (κ × List δ)) :
    List (κ × List δ) :=
  isort (keyLe Prod.fst le)
    (events.foldl (fun acc e => if e.2.isEmpty then acc else extendAt e.1 e.2 acc) [])

/-! ### messages that print a collection -/

def charLe (a b : Char) : Bool := Nat.ble a.toNat b.toNat

/-- `str` comparison on `List Char` -/
def strLe : List Char → List Char → Bool := lexLe charLe

/-- `", ".join(xs)` -/
def joinComma : List (List Char) → List Char
  | [] => []
  | [x] => x
  | x :: y :: rest => x ++ [',', ' '] ++ joinComma (y :: rest)

def msgHead : List Char := ['\"', ' ', 'r', 'e', 'q', 'u', 'i', 'r', 'e', 's', ' ', 't', 'h', 'e', ' ', 'f', 'o', 'l', 'l', 'o', 'w', 'i', 'n', 'g', ' ', 'o', 'p', 't', 'i', 'o', 'n']

/-- message of `BaseDocutilsDirective.run` given the names in the order they are joined.
(`pluralization` really tests the length of the *joined string*, as the code does.) -/
def missingOptionsText (name : List Char) (joinedOrder : List (List Char)) : List Char :=
  let joined := joinComma joinedOrder
  let plural : List Char := if joined.length > 1 then ['s'] else []
  ['"'] ++ name ++ msgHead ++ plural ++ [':', ' '] ++ joined

/-- before the fix: `", ".join(missing_options)` iterates the frozenset difference;
`enumeration` is the order Python happens to enumerate it in. -/
def missingOptionsMsgCur (name : List Char) (enumeration : List (List Char)) : List Char :=
  missingOptionsText name enumeration

/-- fixed code: `", ".join(sorted(missing_options))` -/
def missingOptionsMsg (name : List Char) (enumeration : List (List Char)) : List Char :=
  missingOptionsText name (isort strLe enumeration)

/-- the set `required_options - option_names` enumerated in the order `required` is
enumerated (any permutation of it is a possible Python enumeration). -/
def missingOptions [DecidableEq α] (required present : List α) : List α :=
  required.filter (fun r => !present.contains r)

/-- `repr` of each name is a parameter (`quote`), the set display is `{a, b}`. -/
def setDisplay (quote : List Char → List Char) (xs : List (List Char)) : List Char :=
  ['{'] ++ joinComma (xs.map quote) ++ ['}']

/-- `check_valid_child` before the fix: a single expected name is printed bare, otherwise `str(set)`
in enumeration order. -/
def expectedChildrenStrCur (quote : List Char → List Char) (enumeration : List (List Char)) : List Char :=
  match enumeration with
  | [x] => x
  | xs => setDisplay quote xs

/-- fixed: the same display over `sorted(names)`. -/
def expectedChildrenStr (quote : List Char → List Char) (enumeration : List (List Char)) : List Char :=
  match enumeration with
  | [x] => x
  | xs => setDisplay quote (isort strLe xs)

end SnootyVerif.Determinism
