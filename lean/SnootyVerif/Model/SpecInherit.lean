/-
Model of `snooty/specparser.py: Spec._resolve_category` (property C16): inheritance between the
entries of one spec category (directive / role / rstobject), with the `pending` / `resolved` sets.

The model describes the code after the fix that merges the child's *own field values*
(`getattr`) instead of `dataclasses.asdict(child)` (which turned nested dataclasses into dicts).

Import-free on purpose.
-/
namespace SnootyVerif.SpecInherit

/-- One inheritable dataclass. `inherit` is kept apart; every other field is either "not set here"
(`none`: Python `None`, or the `MissingDict` / `MissingList` default sentinel) or an opaque value. -/
structure Entry where
  inherit : Option String
  fields : List (Option String)
  deriving DecidableEq, Repr

/-- the spec category: `Dict[str, Entry]` in insertion order -/
abbrev Index := List (String × Entry)

inductive ResolveErr where
  | cycle (key : String)            -- ValueError("Inheritance cycle detected while resolving …")
  | missingParent (name : String)   -- ValueError("Cannot inherit from non-existent directive …")
  | fuel                            -- recursion bound of the model exhausted (proved impossible)
  deriving DecidableEq, Repr

def keys (idx : Index) : List String := idx.map (·.1)

def lookup (idx : Index) (k : String) : Option Entry :=
  match idx with
  | [] => none
  | (k', e) :: rest => if k' = k then some e else lookup rest k

/-- `inheritable_index[key] = e` for an existing key -/
def setEntry (idx : Index) (k : String) (e : Entry) : Index :=
  idx.map (fun kv => if kv.1 = k then (kv.1, e) else kv)

/-- child value if set, else the base's -/
def mergeFields : List (Option String) → List (Option String) → List (Option String)
  | c :: cs, b :: bs => (match c with | some x => some x | none => b) :: mergeFields cs bs
  | cs, [] => cs
  | [], bs => bs

/-- `dataclasses.replace(base, **{k: v for k, v in own_fields(child) if v is not None and not Missing})`;
only reached when `child.inherit` is not `None`, so `inherit` is always among the overrides. -/
def merge (child base : Entry) : Entry :=
  { inherit := match child.inherit with | some p => some p | none => base.inherit,
    fields := mergeFields child.fields base.fields }

/-- `resolve_value(key, inheritable)`. `pending` is the set of keys on the current recursion path
(Python adds before the recursive call and removes after it returns; an exception aborts everything),
`resolved` and the index are shared state and therefore threaded. Returns the (possibly replaced)
entry, as the Python function does. The recursion depth is bounded by the fuel. -/
def resolveValue : Nat → Index → List String → List String → String → Entry →
    Except ResolveErr (Index × List String × Entry)
  | 0, _, _, _, _, _ => .error .fuel
  | fuel + 1, idx, pending, resolved, key, entry =>
    if key ∈ pending then .error (.cycle key)
    else if key ∈ resolved then .ok (idx, resolved, entry)
    else
      match entry.inherit with
      | none => .ok (idx, key :: resolved, entry)
      | some p =>
        match lookup idx p with
        | none => .error (.missingParent p)
        | some pe =>
          match resolveValue fuel idx (key :: pending) resolved p pe with
          | .error e => .error e
          | .ok (idx', resolved', base) =>
            let m := merge entry base
            .ok (setEntry idx' key m, key :: resolved', m)

/-- `for key, inheritable in inheritable_index.items(): resolve_value(key, inheritable)`.
The live `items()` view yields the *current* value of a key; a key reached unresolved still has its
original value (only keys being marked resolved are ever reassigned), and for a resolved key the
value is not looked at, so iterating over the original pairs is the same. -/
def resolveLoop (fuel : Nat) : List (String × Entry) → Index → List String →
    Except ResolveErr (Index × List String)
  | [], idx, resolved => .ok (idx, resolved)
  | (k, e) :: rest, idx, resolved =>
    match resolveValue fuel idx [] resolved k e with
    | .error err => .error err
    | .ok (idx', resolved', _) => resolveLoop fuel rest idx' resolved'

/-- `Spec._resolve_category(index)`; fuel = number of entries + 1 (see `resolve_terminates`). -/
def resolveCategory (idx : Index) : Except ResolveErr Index :=
  match resolveLoop (idx.length + 1) idx idx [] with
  | .error e => .error e
  | .ok (idx', _) => .ok idx'

/-- `inherit` link of a key in an index -/
def parentOf (idx : Index) (k : String) : Option String :=
  match lookup idx k with
  | some e => e.inherit
  | none => none

/-- follow `inherit` links `n` times -/
def ancestor (idx : Index) : Nat → String → Option String
  | 0, k => some k
  | n + 1, k => match parentOf idx k with
    | some p => ancestor idx n p
    | none => none

end SnootyVerif.SpecInherit
