/-
Model of the intersphinx inventory code (property C15).

Mirrors
* `snooty/intersphinx.py: Inventory.dumps` (4 header lines + zlib body, one
  space-joined line per target, a terminating empty line),
* `snooty/intersphinx.py: Inventory.parse` (skip 4 header lines, decompress,
  `split("\n")`, blank-line test, `INVENTORY_PATTERN.match(line.rstrip())`, role
  aliases, `$` expansion, `int()`, `split(":", 1)`, "-" display name, dict insert),
* `snooty/target_database.py: TargetDatabase.generate_inventory`,
* `snooty/n.py: FileId.as_dirhtml` / `without_known_suffix` (relative paths).

Text is `List Char`.  Python's `\s` (= `str.isspace`, used by `strip`/`rstrip`),
`\d` and `int()` on one digit are *parameters* (`PyRe`), see DESIGN section 4.

`INVENTORY_PATTERN = (.+?)\s+(\S*:\S*)\s+(-?\d+)\s(\S*)\s+(.*)` is modelled as the
recogniser it denotes under backtracking semantics:
* `(.+?)` is lazy: the engine tries name lengths 1, 2, 3, … and keeps the first
  one at which the remainder of the pattern matches (`splitName`); it can only
  be extended over characters other than '\n';
* the remainder (`parseRest`) is deterministic as long as ':' '-' and the `\d`
  characters are not `\s` and '-' is not `\d` (checked on the running Python):
  every greedy run `\s+`, `\S*`, `\d+` must be maximal because the atom that
  follows it cannot match a character of the run; `(\S*:\S*)` is then the whole
  maximal non-space token, which must contain a ':'; `(.*)` stops at '\n'.
-/
namespace SnootyVerif.Inventory

/-- the character classes of the running Python that the code depends on -/
structure PyRe where
  /-- `\s`, `str.isspace` (the set `strip()`/`rstrip()` remove) -/
  isSpace : Char → Bool
  /-- `\d` -/
  isDigit : Char → Bool
  /-- `int(c)` for a `\d` character -/
  digitVal : Char → Nat

/-- `TargetDefinition` (role = (domain, role)) -/
structure Entry where
  name : List Char
  domain : List Char
  role : List Char
  priority : Int
  uriBase : List Char
  uri : List Char
  display : Option (List Char)
deriving DecidableEq, Repr

/-- Python `str(i)` for an int -/
def showInt : Int → List Char
  | .ofNat n => Nat.toDigits 10 n
  | .negSucc n => '-' :: Nat.toDigits 10 (n + 1)

def dispOrDash : Option (List Char) → List Char
  | none => ['-']
  | some d => d

/-- one line of `dumps`: `" ".join((name, ":".join(role), str(priority), uri_base, "-" | display))` -/
def dumpLine (e : Entry) : List Char :=
  e.name ++ (' ' :: ((e.domain ++ ':' :: e.role) ++ (' ' :: (showInt e.priority ++
    (' ' :: (e.uriBase ++ (' ' :: dispOrDash e.display)))))))

/-! ### the regular expression -/

/-- groups 2–5 of INVENTORY_PATTERN -/
structure Groups where
  role : List Char
  prio : List Char
  uri : List Char
  disp : List Char
deriving DecidableEq, Repr

def nonSpace (P : PyRe) (c : Char) : Bool := !P.isSpace c

/-- `-?` followed by `\d+` (greedy, maximal): returns (group 3, what follows) -/
def parsePrio (P : PyRe) (l : List Char) : Option (List Char × List Char) :=
  match l with
  | [] => none
  | c :: r =>
    if c = '-' then
      if (r.takeWhile P.isDigit).isEmpty then none
      else some ('-' :: r.takeWhile P.isDigit, r.dropWhile P.isDigit)
    else
      if ((c :: r).takeWhile P.isDigit).isEmpty then none
      else some ((c :: r).takeWhile P.isDigit, (c :: r).dropWhile P.isDigit)

/-- `\s(\S*)\s+(.*)` -/
def parseTail (P : PyRe) (l : List Char) : Option (List Char × List Char) :=
  match l with
  | [] => none
  | s :: l5 =>
    if !P.isSpace s then none else
    match l5.dropWhile (nonSpace P) with
    | [] => none
    | w :: l6 =>
      some (l5.takeWhile (nonSpace P), ((w :: l6).dropWhile P.isSpace).takeWhile (fun c => c != '\n'))

/-- `\s+(\S*:\S*)\s+(-?\d+)\s(\S*)\s+(.*)` anchored at the start of `l` -/
def parseRest (P : PyRe) (l : List Char) : Option Groups :=
  match l with
  | [] => none
  | c :: _ =>
    if !P.isSpace c then none else
    let l1 := l.dropWhile P.isSpace
    let tok := l1.takeWhile (nonSpace P)
    if !tok.contains ':' then none else
    match l1.dropWhile (nonSpace P) with
    | [] => none
    | w :: l2 =>
      match parsePrio P ((w :: l2).dropWhile P.isSpace) with
      | none => none
      | some (prio, l4) =>
        match parseTail P l4 with
        | none => none
        | some (uri, disp) => some { role := tok, prio := prio, uri := uri, disp := disp }

/-- lazy `(.+?)` after its first character: first split point, scanning left to
right, at which the remainder parses; '.' does not match '\n'. Returns the rest
of group 1 and the other groups. -/
def splitName (P : PyRe) : List Char → Option (List Char × Groups)
  | [] => none
  | c :: cs =>
    match parseRest P (c :: cs) with
    | some g => some ([], g)
    | none =>
      if c == '\n' then none else
      match splitName P cs with
      | some (nm, g) => some (c :: nm, g)
      | none => none

/-- `INVENTORY_PATTERN.match(l)`: (group 1, groups 2–5) -/
def matchLine (P : PyRe) : List Char → Option (List Char × Groups)
  | [] => none
  | c :: cs =>
    if c == '\n' then none else
    match splitName P cs with
    | some (nm, g) => some (c :: nm, g)
    | none => none

/-! ### post-processing of a match -/

def sStd : List Char := ['s', 't', 'd']
def sPy : List Char := ['p', 'y']

/-- the `if / elif` chain on `domain_and_role`, in source order: (from, to) -/
def aliasTable : List (List Char × List Char) :=
  [ (sStd ++ ':' :: ['c', 'm', 'd', 'o', 'p', 't', 'i', 'o', 'n'], sStd ++ ':' :: ['o', 'p', 't', 'i', 'o', 'n']),
    (sStd ++ ':' :: ['d', 'o', 'c'], sStd ++ ':' :: ['e', 'x', 't', '-', 'd', 'o', 'c']),
    (sPy ++ ':' :: ['a', 't', 't', 'r', 'i', 'b', 'u', 't', 'e'], sPy ++ ':' :: ['a', 't', 't', 'r']),
    (sPy ++ ':' :: ['e', 'x', 'c', 'e', 'p', 't', 'i', 'o', 'n'], sPy ++ ':' :: ['e', 'x', 'c']),
    (sPy ++ ':' :: ['f', 'u', 'n', 'c', 't', 'i', 'o', 'n'], sPy ++ ':' :: ['f', 'u', 'n', 'c']),
    (sPy ++ ':' :: ['m', 'e', 't', 'h', 'o', 'd'], sPy ++ ':' :: ['m', 'e', 't', 'h']),
    (sPy ++ ':' :: ['m', 'o', 'd', 'u', 'l', 'e'], sPy ++ ':' :: ['m', 'o', 'd']) ]

def aliasRole (dr : List Char) : List Char :=
  match aliasTable.lookup dr with
  | some t => t
  | none => dr

/-- `if uri.endswith("$"): uri = uri[:-1] + name` -/
def expandDollar (uri name : List Char) : List Char :=
  if uri.getLast? = some '$' then uri.dropLast ++ name else uri

/-- `x.split(":", 1)` when it yields two pieces -/
def splitFirstColon : List Char → Option (List Char × List Char)
  | [] => none
  | c :: cs =>
    if c == ':' then some ([], cs) else
    match splitFirstColon cs with
    | some (a, b) => some (c :: a, b)
    | none => none

def digitsVal (P : PyRe) (ds : List Char) : Nat := ds.foldl (fun a c => 10 * a + P.digitVal c) 0

/-- `int(raw_priority)`; `none` = ValueError -/
def readInt (P : PyRe) (s : List Char) : Option Int :=
  match s with
  | [] => none
  | c :: r =>
    if c = '-' then
      if r.isEmpty || !r.all P.isDigit then none else some (-(Int.ofNat (digitsVal P r)))
    else
      if !(c :: r).all P.isDigit then none else some (Int.ofNat (digitsVal P (c :: r)))

/-- `line.rstrip()` -/
def rstrip (P : PyRe) (l : List Char) : List Char := (l.reverse.dropWhile P.isSpace).reverse

/-- what one iteration of the loop in `Inventory.parse` does -/
inductive LineResult where
  | skip                                   -- `continue`
  | raise                                  -- an exception escapes `parse`
  | entry (key : List Char) (e : Entry)    -- `inventory.targets[key] = e`
deriving DecidableEq, Repr

def parseLine (P : PyRe) (line : List Char) : LineResult :=
  if line.all P.isSpace then .skip else          -- `if not line.strip(): continue`
  match matchLine P (rstrip P line) with
  | none => .skip
  | some (name, g) =>
    let dr := aliasRole g.role
    let uri := expandDollar g.uri name
    match readInt P g.prio with
    | none => .skip                              -- `except ValueError: continue`
    | some prio =>
      match splitFirstColon dr with
      | none => .raise                           -- `domain, role = …` would raise ValueError
      | some (d, r) =>
        .entry (dr ++ ':' :: name)
          { name := name, domain := d, role := r, priority := prio, uriBase := g.uri, uri := uri,
            display := if g.disp = ['-'] then none else some g.disp }

/-! ### what a round trip is expected to produce, and on which entries -/

/-- the (domain, role) a reader sees: the alias table applied to `domain:role`, split at the first ':' -/
def canonRole (d r : List Char) : List Char × List Char :=
  match splitFirstColon (aliasRole (d ++ ':' :: r)) with
  | some p => p
  | none => (d, r)

/-- the entry as `parse` rebuilds it: aliased role, `uri` recomputed from `uri_base` and the name -/
def canon (e : Entry) : Entry :=
  { e with domain := (canonRole e.domain e.role).1, role := (canonRole e.domain e.role).2,
           uri := expandDollar e.uriBase e.name }

/-- `f"{domain_and_role}:{name}"` -/
def keyOf (e : Entry) : List Char := e.domain ++ ':' :: (e.role ++ ':' :: e.name)

/-- neither the first nor the last character is whitespace -/
def edgeOk (P : PyRe) (l : List Char) : Bool :=
  (match l.head? with | some c => !P.isSpace c | none => true) &&
  (match l.getLast? with | some c => !P.isSpace c | none => true)

def dispOk (P : PyRe) : Option (List Char) → Bool
  | none => true
  | some d => !d.isEmpty && d != ['-'] && !d.contains '\n' && edgeOk P d

/-- decidable well-formedness of an entry (the alphabet on which the format is unambiguous):
name non-empty, without newline and ':', not starting/ending with whitespace (inner whitespace
is allowed); domain without whitespace and ':'; role and uri_base without whitespace (both may be
empty, the role may contain ':'); display name absent, or non-empty, not "-", without newline,
not starting/ending with whitespace. -/
def wfEntry (P : PyRe) (e : Entry) : Bool :=
  !e.name.isEmpty && !e.name.contains '\n' && !e.name.contains ':' && edgeOk P e.name &&
  e.domain.all (nonSpace P) && !e.domain.contains ':' &&
  e.role.all (nonSpace P) && e.uriBase.all (nonSpace P) && dispOk P e.display

def WFEntry (P : PyRe) (e : Entry) : Prop := wfEntry P e = true

instance (P : PyRe) (e : Entry) : Decidable (WFEntry P e) := by unfold WFEntry; infer_instance

/-- what the theorems need to know about Python's `\s`, `\d`, `int` (checked on the running
Python over all code points by the harness) -/
structure PyReOk (P : PyRe) : Prop where
  sp_space : P.isSpace ' ' = true
  sp_nl : P.isSpace '\n' = true
  sp_colon : P.isSpace ':' = false
  sp_dash : P.isSpace '-' = false
  dig_ascii : ∀ c : Char, c.isDigit = true → P.isDigit c = true ∧ P.digitVal c = c.toNat - 48
  dig_nospace : ∀ c : Char, P.isDigit c = true → P.isSpace c = false

/-- the ASCII instance (used for the `decide`d examples and as the driver's default) -/
def asciiRe : PyRe where
  isSpace c := c == ' ' || c == '\t' || c == '\n' || c == '\r' || c.toNat == 11 || c.toNat == 12
  isDigit c := c.isDigit
  digitVal c := c.toNat - 48

/-! ### the file level -/

/-- `s.split(sep)`: (first piece, further pieces) -/
def splitOn (sep : Char) : List Char → List Char × List (List Char)
  | [] => ([], [])
  | c :: cs =>
    let r := splitOn sep cs
    if c == sep then ([], r.1 :: r.2) else (c :: r.1, r.2)

def splitLines (l : List Char) : List (List Char) := (splitOn '\n' l).1 :: (splitOn '\n' l).2

/-- `"\n".join(lines)` -/
def joinNl : List (List Char) → List Char
  | [] => []
  | [l] => l
  | l :: l2 :: ls => l ++ '\n' :: joinNl (l2 :: ls)

/-- Python `d[k] = v`: replace in place, else append -/
def dictSet {κ ν : Type} [DecidableEq κ] : List (κ × ν) → κ → ν → List (κ × ν)
  | [], k, v => [(k, v)]
  | (k', v') :: d, k, v => if k' = k then (k', v) :: d else (k', v') :: dictSet d k v

abbrev Dict := List (List Char × Entry)

/-- the `for line in decompressed.split("\n")` loop; `none` = exception escaped -/
def parseLines (P : PyRe) : List (List Char) → Dict → Option Dict
  | [], d => some d
  | l :: ls, d =>
    match parseLine P l with
    | .skip => parseLines P ls d
    | .raise => none
    | .entry k e => parseLines P ls (dictSet d k e)

/-- Python `dict(pairs)` -/
def dictOfList (l : Dict) : Dict := l.foldl (fun acc kv => dictSet acc kv.1 kv.2) []

/-- the (key, value) `parse` stores for a dumped entry -/
def canonKV (kv : List Char × Entry) : List Char × Entry := (keyOf (canon kv.2), canon kv.2)

/-- text of the compressed payload: every line, then the terminating empty line -/
def body (inv : Dict) : List Char := joinNl (inv.map (fun kv => dumpLine kv.2) ++ [[]])

/-- `bytes(·, "utf-8")`, `zlib.compress(bytes(·, "utf-8"), 9)`,
`str(zlib.decompress(·), "utf-8")` (`none` = zlib.error / UnicodeDecodeError) -/
structure Codec where
  enc : List Char → List UInt8
  compress : List Char → List UInt8
  decompress : List UInt8 → Option (List Char)

def hdr1 : List Char := "# Sphinx inventory version 2".toList
def hdrProject : List Char := "# Project: ".toList
def hdrVersion : List Char := "# Version: ".toList
def hdr4 : List Char := "# The remainder of this file is compressed using zlib.".toList

/-- the four header lines (UTF-8 is a homomorphism, so encoding line by line equals
encoding the whole f-string) -/
def header (C : Codec) (name version : List Char) : List UInt8 :=
  C.enc hdr1 ++ 10 :: (C.enc (hdrProject ++ name) ++ 10 :: (C.enc (hdrVersion ++ version) ++ 10 :: (C.enc hdr4 ++ [10])))

/-- `Inventory.dumps(name, version)`; `none` = ValueError (newline in name / version) -/
def dumps (C : Codec) (name version : List Char) (inv : Dict) : Option (List UInt8) :=
  if name.contains '\n' then none else
  if version.contains '\n' then none else
  some (header C name version ++ C.compress (body inv))

/-- `start = text.find(b"\n", start) + 1` (a failed `find` gives -1, i.e. start = 0) -/
def skipLine (whole cur : List UInt8) : List UInt8 :=
  match cur.dropWhile (fun b => b != 10) with
  | [] => whole
  | _ :: r => r

def payload (t : List UInt8) : List UInt8 := skipLine t (skipLine t (skipLine t (skipLine t t)))

/-- `Inventory.parse(base_url, text).targets`; `none` = an exception escaped -/
def parse (P : PyRe) (C : Codec) (text : List UInt8) : Option Dict :=
  match C.decompress (payload text) with
  | none => none
  | some s => parseLines P (splitLines s) []


/-! ### a consuming project: `TargetDatabase.__getitem__` on a loaded inventory -/

/-- `re.sub(r"\s+", " ", target)` (`normalize_target`): every maximal whitespace run becomes one
space (`inWs` = the previous character belonged to a run already replaced) -/
def normalizeAux (P : PyRe) : Bool → List Char → List Char
  | _, [] => []
  | inWs, c :: cs =>
    if P.isSpace c then (if inWs then normalizeAux P true cs else ' ' :: normalizeAux P true cs)
    else c :: normalizeAux P false cs

def normalizeWs (P : PyRe) (l : List Char) : List Char := normalizeAux P false l

/-- `inventory.get(key)` -/
def dictGet (d : Dict) (k : List Char) : Option Entry := d.lookup k

/-- `key.replace("\\\\", "\\")`: every non-overlapping pair of backslashes, left to right, becomes one -/
def unescapeBackslash : List Char → List Char
  | '\\' :: '\\' :: r => '\\' :: unescapeBackslash r
  | c :: r => c :: unescapeBackslash r
  | [] => []

def phpPrefix : List Char := ['m', 'o', 'n', 'g', 'o', 'd', 'b', ':', 'p', 'h', 'p']

/-- the entry one loaded inventory contributes to `TargetDatabase.__getitem__(key)`, `key` already
normalised: the exact spelling first, then the lower-cased key (`lowerKey = key.lower()`, a parameter:
`str.lower` depends on the Unicode tables), then, for `mongodb:php…` keys, the un-escaped key. -/
def resolveIn (d : Dict) (key lowerKey : List Char) : Option Entry :=
  match dictGet d key with
  | some e => some e
  | none =>
    match dictGet d lowerKey with
    | some e => some e
    | none => if phpPrefix.isPrefixOf key then dictGet d (unescapeBackslash key) else none

/-! ### dirhtml URIs and inventory generation -/

def knownSuffixes : List (List Char) :=
  [['.', 't', 'x', 't'], ['.', 'r', 's', 't'], ['.', 'y', 'a', 'm', 'l'], ['.', 'a', 's', 't']]

def endsWith (l s : List Char) : Bool := s.length ≤ l.length && l.drop (l.length - s.length) == s

/-- `PAT_FILE_EXTENSIONS.sub("", name)` for a name without '\n' -/
def stripKnown : List (List Char) → List Char → List Char
  | [], nm => nm
  | s :: ss, nm => if endsWith nm s then nm.take (nm.length - s.length) else stripKnown ss nm

def joinSlash : List (List Char) → List Char
  | [] => []
  | [p] => p
  | p :: q :: ps => p ++ '/' :: joinSlash (q :: ps)

def indexTxt : List Char := ['i', 'n', 'd', 'e', 'x', '.', 't', 'x', 't']

/-- `FileId.without_known_suffix` of a relative path given by its parts (`PurePosixPath.parts`);
`none` = ValueError from `with_name` (empty path, empty or "." stem). -/
def withoutKnownSuffix (parts : List (List Char)) : Option (List Char) :=
  match parts.getLast? with
  | none => none
  | some nm =>
    let stem := stripKnown knownSuffixes nm
    if stem = [] || stem = ['.'] then none else some (joinSlash (parts.dropLast ++ [stem]))

/-- `FileId.as_dirhtml` -/
def asDirhtml (parts : List (List Char)) : Option (List Char) :=
  if parts = [indexTxt] then some [] else
  match withoutKnownSuffix parts with
  | none => none
  | some s => some (s ++ ['/'])

/-- `TargetDatabase.LocalDefinition` with the title already flattened to text -/
structure LocalDef where
  canonical : List Char
  fileid : List (List Char)
  title : List Char
  htmlId : List Char
deriving DecidableEq, Repr

/-- `key.split(":", 2)` when it yields three pieces -/
def splitKey (k : List Char) : Option (List Char × List Char × List Char) :=
  match splitFirstColon k with
  | none => none
  | some (d, rest) =>
    match splitFirstColon rest with
    | none => none
    | some (r, nm) => some (d, r, nm)

/-- `str.strip()` -/
def strip (P : PyRe) (l : List Char) : List Char := rstrip P (l.dropWhile P.isSpace)

/-- the display title `generate_inventory` exports: the text of the title, whitespace-normalised and stripped
(`normalize_target(...).strip()`); nothing when that leaves nothing -/
def exportTitle (P : PyRe) (title : List Char) : Option (List Char) :=
  let t := strip P (normalizeWs P title)
  if t = [] then none else some t

/-- one iteration of the loop of `generate_inventory` (first definition of the key) -/
def generateEntry (P : PyRe) (key : List Char) (d : LocalDef) : Option Entry :=
  match asDirhtml d.fileid with
  | none => none
  | some dir =>
    match splitKey key with
    | none => none
    | some (dom, role, _) =>
      let u := if dom = sStd ∧ role = ['d', 'o', 'c'] then dir else dir ++ '#' :: d.htmlId
      -- the name is exported the way keys are kept and queries are normalised (`normalize_target`): a newline or a run
      -- of blanks in a directive argument / glossary term would otherwise break the line format, or never be found
      some { name := normalizeWs P d.canonical, domain := dom, role := role, priority := -1, uriBase := u, uri := u,
             display := exportTitle P d.title }

/-- `generate_inventory`: `none` = an exception escaped -/
def generateInventory (P : PyRe) : List (List Char × List LocalDef) → Option Dict
  | [] => some []
  | (_, []) :: rest => generateInventory P rest
  | (k, d :: _) :: rest =>
    match generateEntry P k d with
    | none => none
    | some e =>
      match generateInventory P rest with
      | none => none
      | some inv => some ((k, e) :: inv)

end SnootyVerif.Inventory
