/-!
# C01 — directive option validators (`specparser.VALIDATORS`, `Spec.get_validator`)

Mirrors `snooty/util.py` (`option_bool`, `option_string`, `option_flag`), `snooty/tinydocutils/directives.py`
(`nonnegative_int`, `uri`, `length_or_percentage_or_unitless` / `get_measure`, `choice`), Python's `int(str)` and the
union validator of `Spec.get_validator` (`try each child; except Exception: continue; raise ValueError`).
An option value is `Option (List Char)`: `none` is Python's `None` (`:flag:` without a value).

Unicode-dependent pieces are parameters (`Env`): `isSpace` (`str.strip()` / `int()` whitespace), `digitVal`
(`int()` accepts every Unicode decimal digit), `lower` (`str.lower()`); the driver instantiates them with the ASCII tables
plus the non-ASCII code points of the request as classified by the running Python.
-/
namespace SnootyVerif.Validators

inductive PyErr
  | ValueError | TypeError | KeyError | AttributeError
  deriving DecidableEq, Repr

inductive Val
  | int (i : Int)
  | bool (b : Bool)
  | str (s : List Char)
  deriving DecidableEq, Repr

deriving instance DecidableEq for Except

structure Env where
  isSpace : Char → Bool
  digitVal : Char → Option Nat
  lower : Char → List Char

def stripWith (p : Char → Bool) (s : List Char) : List Char :=
  ((s.dropWhile p).reverse.dropWhile p).reverse

/-- `str.strip()` -/
def strip (E : Env) (s : List Char) : List Char := stripWith E.isSpace s

/-- whitespace as `int()` sees it: ASCII characters are classified by C `isspace` (TAB..CR and space — NOT the separators
U+001C..U+001F, which `str.strip()` does remove), non-ASCII ones by `Py_UNICODE_ISSPACE` -/
def intSpace (E : Env) (c : Char) : Bool :=
  if c.toNat < 128 then (c = ' ' || (9 ≤ c.toNat && c.toNat ≤ 13)) else E.isSpace c

/-- CPython: more than 4300 digits → ValueError -/
def maxStrDigits : Nat := 4300

/-- digits with single underscores between them (PEP 515): returns the value, or none -/
def digitsUnderscore (E : Env) : List Char → Option Nat → Bool → Option Nat
  -- acc = value so far (none before the first digit); prevUnderscore
  | [], acc, prevU => if prevU then none else acc
  | c :: rest, acc, prevU =>
    if c = '_' then (if prevU || acc.isNone then none else digitsUnderscore E rest acc true)
    else match E.digitVal c with
      | some d => digitsUnderscore E rest (some (acc.getD 0 * 10 + d)) false
      | none => none

/-- sign already removed -/
def pyIntBody (E : Env) (neg : Bool) (body : List Char) : Except PyErr Int :=
  if (body.filter (fun c => c ≠ '_')).length > maxStrDigits then .error .ValueError
  else match digitsUnderscore E body none false with
    | some n => .ok (if neg then -(Int.ofNat n) else Int.ofNat n)
    | none => .error .ValueError

/-- `int(s)` for a `str` -/
def pyInt (E : Env) (s : List Char) : Except PyErr Int :=
  match stripWith (intSpace E) s with
  | '-' :: r => pyIntBody E true r
  | '+' :: r => pyIntBody E false r
  | r => pyIntBody E false r

/-- `argument and argument.strip()` -/
def truthyStripped (E : Env) (a : Option (List Char)) : Bool :=
  match a with
  | none => false
  | some s => s ≠ [] && strip E s ≠ []

def lowerStr (E : Env) (s : List Char) : List Char := s.flatMap E.lower

/-- `directives.choice(argument, values)` -/
def choice (E : Env) (a : Option (List Char)) (values : List (List Char)) : Except PyErr (List Char) :=
  match a with
  | none => .error .ValueError            -- AttributeError caught, re-raised as ValueError
  | some s =>
    let v := strip E (lowerStr E s)
    if values.contains v then .ok v else .error .ValueError

/-- `^([0-9.]+) *(u₁|u₂|…)$` then `float(group 1)`; `$` also matches before one trailing newline -/
def isNumChar (c : Char) : Bool := ('0' ≤ c ∧ c ≤ '9') || c = '.'

def floatOk (num : List Char) : Bool :=
  (num.filter (· = '.')).length ≤ 1 && num.any (fun c => '0' ≤ c ∧ c ≤ '9')

def chompNl (r : List Char) : List Char := if r.getLast? = some '\n' then r.dropLast else r

/-- regex alternation is ordered, but `$` forces the whole remainder to be one unit, so membership decides -/
def measureUnit (units : List (List Char)) (rest : List Char) : Option (List Char) :=
  if units.contains rest then some rest
  else if units.contains (chompNl rest) then some (chompNl rest)
  else none

def getMeasure (s : List Char) (units : List (List Char)) : Except PyErr (List Char) :=
  match measureUnit units ((s.dropWhile isNumChar).dropWhile (· = ' ')) with
  | some u =>
    if s.takeWhile isNumChar ≠ [] && floatOk (s.takeWhile isNumChar) then .ok (s.takeWhile isNumChar ++ u)
    else .error .ValueError
  | none => .error .ValueError

def lengthUnits : List (List Char) := [['e','m'], ['e','x'], ['p','x'], ['i','n'], ['c','m'], ['m','m'], ['p','t'], ['p','c']]

/-- `directives.length_or_percentage_or_unitless(argument)` (`re.match(…, None)` is a TypeError) -/
def lengthOrPercentage (a : Option (List Char)) : Except PyErr (List Char) :=
  match a with
  | none => .error .TypeError
  | some s =>
    match getMeasure s (lengthUnits ++ [['%']]) with
    | .ok r => .ok r
    | .error _ =>
      match getMeasure s [[]] with
      | .ok r => .ok r
      | .error _ => getMeasure s (lengthUnits ++ [['%']])

/-- validator kinds of `specparser.VALIDATORS` + enum choice + union -/
inductive Kind
  | integer | nonnegativeInteger | string | uri | length | boolean | flag
  | enum (values : List (List Char))
  | union (ks : List Kind)

mutual
/-- the validator of kind `k` applied to the option value `a` -/
def validate (E : Env) : Kind → Option (List Char) → Except PyErr Val
  | .integer, a => (match a with | none => .error .TypeError | some s => (pyInt E s).map Val.int)
  | .nonnegativeInteger, a =>
    (match a with
     | none => .error .TypeError
     | some s => match pyInt E s with
       | .ok i => if i < 0 then .error .ValueError else .ok (.int i)
       | .error e => .error e)
  | .string, a => if truthyStripped E a then .ok (.str (a.getD [])) else .error .ValueError
  | .uri, a => (match a with | none => .error .ValueError | some s => .ok (.str s))  -- value: whitespace-normalised, not modelled
  | .length, a => (lengthOrPercentage a).map Val.str
  | .boolean, a =>
    if truthyStripped E a then (choice E a [['t','r','u','e'], ['f','a','l','s','e']]).map (fun v => Val.bool (v = ['t','r','u','e']))
    else .ok (.bool true)
  | .flag, a => if truthyStripped E a then .error .ValueError else .ok (.bool true)
  | .enum values, a => (choice E a values).map Val.str
  | .union ks, a => validateUnion E ks a
/-- `for child in child_validators: try: return child(argument) except Exception: continue` then `raise ValueError` -/
def validateUnion (E : Env) : List Kind → Option (List Char) → Except PyErr Val
  | [], _ => .error .ValueError
  | k :: ks, a => match validate E k a with
    | .ok v => .ok v
    | .error _ => validateUnion E ks a
end

end SnootyVerif.Validators
