/-
Model of substitution resolution (property C07).

Mirrors `snooty/postprocess.py: SubstitutionHandler` (enter_node / exit_node / exit_page /
_search) running inside the re-entrant event walk of `EventParser._iterate`, for the code AFTER the
`fix:` commit that added `active_references`; and `snooty/types.py: ProjectConfig._substitute /
render_constants` for `{+name+}` source constants.

A page (after include expansion) is abstracted to a list of events in document order:
definitions, uses (inline references in running text), and include directives with their
replacement table bracketing the included content. Bodies are inline item lists
(`txt` | nested `ref`); block/inline context adaptation is outside this model (checked on the
implementation by the harness oracle).
-/
namespace SnootyVerif.Subst

inductive Item where
  | txt (s : String)
  /-- a substitution reference: name, source line, `pend` = queued in `unreplaced_nodes`, children -/
  | ref (name : String) (line : Nat) (pend : Bool) (cs : List Item)
deriving Repr

abbrev Body := List Item
/-- Python dict in insertion order; `set` overwrites in place -/
abbrev Table := List (String × Body)

def tget (t : Table) (k : String) : Option Body := (t.find? (·.1 == k)).map (·.2)
def tset : Table → String → Body → Table
  | [], k, v => [(k, v)]
  | (k', v') :: t, k, v => if k' == k then (k', v) :: t else (k', v') :: tset t k v
def tdel (t : Table) (k : String) : Table := t.filter (fun p => !(p.1 == k))

inductive DKind where
  | circular   -- SubstitutionRefError "Circular substitution definition referenced"
  | unresolved -- SubstitutionRefError "Substitution reference could not be replaced"
deriving DecidableEq, Repr

structure Diag where
  file : String
  kind : DKind
  line : Nat
deriving DecidableEq, Repr

structure St where
  defs : Table := []
  /-- `include_replacement_definitions`, innermost first -/
  stack : List Table := []
  /-- `FileIdStack`, current first -/
  files : List String := []
  /-- `unreplaced_nodes`: (name, file, line), oldest first -/
  pending : List (String × String × Nat) := []
  diags : List Diag := []
  /-- `seen_definitions` -/
  seen : Option (List String) := none
  /-- `active_references`, innermost first -/
  active : List String := []
deriving Repr

def St.file (st : St) : String := st.files.headD ""

/-- `_search` after the loop check: innermost include table, then
`defs.get(name) or project.get(name)` (note `or`: an EMPTY page definition falls through). -/
def lookupOrder (top : Option Table) (defs proj : Table) (name : String) : Option Body :=
  match top.bind (tget · name) with
  | some b => some b
  | none =>
    match tget defs name with
    | some (b :: bs) => some (b :: bs)
    | _ => tget proj name

/-- where a resolution came from (ghost information for the theorems) -/
inductive Src where | replacement | page | project | none
deriving DecidableEq, Repr

def lookupSrc (top : Option Table) (defs proj : Table) (name : String) : Src :=
  match top.bind (tget · name) with
  | some _ => .replacement
  | none =>
    match tget defs name with
    | some (_ :: _) => .page
    | _ => match tget proj name with
      | some _ => .project
      | none => .none

/-- `enter_node` on a reference + the walk into its (possibly injected) children + `exit_node`.
`fuel` bounds re-entry into injected copies (Python: recursion depth). `none` = RecursionError. -/
def walkItems (proj : Table) : Nat → St → List Item → Option (St × List Item)
  | _, st, [] => some (st, [])
  | fuel, st, .txt s :: rest =>
    match walkItems proj fuel st rest with
    | none => none
    | some (st', rest') => some (st', .txt s :: rest')
  | 0, _, .ref _ _ _ _ :: _ => none
  | fuel + 1, st, .ref name line _ cs :: rest =>
    -- the fix: path guard, only outside definitions
    if st.seen.isNone && st.active.contains name then
      let st1 := { st with diags := st.diags ++ [⟨st.file, .circular, line⟩] }
      match walkItems proj (fuel + 1) st1 rest with
      | none => none
      | some (st', rest') => some (st', .ref name line false [] :: rest')
    else
      -- `_search`
      let looped := match st.seen with | some s => s.contains name | none => false
      let (st1, found) : St × Option Body :=
        if looped then
          ({ st with defs := tdel st.defs name, diags := st.diags ++ [⟨st.file, .circular, line⟩] }, none)
        else (st, lookupOrder st.stack.head? st.defs proj name)
      let st2 : St := match found with
        | some _ => st1
        | none => { st1 with pending := st1.pending ++ [(name, st1.file, line)] }
      let st3 : St := { st2 with seen := st2.seen.map (name :: ·), active := name :: st2.active }
      let kids := match found with | some b => b | none => cs
      match walkItems proj fuel st3 kids with
      | none => none
      | some (st4, kids') =>
        let st5 := { st4 with active := st4.active.drop 1 }
        match walkItems proj (fuel + 1) st5 rest with
        | none => none
        | some (st', rest') => some (st', .ref name line found.isNone kids' :: rest')

inductive Ev where
  | defn (name : String) (body : Body)
  | use (line : Nat) (name : String)
  /-- include directive: replacement table (bodies are walked in the including file), then the
  included file's content until the matching `exit` -/
  | enter (file : String) (repl : Table)
  | exit
deriving Repr

/-- walk the replacement bodies of an include one after the other, writing each walked body back
into the pushed table (Python mutates the directive's children in place, the table aliases them). -/
def walkRepl (proj : Table) (fuel : Nat) : St → List (String × Body) → Option St
  | st, [] => some st
  | st, (k, b) :: rest =>
    match walkItems proj fuel st b with
    | none => none
    | some (st', b') =>
      let st'' := match st'.stack with
        | top :: more => { st' with stack := tset top k b' :: more }
        | [] => st'
      walkRepl proj fuel st'' rest

/-- result per `use` event, in document order: (line, children after the walk) -/
abbrev Uses := List (Nat × Item)

def runEvents (proj : Table) (fuel : Nat) : St → List Ev → Uses → Option (St × Uses)
  | st, [], acc => some (st, acc)
  | st, .defn name body :: evs, acc =>
    -- enter: defs[name] = children; seen = {} ; walk children in place; exit: seen = None
    let st1 := { st with defs := tset st.defs name body, seen := some [] }
    match walkItems proj fuel st1 body with
    | none => none
    | some (st2, body') =>
      -- the dict entry aliases the (now mutated) children list, unless the loop check deleted it
      let defs' := match tget st2.defs name with
        | some _ => tset st2.defs name body'
        | none => st2.defs
      runEvents proj fuel { st2 with defs := defs', seen := none } evs acc
  | st, .use line name :: evs, acc =>
    match walkItems proj fuel st [.ref name line false []] with
    | some (st', [it]) => runEvents proj fuel st' evs (acc ++ [(line, it)])
    | _ => none
  | st, .enter file repl :: evs, acc =>
    let st1 := { st with stack := repl :: st.stack }
    match walkRepl proj fuel st1 repl with
    | none => none
    | some st2 => runEvents proj fuel { st2 with files := file :: st2.files } evs acc
  | st, .exit :: evs, acc =>
    runEvents proj fuel { st with stack := st.stack.drop 1, files := st.files.drop 1 } evs acc

/-- `exit_page`: deferred references get `defs.get(name)` (no `or`, no copy), else a diagnostic. -/
def pageEndDiags (st : St) : List Diag :=
  st.diags ++ (st.pending.filterMap (fun (name, file, line) =>
    match tget st.defs name with
    | some _ => none
    | none => some ⟨file, .unresolved, line⟩))

/-- text of an item after `exit_page` filled the deferred references (fuel: definitions may alias) -/
def finalText (defs : Table) : Nat → Item → String
  | _, .txt s => s
  | 0, .ref _ _ _ _ => ""
  | fuel + 1, .ref name _ pend cs =>
    let kids := if pend then (match tget defs name with | some b => b | none => cs) else cs
    String.join (kids.attach.map (fun ⟨k, _⟩ => finalText defs fuel k))
termination_by fuel it => (fuel, sizeOf it)
decreasing_by all_goals simp_wf; all_goals (first | (apply Prod.Lex.left; omega) | skip)

structure PageResult where
  uses : List (Nat × String)
  diags : List Diag
deriving Repr

/-- one page from a clean handler state (that the state IS clean is theorem `no_leak`) -/
def runPage (proj : Table) (fuel : Nat) (file : String) (evs : List Ev) : Option PageResult :=
  match runEvents proj fuel { files := [file] } evs [] with
  | none => none
  | some (st, uses) =>
    some { uses := uses.map (fun (l, it) => (l, finalText st.defs fuel it)), diags := pageEndDiags st }

/-! ### Expansion against a STATIC environment (project-wide substitutions only)

On a page without definitions and without include replacements the handler state relevant to
lookups never changes, `seen_definitions` stays `None`, and parser-produced references have no
children: `walkItems` specialises to this function (compared with the implementation on
"project-only" cases, and with `walkItems` itself by theorem `static_eq_walk` where stated). -/

inductive SDiag where
  | circular (name : String) (line : Nat)
  | unresolved (name : String) (line : Nat)
deriving DecidableEq, Repr

/-- names that can still be entered: keys of `env` not on the path -/
def sroom : Table → List String → Nat
  | [], _ => 0
  | p :: ps, path => (if path.contains p.1 then 0 else 1) + sroom ps path

abbrev SRec := List String → List Item → Option (List Item × List SDiag)

/-- one nesting level; `rec` = walk into an injected copy (one more name on the path) -/
def expandLevel (env : Table) (rec : SRec) (path : List String) : List Item → Option (List Item × List SDiag)
  | [] => some ([], [])
  | .txt s :: rest =>
    match expandLevel env rec path rest with
    | none => none
    | some r => some (.txt s :: r.1, r.2)
  | .ref name line _ _ :: rest =>
    if path.contains name then
      match expandLevel env rec path rest with
      | none => none
      | some r => some (.ref name line false [] :: r.1, .circular name line :: r.2)
    else
      match tget env name with
      | none =>
        match expandLevel env rec path rest with
        | none => none
        | some r => some (.ref name line true [] :: r.1, .unresolved name line :: r.2)
      | some body =>
        match rec (name :: path) body with
        | none => none
        | some k =>
          match expandLevel env rec path rest with
          | none => none
          | some r => some (.ref name line false k.1 :: r.1, k.2 ++ r.2)

def expandStatic (env : Table) : Nat → SRec
  | 0 => fun _ _ => none
  | fuel + 1 => expandLevel env (expandStatic env fuel)

/-- the use of `name` on a page, project substitutions only -/
def useStatic (env : Table) (name : String) (line : Nat) : Option (List Item × List SDiag) :=
  expandStatic env (sroom env [] + 2) [] [.ref name line false []]

/-- the same without the path guard (the code before the fix) -/
def expandStaticOld (env : Table) : Nat → SRec
  | 0 => fun _ _ => none
  | fuel + 1 => fun _ items => expandLevel env (expandStaticOld env fuel) [] items

/-! ### `{+constant+}` substitution (before parsing) -/

def isVarChar (isWord : Char → Bool) (c : Char) : Bool := isWord c || c == '-'

/-- `PAT_VARIABLE = {\+([\w-]+)\+}` tried at the head of `s`: name and the rest after the match -/
def matchVar (isWord : Char → Bool) (s : List Char) : Option (List Char × List Char) :=
  match s with
  | '{' :: '+' :: t =>
    let name := t.takeWhile (isVarChar isWord)
    match name, t.dropWhile (isVarChar isWord) with
    | _ :: _, '+' :: '}' :: rest => some (name, rest)
    | _, _ => none
  | _ => none

/-- `re.sub` left to right; unknown names become U+200B and a ConstantNotDeclared at the
zero-based line of the placeholder. `line` = number of newlines consumed so far. -/
def substConsts (isWord : Char → Bool) (consts : List (List Char × List Char)) :
    Nat → Nat → List Char → List Char × List (List Char × Nat)
  | 0, _, s => (s, [])
  | _, _, [] => ([], [])
  | fuel + 1, line, c :: t =>
    match matchVar isWord (c :: t) with
    | some (name, rest) =>
      -- the match consumed `c :: t` minus `rest`; it contains no newline (name chars, braces, plus)
      let (out, ds) := substConsts isWord consts fuel line rest
      match consts.find? (·.1 == name) with
      | some (_, v) => (v ++ out, ds)
      | none => ('​' :: out, (name, line) :: ds)
    | none =>
      let (out, ds) := substConsts isWord consts fuel (if c == '\n' then line + 1 else line) t
      (c :: out, ds)

/-- `render_constants`: one pass in declaration order; a constant sees only earlier ones -/
def renderConstants (isWord : Char → Bool) :
    List (List Char × List Char) → List (List Char × List Char) → List (List Char × List Char)
  | done, [] => done
  | done, (k, v) :: rest =>
    let v' := (substConsts isWord done (v.length + 1) 0 v).1
    -- dict assignment: overwrite in place if the key exists
    let done' := if done.any (·.1 == k) then done.map (fun p => if p.1 == k then (k, v') else p) else done ++ [(k, v')]
    renderConstants isWord done' rest

end SnootyVerif.Subst
