/-!
# Title skeletons: how section levels are computed
(snooty/tinydocutils/states.py `RSTState.section / check_subsection / new_subsection /
title_inconsistent`, `StateMachineMemo`)

The input is the *skeleton* of a document: a list of events `title style | other`, where a style
is what `StyleKind` holds (underline character, optional overline character).  The Python code is a
recursion: `new_subsection` runs a nested state machine on the rest of the input; a title that is a
sibling or a supersection makes the nested machine back up (`previous_line(len(style)+1)`) and
raise `EOFError`; `new_subsection` then either re-raises (`memo.section_level <= mylevel`) or resets
`memo.section_level = mylevel` and lets its own machine read the title line again.

The model defunctionalises that call stack: a `Frame` is one activation of `new_subsection`
(its local `mylevel`, and the children its *own* machine had collected before the section node);
`cur` is the child list of the innermost running machine.  `resume` is the code that runs after a
nested machine ended with `EOFError`; it is structurally recursive on the frame stack.
The `memo.minimum_level_stack` only changes inside directives (`empty_memo=True`) and is `[0]` here.
Import-free, total.
-/
namespace SnootyVerif.Sections

/-- `StyleKind(underline, overline)` -/
structure Style where
  underline : Char
  overline : Option Char
  deriving DecidableEq, Repr

/-- `StyleKind.length()`: 2 lines for an underline title, 3 with overline -/
def Style.length (s : Style) : Nat := if s.overline.isSome then 3 else 2

inductive Ev
  | title (s : Style)
  | other            -- any body element that is not a title
  deriving DecidableEq, Repr

/-- children of a section / of the document, in order -/
inductive Node
  | other
  | inconsistent                 -- the SEVERE system_message "Title level inconsistent:"
  | sec (kids : List Node)
  deriving Repr

/-- `StateMachineMemo.title_styles`, `.section_level` -/
structure Memo where
  styles : List Style
  level : Nat
  deriving DecidableEq, Repr

/-- `title_styles.index(style)`; `none` = ValueError -/
def indexOf (s : Style) : List Style → Option Nat
  | [] => none
  | x :: xs => if x = s then some 0 else (indexOf s xs).map (· + 1)

inductive Check
  | sub (m : Memo)             -- returns True: create the subsection
  | inconsistent (m : Memo)    -- returns False after appending the system message
  | bubble (m : Memo)          -- previous_line(style.length()+1); raise EOFError
  deriving DecidableEq, Repr

/-- `check_subsection` -/
def checkSubsection (m : Memo) (s : Style) : Check :=
  match indexOf s m.styles with
  | none =>
    -- new title style
    if m.styles.length = m.level then .sub { m with styles := m.styles ++ [s] }
    else .inconsistent m
  | some i =>
    let level := i + 1
    if level ≤ m.level then .bubble { m with level := level }   -- sibling or supersection
    else if level = m.level + 1 then .sub m                        -- immediate subsection
    else .inconsistent m

/-- one activation of `new_subsection`: `mylevel` and the enclosing machine's children so far -/
structure Frame where
  mylevel : Nat
  kids : List Node
  deriving Repr

structure St where
  memo : Memo
  cur : List Node
  frames : List Frame       -- innermost first
  halted : Bool             -- the *root* machine ended with EOFError: the rest of the input is dropped
  deriving Repr

/-- what happens after the nested machine (children `cur`) ended with `EOFError` on title `s`:
`new_subsection` of the innermost frame resumes, and so on outwards. -/
def resume (s : Style) : List Frame → Memo → List Node → St
  | [], m, cur => ⟨m, cur, [], true⟩
  | f :: fs, m, cur =>
    let pk := f.kids ++ [Node.sec cur]
    if m.level ≤ f.mylevel then
      resume s fs m pk                         -- `raise EOFError  # bubble up to supersection`
    else
      -- memo.section_level = mylevel; the machine reads the title lines again
      let m1 : Memo := { m with level := f.mylevel }
      match checkSubsection m1 s with
      | .sub m2 => ⟨{ m2 with level := m2.level + 1 }, [], ⟨m2.level, pk⟩ :: fs, false⟩
      | .inconsistent m2 => ⟨m2, pk ++ [Node.inconsistent], fs, false⟩
      | .bubble m2 => resume s fs m2 pk

/-- a title line pair/triple reaches `RSTState.section` in the innermost machine -/
def titleEvent (s : Style) (st : St) : St :=
  match checkSubsection st.memo s with
  | .sub m => ⟨{ m with level := m.level + 1 }, [], ⟨m.level, st.cur⟩ :: st.frames, false⟩
  | .inconsistent m => ⟨m, st.cur ++ [Node.inconsistent], st.frames, false⟩
  | .bubble m => resume s st.frames m st.cur

def step (st : St) (e : Ev) : St :=
  if st.halted then st
  else
    match e with
    | .other => { st with cur := st.cur ++ [Node.other] }
    | .title s => titleEvent s st

def run (evs : List Ev) (st : St) : St := evs.foldl step st

/-- end of input: every machine ends normally, each `new_subsection` returns
(`memo.section_level = mylevel`) -/
def close : List Node → List Frame → List Node
  | cur, [] => cur
  | cur, f :: fs => close (f.kids ++ [Node.sec cur]) fs

def init : St := ⟨⟨[], 0⟩, [], [], false⟩

structure Parsed where
  doc : List Node
  styles : List Style
  halted : Bool
  deriving Repr

def parseSkeleton (evs : List Ev) : Parsed :=
  let st := run evs init
  ⟨close st.cur st.frames, st.memo.styles, st.halted⟩

/-! ## section trees and their rendering -/

/-- a section: `body` non-title elements, then the subsections (an element after a subsection
belongs to that subsection in reST, so this is the general shape) -/
inductive Sec
  | mk (body : Nat) (subs : List Sec)
  deriving Repr

structure Doc where
  body : Nat
  subs : List Sec
  deriving Repr

mutual
  def renderSec (σ : Nat → Style) (d : Nat) : Sec → List Ev
    | .mk body subs => Ev.title (σ d) :: (List.replicate body Ev.other ++ renderSecs σ (d + 1) subs)
  def renderSecs (σ : Nat → Style) (d : Nat) : List Sec → List Ev
    | [] => []
    | s :: ss => renderSec σ d s ++ renderSecs σ d ss
end

def renderSkeleton (σ : Nat → Style) (t : Doc) : List Ev :=
  List.replicate t.body Ev.other ++ renderSecs σ 0 t.subs

mutual
  def secNode : Sec → Node
    | .mk body subs => Node.sec (List.replicate body Node.other ++ secNodes subs)
  def secNodes : List Sec → List Node
    | [] => []
    | s :: ss => secNode s :: secNodes ss
end

def docNodes (t : Doc) : List Node := List.replicate t.body Node.other ++ secNodes t.subs

mutual
  /-- number of nested levels -/
  def secHeight : Sec → Nat
    | .mk _ subs => secsHeight subs + 1
  def secsHeight : List Sec → Nat
    | [] => 0
    | s :: ss => max (secHeight s) (secsHeight ss)
end

end SnootyVerif.Sections
