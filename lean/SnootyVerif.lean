import SnootyVerif.Properties.C09
import SnootyVerif.Properties.C06
import SnootyVerif.Properties.C07
import SnootyVerif.Properties.C15
import SnootyVerif.Properties.C20
import SnootyVerif.Properties.C19
import SnootyVerif.Properties.C17
