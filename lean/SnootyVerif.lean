import SnootyVerif.Properties.C09
import SnootyVerif.Properties.C06
