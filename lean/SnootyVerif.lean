import SnootyVerif.Properties.C09
import SnootyVerif.Properties.C06
import SnootyVerif.Properties.C07
import SnootyVerif.Properties.C15
import SnootyVerif.Properties.C20
