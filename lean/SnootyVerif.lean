import SnootyVerif.Properties.C09
