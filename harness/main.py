import argparse
import importlib
import logging
import os
import sys
import traceback

sys.path.insert(0, os.path.dirname(os.path.abspath(__file__)))
import core  # noqa: E402


def main() -> int:
    ap = argparse.ArgumentParser()
    ap.add_argument("property")
    ap.add_argument("--tier", default=os.environ.get("VERIF_TIER", "quick"), choices=["quick", "thorough"])
    ap.add_argument("--replay")
    ap.add_argument("--seed", type=int, default=int(os.environ.get("VERIF_SEED", "0") or 0))
    args = ap.parse_args()
    logging.disable(logging.CRITICAL)
    pid = args.property.upper()
    try:
        mod = importlib.import_module(f"props.{pid.lower()}")
        prop = mod.PROP
        if args.replay:
            return core.run_replay(prop, args.replay)
        return core.run_check(prop, args.tier, args.seed)
    except core.Infra as e:
        print(f"[{pid}] infrastructure failure: {e}", file=sys.stderr)
        return 2
    except Exception:
        traceback.print_exc()
        return 2


if __name__ == "__main__":
    sys.exit(main())
