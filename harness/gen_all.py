"""Regenerate every Gen/*.lean table from /repo's working tree (run by setup and usable by hand)."""
import importlib
import os
import sys

sys.path.insert(0, os.path.dirname(os.path.abspath(__file__)))
import logging

logging.disable(logging.CRITICAL)
for f in sorted(os.listdir(os.path.join(os.path.dirname(os.path.abspath(__file__)), "props"))):
    if f.startswith("c") and f.endswith(".py"):
        try:
            mod = importlib.import_module("props." + f[:-3])
            problems = mod.PROP.gen_tables()
            if problems:
                print(f"[gen] {f}: {problems}")
        except Exception as e:  # a translator that cannot run is reported by the check itself
            print(f"[gen] {f}: {type(e).__name__}: {e}")
