"""C18 — Giza YAML: inheritance, replacement and page generation are correct and total."""
import collections
import copy
import dataclasses
import json
import re
import shutil
import signal
import sys
import tempfile
from pathlib import Path

import yaml

import core
from snooty import diagnostics as D
from snooty import n
from snooty.gizaparser import extracts as gx
from snooty.gizaparser import nodes as gn
from snooty.gizaparser import release as gr
from snooty.gizaparser import steps as gs
from snooty.gizaparser.domain import GizaYamlDomain
from snooty.parser import EmbeddedRstParser
from snooty.types import ProjectConfig

CATS = ("steps", "extracts", "release")
INHERITABLE = ("ref", "replacement", "source", "inherit")
# Inheritable.keys() per category, dataclass declaration order (checked in static_obligations)
KEYS = {
    "steps": ["title", "heading", "level", "optional", "stepnum", "content", "post", "pre", "edition", "action"],
    "extracts": ["title", "heading", "level", "optional", "content", "only", "pre", "post"],
    "release": ["pre", "copyable", "language", "code"],
}
HEADING = ("union", ["str", ("dc", "OldHeading"), "none"])
OPT = lambda t: ("union", [t, "none"])  # noqa: E731
SCHEMA = {
    "OldHeading": [("character", OPT("str")), ("text", "str")],
    "Inherit": [("file", "str"), ("ref", "str")],
    "Action": [("title", HEADING), ("heading", HEADING), ("level", OPT("int")), ("optional", OPT("bool")),
               ("code", OPT("str")), ("copyable", OPT("bool")), ("content", OPT("str")), ("language", OPT("str")),
               ("post", OPT("str")), ("pre", OPT("str"))],
}
_INH = [("ref", OPT("str")), ("replacement", OPT("dict")), ("source", OPT(("dc", "Inherit"))), ("inherit", OPT(("dc", "Inherit")))]
_HEAD = [("title", HEADING), ("heading", HEADING), ("level", OPT("int")), ("optional", OPT("bool"))]
SCHEMA["steps"] = _HEAD + _INH + [("stepnum", OPT("int")), ("content", OPT("str")), ("post", OPT("str")), ("pre", OPT("str")),
                                  ("edition", ("union", [("list", "str"), "str", "none"])),
                                  ("action", ("union", [("list", ("dc", "Action")), ("dc", "Action"), "none"]))]
SCHEMA["extracts"] = _HEAD + _INH + [("content", OPT("str")), ("only", OPT("str")), ("pre", OPT("str")), ("post", OPT("str"))]
SCHEMA["release"] = _INH + [("pre", OPT("str")), ("copyable", OPT("bool")), ("language", OPT("str")), ("code", OPT("str"))]
CLASSES = {"steps": gs.Step, "extracts": gx.Extract, "release": gr.ReleaseSpecification,
           "Action": gs.Action, "OldHeading": gn.OldHeading, "Inherit": gn.Inherit}
PAT = r"\{\{([\w-]+)\}\}"
TIMEOUT_S = 60


class Bad(Exception):
    pass


# ---------------------------------------------------------------------------------------------
# independent re-statement of flutter.check_type for the giza schemas -> normalised python value
# normalised dataclass = {"dc": name, "f": [values in declaration order]}
# ---------------------------------------------------------------------------------------------
def tc(ty, v):
    if ty == "none":
        if v is not None:
            raise Bad()
        return None
    if ty == "str":
        if not isinstance(v, str):
            raise Bad()
        return v
    if ty == "int":
        if not isinstance(v, int):
            raise Bad()
        return v
    if ty == "bool":
        if not isinstance(v, bool):
            raise Bad()
        return v
    if ty == "dict":
        if not isinstance(v, dict):
            raise Bad()
        for k, x in v.items():
            if not isinstance(k, str) or not isinstance(x, str):
                raise Bad()
        return {"dict": [[k, x] for k, x in v.items()]}
    kind, arg = ty
    if kind == "list":
        if not isinstance(v, list):
            raise Bad()
        return [tc(arg, x) for x in v]
    if kind == "union":
        for cand in arg:
            try:
                return tc(cand, v)
            except Bad:
                pass
        raise Bad()
    if kind == "dc":
        if not isinstance(v, dict):
            raise Bad()
        names = [k for k, _ in SCHEMA[arg]]
        for k in v:
            if k not in names:
                raise Bad()
        return {"dc": arg, "f": [tc(t, v.get(k)) for k, t in SCHEMA[arg]]}
    raise AssertionError(ty)


def norm_impl(v):
    """normalise a value produced by the implementation into the same shape as tc()"""
    if dataclasses.is_dataclass(v) and not isinstance(v, type):
        name = {gs.Action: "Action", gn.OldHeading: "OldHeading", gn.Inherit: "Inherit"}.get(type(v), type(v).__name__)
        return {"dc": name, "f": [norm_impl(getattr(v, f.name)) for f in dataclasses.fields(v)]}
    if isinstance(v, dict):
        return {"dict": [[k, x] for k, x in v.items()]}
    if isinstance(v, list):
        return [norm_impl(x) for x in v]
    return v


def to_val(v, top=True):
    """normalised value -> model Val JSON ({"s"} | {"a"} | {"r": [...]}) ; top-level None -> None"""
    if v is None:
        return None if top else {"a": "None"}
    if isinstance(v, str):
        return {"s": v}
    if isinstance(v, dict) and "dc" in v:
        return {"r": [to_val(x, False) for x in v["f"]]}
    if isinstance(v, list):
        # a list of actions / edition names: placeholders are filled in its members like anywhere else
        return {"r": [to_val(x, False) for x in v]}
    return {"a": json.dumps(v, sort_keys=True, ensure_ascii=False)}


def entry_json(cat, normed):
    """normalised dataclass (category root) -> model Entry JSON"""
    names = [k for k, _ in SCHEMA[cat]]
    d = dict(zip(names, normed["f"]))

    def ptr(p):
        return None if p is None else {"file": p["f"][0], "ref": p["f"][1]}

    return {
        "ref": d["ref"],
        "replacement": None if d["replacement"] is None else d["replacement"]["dict"],
        "source": ptr(d["source"]),
        "inherit": ptr(d["inherit"]),
        "fields": [to_val(d[k]) for k in KEYS[cat]],
    }


def decode_model_val(j):
    if j is None:
        return None
    if "s" in j or "a" in j:
        return j
    if "n" in j:
        return {"r": []}
    h, t = j["c"]
    return {"r": [decode_model_val(h)] + decode_model_val(t)["r"]}


def expected_parse(case):
    """[(name, syntax, [entry json | None])] from the generator's structured data (not from the implementation)"""
    out = []
    cat = case["cat"]
    for f in case["files"]:
        if f.get("syntax"):
            out.append({"name": f["name"], "syntax": True, "docs": []})
            continue
        docs = []
        for doc in f["docs"]:
            if not doc:
                docs.append("empty")   # falsy document: skipped by load_yaml, the rest of the file still counts
                continue
            try:
                docs.append(entry_json(cat, tc(("dc", cat), doc)))
            except Bad:
                docs.append(None)
        out.append({"name": f["name"], "syntax": False, "docs": docs})
    return out


TAILS = {
    "unclosed": "\n---\nref: [unclosed\n  : : }\n",
    "tab": "\n---\nref: zz\n\tcontent: x\n",
    "bell": "\n---\nref: zz\ncontent: \"x\x07y\"\n",            # yaml.reader.ReaderError (not a MarkedYAMLError)
    "nul": "\n---\nref: zz\ncontent: x\x00\n",
    "unhashable": "\n---\n? [1, 2]\n: x\n",                     # TypeError in the mapping constructor
    "unhashable-nested": "\n---\nref: zz\nreplacement:\n  ? {a: b}\n  : x\n",
    "deep": "\n---\nref: zz\ncontent: " + "[" * 600 + "]" * 600 + "\n",   # RecursionError inside PyYAML
    "python-tag": "\n---\nref: !!python/object:os.system x\n",
}


def yaml_text(f):
    text = yaml.safe_dump_all(f["docs"], sort_keys=False, allow_unicode=True, default_flow_style=False) if f["docs"] else ""
    if f.get("syntax"):
        text += TAILS[f["syntax"] if isinstance(f["syntax"], str) else "unclosed"]
    return text


def all_strings(x):
    if isinstance(x, str):
        yield x
    elif isinstance(x, dict):
        for k, v in x.items():
            yield from all_strings(k)
            yield from all_strings(v)
    elif isinstance(x, list):
        for v in x:
            yield from all_strings(v)


def diag_name(d):
    c = type(d).__name__
    if isinstance(d, D.CannotOpenFile):
        return f"{c}:{d.path}"
    if isinstance(d, D.FailedToInheritRef):
        return c + (":cycle" if d.message.startswith("Inheritance cycle") else ":missing")
    if isinstance(d, D.RefAlreadyExists):
        m = re.fullmatch(r"ref (.*) already exists", d.message, re.S)
        return f"{c}:{m.group(1) if m else '?'}"
    if isinstance(d, D.UnknownSubstitution):
        m = re.match(r'Unknown substitution: "(.*?)"\. ', d.message, re.S)
        return f"{c}:{m.group(1) if m else '?'}"
    return c


def toml_text(consts):
    lines = ['name = "c18"', "[constants]"]
    for k, v in consts.items():
        lines.append(f"{json.dumps(k)} = {json.dumps(v, ensure_ascii=False)}")
    return "\n".join(lines) + "\n"


class _Timeout(BaseException):
    pass


def _alarm(signum, frame):
    raise _Timeout()


def shape(node):
    """structural summary of a rendered page: directive names down to the entry level"""
    if isinstance(node, n.Directive):
        return [node.name, [shape(c) for c in node.children if isinstance(c, n.Directive)]]
    return None


# ---------------------------------------------------------------------------------------------
# direct oracle helpers: a plain chain walk over the generator's data
# ---------------------------------------------------------------------------------------------
def _truthy(s):
    return bool(s)


def _get_ref(e):
    if e["ref"]:
        return e["ref"]
    p = e["source"] or e["inherit"]
    return p["ref"] if p else None


def walk_chain(reg, e):
    """returns (status, [parents]) status in ok | cycle | nofile | noref"""
    seen = set()
    chain = []
    cur = e
    while True:
        p = cur["source"] or cur["inherit"]
        if p is None:
            return "ok", chain
        if p["file"] not in reg:
            return "nofile", chain
        par = next((x for x in reg[p["file"]] if _get_ref(x) == p["ref"]), None)
        if par is None:
            return "noref", chain
        key = (p["file"], p["ref"])
        if key in seen:
            return "cycle", chain
        seen.add(key)
        chain.append(par)
        cur = par


def sub_val(v, env, unknown):
    def rep(m):
        if m.group(1) in env:
            return env[m.group(1)]
        unknown.append(m.group(1))
        return ""
    if v is None:
        return None
    if "s" in v:
        return {"s": re.sub(PAT, rep, v["s"])}
    if "r" in v:
        return {"r": [sub_val(x, env, unknown) for x in v["r"]]}
    return v


class C18(core.PropertyCheck):
    id = "C18"
    quick_budget = 6000
    thorough_budget = 20000
    rule = ("random: one giza category (steps/extracts/release) with <=5 YAML files x <=5 entries, refs from a 6-name pool "
            "(incl. '_'-prefixed, empty, absent), source/inherit pointers to any file of the set / a missing file / a file of another "
            "category and any pool ref (chains, forks, self loops, longer cycles, dangling), random subsets of every optional field "
            "(strings with {{placeholders}} known/unknown/constant/malformed, ints, bools, lists, nested Action/OldHeading), overlapping "
            "replacement tables, type damage (wrong scalar type, unknown key, non-mapping document, half pointer, non-string replacement), "
            "YAML syntax damage, extracts `only:`; run through the real GizaYamlDomain.load_and_generate on a temp project. "
            "subst: texts with placeholder near-misses through substitute_text. project: full Project.build() via util_test.make_test. "
            "non-trivial = at least one entry with a parent pointer or a placeholder; distinct by case content")
    assumptions = [
        "PyYAML and flutter.check_type decide which documents load; the model takes that verdict per document as input "
        "(re-stated independently in the harness, compared through the diagnostics and the reified entries)",
        "Python's \\w is a parameter of the model; '{' and '}' not being name characters is checked over all code points",
        "reify's in-place writes only touch `ref` and never change get_ref(); `ref` None and '' are identified when comparing",
        "files of one category have distinct base names (GizaCategory.nodes is keyed by base name)",
    ]

    # ---- hypotheses --------------------------------------------------------------------------
    def static_obligations(self):
        obl = []
        for cat in CATS:
            cls = CLASSES[cat]
            names = [f.name for f in dataclasses.fields(cls)]
            keys = [x for x in names if x not in INHERITABLE]
            obl.append((f"keys() order of {cls.__name__} as modelled", keys == KEYS[cat] and names == [k for k, _ in SCHEMA[cat]], str(names)))
        for nm in ("Action", "OldHeading", "Inherit"):
            names = [f.name for f in dataclasses.fields(CLASSES[nm])]
            obl.append((f"field order of {nm} as modelled", names == [k for k, _ in SCHEMA[nm]], str(names)))
        obl.append(("onlyIdx = 5", KEYS["extracts"].index("only") == 5, ""))
        obl.append(("PAT_SUBSTITUTION is the modelled pattern", gn.PAT_SUBSTITUTION.pattern == PAT, gn.PAT_SUBSTITUTION.pattern))
        pat = re.compile(r"[\w-]")
        bad_ascii, brace = [], []
        for cp in range(sys.maxunicode + 1):
            if 0xD800 <= cp <= 0xDFFF:
                continue
            ch = chr(cp)
            m = pat.fullmatch(ch) is not None
            if cp < 128 and m != (ch.isalnum() or ch in "_-"):
                bad_ascii.append(cp)
            if ch in "{}" and m:
                brace.append(cp)
        obl.append(("ASCII name characters are [A-Za-z0-9_-] (driver table)", not bad_ascii, str(bad_ascii[:5])))
        obl.append(("hB: '{' and '}' are not name characters", not brace, str(brace)))
        obl.append(("an Inherit instance is truthy (`source or inherit`)", bool(gn.Inherit("", "")), ""))
        return obl

    # ---- generator ---------------------------------------------------------------------------
    STRS = ["plain", "t {{x}}", "{{y}} and {{x}}", "{{unknown}} tail", "v{{ver}}", "{{{x}}}", "{{x}", "{{ x }}", "a {{x-y}} b",
            "{{é}}", "{{x}}{{y}}", "{x}} {{", "{{}}", "{{x}}}}", "{{{{x}}", "{{x y}}", "word", "{{z_1}}", "{{unknown}}"]
    REFS = ["a", "b", "c", "_b", "d", "_a"]
    RKEYS = ["x", "y", "x-y", "ver", "é", "z_1"]

    def gen_str(self, rng):
        return rng.choice(self.STRS)

    def gen_heading(self, rng):
        if rng.random() < 0.2:
            h = {"text": self.gen_str(rng)}
            if rng.random() < 0.5:
                h["character"] = rng.choice(["=", "{{x}}"])
            return h
        return self.gen_str(rng)

    def gen_action(self, rng):
        a = {}
        for k in ("title", "heading"):
            if rng.random() < 0.3:
                a[k] = self.gen_heading(rng)
        for k in ("code", "content", "language", "post", "pre"):
            if rng.random() < 0.3:
                a[k] = self.gen_str(rng)
        if rng.random() < 0.2:
            a["copyable"] = rng.random() < 0.5
        if rng.random() < 0.2:
            a["level"] = rng.randint(1, 4)
        if not a:
            a["content"] = "act"
        return a

    def gen_field(self, rng, cat, key):
        if key in ("title", "heading"):
            return self.gen_heading(rng)
        if key in ("level", "stepnum"):
            return rng.choice([1, 2, 3, True])
        if key in ("optional", "copyable"):
            return rng.random() < 0.5
        if key == "edition":
            return rng.choice(["e {{x}}", ["e1", "{{x}}"]])
        if key == "action":
            return self.gen_action(rng) if rng.random() < 0.6 else [self.gen_action(rng) for _ in range(rng.randint(1, 2))]
        if key == "only":
            return "html"
        return self.gen_str(rng)

    def gen_doc(self, rng, cat, fnames, depth_tag, p_only):
        doc = {}
        r = rng.random()
        if cat == "steps":
            if r < 0.6:
                doc["ref"] = rng.choice(self.REFS)
            elif r < 0.65:
                doc["ref"] = ""
        else:
            if r < 0.93:
                doc["ref"] = rng.choice(self.REFS)
            elif r < 0.96:
                doc["ref"] = ""
        if rng.random() < 0.6:
            which = rng.choice(["source", "inherit", "inherit", "both"])
            targets = fnames * 4 + [f"{cat}-missing.yaml", "steps-other.yaml" if cat != "steps" else "extracts-other.yaml"]
            for w in (("source", "inherit") if which == "both" else (which,)):
                doc[w] = {"file": rng.choice(targets), "ref": rng.choice(self.REFS + ["nope"])}
        p = rng.choice([0.15, 0.4, 0.7])
        for k in KEYS[cat]:
            if k == "only":
                if rng.random() < p_only:
                    doc[k] = "html"
                continue
            if rng.random() < p:
                doc[k] = self.gen_field(rng, cat, k)
        if rng.random() < 0.5:
            ks = rng.sample(self.RKEYS, rng.randint(1, 3))
            # values may be empty (a child switches a parent's text off) or look false in other ways: the child's own value wins
            # whatever it is
            doc["replacement"] = {k: (f"{k.upper()}{depth_tag}" if rng.random() < 0.8 else rng.choice(["", "0", " ", "False"])) for k in ks}
        if not doc:
            doc["content"] = "only content"
        return doc

    DAMAGE = ["null-doc", "empty-map", "ref-int", "field-list", "int-str", "unknown-key", "scalar-doc", "list-doc", "half-pointer", "pointer-str",
              "repl-list", "repl-int", "bool-int", "heading-no-text"]

    def damage(self, rng, cat, doc):
        kind = rng.choice(self.DAMAGE)
        d = copy.deepcopy(doc)
        if kind == "null-doc":
            return None
        if kind == "empty-map":
            return {}
        if kind == "ref-int":
            d["ref"] = 5
        elif kind == "field-list":
            d["pre"] = [1, 2]
        elif kind == "int-str":
            d["level" if cat != "release" else "copyable"] = "three"
        elif kind == "unknown-key":
            d["nonsense"] = "x"
        elif kind == "scalar-doc":
            return "just a string"
        elif kind == "list-doc":
            return [{"ref": "a"}]
        elif kind == "half-pointer":
            d["inherit"] = {"file": "x.yaml"}
        elif kind == "pointer-str":
            d["source"] = "steps-a.yaml"
        elif kind == "repl-list":
            d["replacement"] = ["x"]
        elif kind == "repl-int":
            d["replacement"] = {"x": 1}
        elif kind == "bool-int":
            d["optional" if cat != "release" else "copyable"] = 3
        elif kind == "heading-no-text":
            if cat == "release":
                d["code"] = {"a": 1}
            else:
                d["title"] = {"character": "="}
        return d

    def gen_case(self, rng, tier):
        cat = rng.choice(CATS)
        nfiles = rng.choice([1, 1, 2, 2, 3, 4, 5])
        fnames = [f"{cat}-f{i}.yaml" for i in range(nfiles)]
        p_only = 0.04 if (cat == "extracts" and rng.random() < 0.25) else 0.0
        p_dmg = rng.choice([0, 0, 0.1, 0.3])
        files = []
        tag = 0
        for fn in fnames:
            docs = []
            for _ in range(rng.choice([1, 2, 2, 3, 4, 5])):
                tag += 1
                doc = self.gen_doc(rng, cat, fnames, tag, p_only)
                if rng.random() < p_dmg:
                    doc = self.damage(rng, cat, doc)
                docs.append(doc)
            files.append({"name": fn, "docs": docs, "syntax": rng.choice(sorted(TAILS)) if rng.random() < 0.07 else False})
        if rng.random() < 0.3:
            # deliberate long chains / forks across files: unique refs per file, entry i inherits from an earlier one
            nodes = []
            for f in files:
                names = rng.sample(self.REFS, len(f["docs"]))
                for doc, nm in zip(f["docs"], names):
                    if isinstance(doc, dict) and doc and "nonsense" not in doc:
                        doc["ref"] = nm
                        doc.pop("source", None)
                        doc.pop("inherit", None)
                        nodes.append((f["name"], doc))
            rng.shuffle(nodes)
            for i in range(1, len(nodes)):
                j = i - 1 if rng.random() < 0.7 else rng.randrange(i)
                if isinstance(nodes[j][1].get("ref"), str) and rng.random() < 0.9:
                    nodes[i][1][rng.choice(["source", "inherit"])] = {"file": nodes[j][0], "ref": nodes[j][1]["ref"]}
            if nodes and rng.random() < 0.25 and isinstance(nodes[-1][1].get("ref"), str):   # close a long cycle
                nodes[0][1]["inherit"] = {"file": nodes[-1][0], "ref": nodes[-1][1]["ref"]}
        consts = {"ver": "4.2"}
        if rng.random() < 0.3:
            consts["x"] = "CONSTX"
        if rng.random() < 0.2:
            consts["num"] = 7
        return {"kind": "domain", "cat": cat, "consts": consts, "files": files}

    def gen_subst(self, rng):
        alphabet = ["{", "{", "}", "}", "x", "y", "-", "_", " ", "é", "1", "{{", "}}", "{{x}}", "{{nope}}", "\n", "Ω", "·"]
        texts = ["".join(rng.choice(alphabet) for _ in range(rng.randint(0, 12))) for _ in range(20)]
        env = {k: f"<{k}>" for k in rng.sample(["x", "y", "x-y", "é", "1", "_", "-", "xy", "Ω"], rng.randint(0, 5))}
        if rng.random() < 0.3:
            env["x"] = "{{y}}"  # replacement text is not rescanned
        return {"kind": "subst", "texts": texts, "env": env}

    def directed(self):
        """small hand-written shapes that every run must contain"""
        def ex(docs, cat="extracts", name=None):
            return {"kind": "domain", "cat": cat, "consts": {"ver": "4.2"},
                    "files": [{"name": name or f"{cat}-f0.yaml", "docs": docs, "syntax": False}]}
        f0 = "extracts-f0.yaml"
        yield ex([{"ref": "a", "content": "x", "only": "html"}, {"ref": "b", "content": "y"}])              # D16
        yield ex([{"ref": "_b", "only": "html"}, {"ref": "a", "inherit": {"file": f0, "ref": "_b"}, "content": "y"}])  # inherited only
        yield ex([{"ref": "a", "inherit": {"file": f0, "ref": "a"}, "content": "{{x}}"}])                      # self loop
        yield ex([{"ref": "a", "inherit": {"file": f0, "ref": "b"}, "content": "ca"},
                  {"ref": "b", "inherit": {"file": f0, "ref": "c"}, "pre": "pb"},
                  {"ref": "c", "inherit": {"file": f0, "ref": "a"}, "post": "pc"}])                           # 3-cycle
        yield ex([{"ref": "a", "inherit": {"file": f0, "ref": "b"}, "replacement": {"x": "XA"}},
                  {"ref": "b", "inherit": {"file": f0, "ref": "_b"}, "replacement": {"x": "XB", "y": "YB"}, "pre": "{{x}}{{y}}"},
                  {"ref": "_b", "replacement": {"y": "YC", "z_1": "ZC"}, "content": "{{x}} {{y}} {{z_1}} {{ver}}", "pre": "base"}])
        yield ex([{"ref": "a", "content": "1"}, {"ref": "a", "content": "2"}, {"nonsense": 1}, {"ref": "c", "content": "3"}])
        yield ex([{"title": "no ref", "content": "x"}, {"ref": "b", "content": "y"}], cat="steps", name="steps-f0.yaml")
        yield ex([{"source": {"file": "steps-f0.yaml", "ref": "b"}}, {"ref": "b", "title": "T {{x}}", "replacement": {"x": "1"}}],
                 cat="steps", name="steps-f0.yaml")
        for tail in sorted(TAILS):
            c = ex([{"ref": "a", "content": "x"}])
            c["files"].append({"name": "extracts-f1.yaml", "docs": [{"ref": "b", "content": "y"}], "syntax": tail})
            yield c
        yield ex([{"ref": "a", "content": "x"}, None, {"ref": "b", "content": "y"}, {}, {"ref": "c", "content": "z"}])   # falsy documents
        yield ex([{"ref": "r", "code": "c {{ver}}", "copyable": False}, {"ref": "s", "inherit": {"file": "release-f0.yaml", "ref": "r"}, "language": "sh"}],
                 cat="release", name="release-f0.yaml")

    def generate(self, rng, budget, tier):
        if tier != "search":
            yield from self.directed()
        for i in range(budget):
            if i % 6 == 5:
                yield self.gen_subst(rng)
            else:
                yield self.gen_case(rng, tier)

    def shrink_candidates(self, case):
        if case["kind"] != "domain":
            if case["kind"] == "subst":
                for i in range(len(case["texts"])):
                    yield {**case, "texts": case["texts"][:i] + case["texts"][i + 1:]}
            return
        files = case["files"]
        for i in range(len(files)):
            if len(files) > 1:
                yield {**case, "files": files[:i] + files[i + 1:]}
        for i, f in enumerate(files):
            for j in range(len(f["docs"])):
                if len(f["docs"]) > 1:
                    nf = {**f, "docs": f["docs"][:j] + f["docs"][j + 1:]}
                    yield {**case, "files": files[:i] + [nf] + files[i + 1:]}
            if f.get("syntax"):
                yield {**case, "files": files[:i] + [{**f, "syntax": False}] + files[i + 1:]}
        for i, f in enumerate(files):
            for j, doc in enumerate(f["docs"]):
                if isinstance(doc, dict):
                    for k in list(doc):
                        nd = {x: y for x, y in doc.items() if x != k}
                        if nd:
                            nf = {**f, "docs": f["docs"][:j] + [nd] + f["docs"][j + 1:]}
                            yield {**case, "files": files[:i] + [nf] + files[i + 1:]}

    # ---- implementation ----------------------------------------------------------------------
    def run_impl(self, case):
        if case["kind"] == "subst":
            out = []
            for t in case["texts"]:
                diags = []
                try:
                    r = gn.substitute_text(t, dict(case["env"]), diags)
                    out.append({"out": r, "diags": [diag_name(d) for d in diags]})
                except Exception as e:
                    out.append({"exc": type(e).__name__})
            return {"exc": None, "out": out}
        if case["kind"] == "project":
            return self._run_project(case)
        old = signal.signal(signal.SIGALRM, _alarm)
        signal.alarm(TIMEOUT_S)
        root = Path(tempfile.mkdtemp(prefix="c18-"))
        try:
            return self._run_domain(case, root)
        except _Timeout:
            return {"exc": "Timeout(hang)", "msg": f"no result after {TIMEOUT_S}s"}
        finally:
            signal.alarm(0)
            signal.signal(signal.SIGALRM, old)
            shutil.rmtree(root, ignore_errors=True)

    def _run_domain(self, case, root):
        cat = case["cat"]
        (root / "snooty.toml").write_text(toml_text(case["consts"]), encoding="utf-8")
        inc = root / "source" / "includes"
        inc.mkdir(parents=True)
        for f in case["files"]:
            (inc / f["name"]).write_text(yaml_text(f), encoding="utf-8")
        try:
            cfg, cdiags = ProjectConfig.open(root)
            dom = GizaYamlDomain(cfg, EmbeddedRstParser)
            alld = collections.defaultdict(list)
            pages = list(dom.load_and_generate(alld, None))
        except Exception as e:
            import traceback
            tb = traceback.extract_tb(e.__traceback__)
            where = f"{Path(tb[-1].filename).name}:{tb[-1].name}" if tb else ""
            return {"exc": type(e).__name__, "msg": str(e)[:200], "where": where}
        category = dom.yaml_mapping[cat]
        files = []
        reified = category.reified_nodes or {}
        for f in case["files"]:
            gf = reified.get(f["name"])
            fid = n.FileId("includes/" + f["name"])
            rec = {"file": f["name"], "present": gf is not None, "entries": [], "diags": [diag_name(d) for d in alld.get(fid, [])], "pages": []}
            if gf is not None:
                for e in gf.data:
                    ej = entry_json(cat, norm_impl(e))
                    rec["entries"].append(ej)
            for page, pdiags in pages:
                if page.fileid == fid:
                    full = page.fake_full_fileid().as_posix()
                    assert full.startswith("includes/")
                    rec["pages"].append({"id": full[len("includes/"):], "diags": [diag_name(d) for d in pdiags],
                                         "shape": [shape(c) for c in page.ast.children]})
            files.append(rec)
        return {"exc": None, "files": files, "config_diags": [diag_name(d) for d in cdiags]}

    # ---- model -------------------------------------------------------------------------------
    def wordchars(self, obj):
        chars = sorted({c for s in all_strings(obj) for c in s if ord(c) > 127})
        return "".join(c for c in chars if re.fullmatch(r"\w", c))

    def model_request(self, case):
        if case["kind"] == "subst":
            return {"op": "c18.subst", "texts": case["texts"], "env": [[k, v] for k, v in case["env"].items()],
                    "wordchars": self.wordchars([case["texts"], case["env"]])}
        if case["kind"] != "domain":
            return None
        return {"op": "c18.build", "cat": case["cat"], "consts": [[k, str(v)] for k, v in case["consts"].items()],
                "wordchars": self.wordchars([case["files"], case["consts"]]), "files": expected_parse(case)}

    @staticmethod
    def norm_entry(e):
        return {**e, "ref": e["ref"] or ""}

    def compare(self, case, model, impl):
        if case["kind"] == "subst":
            want = model["out"]
            got = impl["out"]
            if want != got:
                for t, w, g in zip(case["texts"], want, got):
                    if w != g:
                        return f"substitute_text({t!r}): model {w} impl {g}"
            return None
        if impl["exc"] or model.get("exc"):
            if impl["exc"] != model.get("exc"):
                return f"exception: model {model.get('exc')} impl {impl['exc']} ({impl.get('where')})"
            return None
        for mf, rf in zip(model["files"], impl["files"]):
            if not rf["present"]:
                return f"{rf['file']}: not in reified_nodes"
            ments = [self.norm_entry({**e, "fields": [decode_model_val(v) for v in e["fields"]]}) for e in mf["entries"]]
            rents = [self.norm_entry(e) for e in rf["entries"]]
            if len(ments) != len(rents):
                return f"{rf['file']}: model has {len(ments)} entries, implementation {len(rents)}"
            for i, (a, b) in enumerate(zip(ments, rents)):
                if a != b:
                    diff = [k for k in a if a[k] != b.get(k)]
                    return f"{rf['file']} entry {i}: {diff} differ: model {json.dumps({k: a[k] for k in diff}, ensure_ascii=False)} impl {json.dumps({k: b[k] for k in diff}, ensure_ascii=False)}"
            if mf["diags"] != rf["diags"]:
                return f"{rf['file']}: diagnostics differ: model {mf['diags']} impl {rf['diags']}"
            if [p["id"] for p in mf["pages"]] != [p["id"] for p in rf["pages"]]:
                return f"{rf['file']}: pages differ: model {[p['id'] for p in mf['pages']]} impl {[p['id'] for p in rf['pages']]}"
            m_inv = sum(p["diags"].count("InvalidField") for p in mf["pages"])
            for p in rf["pages"]:
                if p["diags"].count("InvalidField") != m_inv:
                    return f"{rf['file']}: InvalidField count on page {p['id']}: model {m_inv} impl {p['diags']}"
                if collections.Counter(rf["diags"]) - collections.Counter(p["diags"]):
                    return f"{rf['file']}: page {p['id']} diagnostics {p['diags']} do not include the file's {rf['diags']}"
        return None

    # ---- direct oracle -----------------------------------------------------------------------
    def oracle(self, case, impl):
        if case["kind"] == "subst":
            for t, r in zip(case["texts"], impl["out"]):
                if "exc" in r:
                    return f"substitute_text raised {r['exc']} on {t!r}"
                unknown = []
                want = sub_val({"s": t}, case["env"], unknown)["s"]
                if r["out"] != want or r["diags"] != [f"UnknownSubstitution:{u}" for u in unknown]:
                    return f"substitute_text({t!r}) = {r} expected {want!r} unknown {unknown}"
            return None
        if case["kind"] == "project":
            return self._oracle_project(case, impl)
        if impl["exc"]:
            return f"exception: {impl['exc']} escaped the yaml build at {impl.get('where')} ({impl.get('msg')})"
        cat = case["cat"]
        parsed = expected_parse(case)
        # the registry as the category sees it
        reg = {}
        for pf in parsed:
            ents = [e for e in pf["docs"] if isinstance(e, dict)]
            if cat != "steps":
                ents = [e for e in ents if e["ref"]]
            reg[pf["name"]] = ents
        consts = {k: str(v) for k, v in case["consts"].items()}
        for pf, rf in zip(parsed, impl["files"]):
            name = pf["name"]
            if not rf["present"]:
                return f"{name}: file missing from the reified registry"
            ents = reg[name]
            if len(rf["entries"]) != len(ents):
                return f"{name}: {len(ents)} valid entries but {len(rf['entries'])} reified (an entry was dropped or aborted the file)"
            dn = [d.split(":")[0] for d in rf["diags"]]
            nbad = sum(1 for d in pf["docs"] if d is None)
            if pf["syntax"] and "ErrorParsingYAMLFile" not in dn:
                return f"{name}: invalid YAML not reported"
            if dn.count("UnmarshallingError") != nbad:
                return f"{name}: {nbad} ill-typed entries but diagnostics {rf['diags']}"
            if cat != "steps":
                nmiss = sum(1 for d in pf["docs"] if isinstance(d, dict) and not d["ref"])
                if dn.count("MissingRef") != nmiss:
                    return f"{name}: {nmiss} entries without ref but diagnostics {rf['diags']}"
            seen_refs = set()
            want_pages = []
            for i, (e, got) in enumerate(zip(ents, rf["entries"])):
                status, chain = walk_chain(reg, e)
                if status == "cycle" and "FailedToInheritRef:cycle" not in rf["diags"]:
                    return f"{name} entry {i}: inheritance cycle not reported: {rf['diags']}"
                if status == "nofile" and "CannotOpenFile" not in dn:
                    return f"{name} entry {i}: missing parent file not reported: {rf['diags']}"
                if status == "noref" and "FailedToInheritRef:missing" not in rf["diags"]:
                    return f"{name} entry {i}: missing parent ref not reported: {rf['diags']}"
                own_ok = (status == "ok") or (len(chain) > 0)   # the entry's own parent lookup succeeded
                ref = e["ref"] or (chain[0] and _get_ref(chain[0]) if chain else "") or ""
                if (got["ref"] or "") != ref and status == "ok":
                    return f"{name} entry {i}: ref {got['ref']!r} expected {ref!r}"
                if status == "ok":
                    line = [e] + chain
                    fields = []
                    for k in range(len(KEYS[cat])):
                        fields.append(next((x["fields"][k] for x in line if x["fields"][k] is not None), None))
                    repl = {}
                    for x in line:
                        for k, v in (x["replacement"] or []):
                            repl.setdefault(k, v)
                    if dict(map(tuple, got["replacement"] or [])) != repl:
                        return f"{name} entry {i} ({ref}): replacements {got['replacement']} expected child-first merge {repl}"
                    unknown = []
                    # every entry that is rendered gets its placeholders filled; only a base entry (ref starting with "_"), which exists
                    # to be inherited from, keeps them. A step without ref is rendered like any other step.
                    if not (ref or "").startswith("_"):
                        env = dict(consts)
                        env.update(repl)
                        fields = [sub_val(v, env, unknown) for v in fields]
                    if got["fields"] != fields:
                        bad = [KEYS[cat][k] for k in range(len(fields)) if got["fields"][k] != fields[k]]
                        return (f"{name} entry {i} ({ref}): fields {bad} are {json.dumps([got['fields'][KEYS[cat].index(b)] for b in bad], ensure_ascii=False)} "
                                f"expected {json.dumps([fields[KEYS[cat].index(b)] for b in bad], ensure_ascii=False)} (child-first merge along the chain + placeholders)")
                    for u in set(unknown):
                        if f"UnknownSubstitution:{u}" not in rf["diags"]:
                            return f"{name} entry {i} ({ref}): unknown placeholder {u!r} not reported: {rf['diags']}"
                    if ref and ref in seen_refs and f"RefAlreadyExists:{ref}" not in rf["diags"]:
                        return f"{name} entry {i}: duplicate ref {ref!r} not reported: {rf['diags']}"
                    if not ref and "RefAlreadyExists:" in rf["diags"]:
                        # two steps that simply have no ref do not share one
                        return f"{name} entry {i}: an entry WITHOUT ref is reported as a duplicate ('ref  already exists'): {rf['diags']}"
                    seen_refs.add(ref)
                if cat != "steps":
                    r = got["ref"] or ""
                    if e["ref"] and not e["ref"].startswith("_"):
                        want_pages.append(f"{cat}/{e['ref']}.rst")
            got_pages = [p["id"] for p in rf["pages"]]
            if cat == "steps":
                want_pages = ["steps/" + name[len("steps-"):-len(".yaml")] + ".rst"]
            if sorted(got_pages) != sorted(want_pages):
                return f"{name}: pages {got_pages} expected {want_pages}"
            for p in rf["pages"]:
                if cat == "steps":
                    ok = len(p["shape"]) == 1 and p["shape"][0] and p["shape"][0][0] == "procedure" and \
                        [c[0] for c in p["shape"][0][1]] == ["step"] * len(ents)
                else:
                    ok = len(p["shape"]) == 1 and p["shape"][0] and p["shape"][0][0] == {"extracts": "extract", "release": "release_specification"}[cat]
                if not ok:
                    return f"{name}: page {p['id']} has unexpected structure {p['shape']}"
        return None

    def finding_key(self, case, impl, desc):
        if desc.startswith("exception:"):
            where = impl.get("where") or ""
            if impl.get("exc") == "RecursionError" and where.split(":")[0] in ("scanner.py", "parser.py", "composer.py", "constructor.py", "reader.py"):
                where = "pyyaml"
            return f"exception:{impl.get('exc')}@{where}"
        if desc.startswith("project:"):
            return "project:" + ("page-missing" if "not delivered" in desc else "diag-missing")
        d = re.sub(r"^\S+-f\d+\.yaml( entry \d+)?( \([^)]*\))?: ", "", desc)
        d = re.split(r"[:\[{(]", d)[0]
        d = re.sub(r"'[^']*'|\d+", "", d)
        return re.sub(r"\s+", "-", d.strip())[:60]

    def nontrivial_key(self, case, impl):
        if case["kind"] == "subst":
            return json.dumps(case, sort_keys=True) if any("{{" in t for t in case["texts"]) else None
        s = json.dumps(case, sort_keys=True)
        return s if ('"inherit"' in s or '"source"' in s or "{{" in s) else None

    def branch_tags(self, case, model, impl):
        tags = [case["kind"]]
        if case["kind"] != "domain":
            return tags
        tags.append("cat:" + case["cat"])
        if impl.get("exc"):
            tags.append("exc:" + impl["exc"])
            return tags
        for rf in impl["files"]:
            for d in rf["diags"]:
                tags.append("diag:" + (d if d.startswith("FailedToInheritRef") else d.split(":")[0]))
            for p in rf["pages"]:
                if "InvalidField" in p["diags"]:
                    tags.append("diag:InvalidField(only)")
        parsed = expected_parse(case)
        reg = {pf["name"]: [e for e in pf["docs"] if isinstance(e, dict) and (case["cat"] == "steps" or e["ref"])] for pf in parsed}
        for ents in reg.values():
            for e in ents:
                st, ch = walk_chain(reg, e)
                tags.append(f"chain:{st}:{min(len(ch), 4)}")
        return sorted(set(tags))

    def sample(self, case, impl):
        if case["kind"] == "domain":
            return {"cat": case["cat"], "files": {f["name"]: yaml_text(f) for f in case["files"]},
                    "diags": {f["file"]: f["diags"] for f in impl.get("files", [])}, "exc": impl.get("exc")}
        return case

    # ---- full project builds -----------------------------------------------------------------
    def _run_project(self, case):
        from snooty.parser import Project
        from snooty.util_test import BackendTestResults

        class Backend(BackendTestResults):
            def flush(self):  # the recording backend's own sync assertion is C14's business
                pass

        old = signal.signal(signal.SIGALRM, _alarm)
        signal.alarm(180)
        root = Path(tempfile.mkdtemp(prefix="c18p-"))
        try:
            for k, v in case["files"].items():
                (root / k).parent.mkdir(parents=True, exist_ok=True)
                (root / k).write_text(v, encoding="utf-8")
            result = Backend()
            project = Project(root, result, {})
            project.build()
            diag_files = collections.defaultdict(list)
            for k, v in result.diagnostic_events:
                diag_files[str(k)].extend(type(d).__name__ for d in v)
            return {"exc": None, "pages": sorted(str(k) for k in result.pages), "diags": dict(diag_files)}
        except _Timeout:
            return {"exc": "Timeout(hang)", "where": "Project.build", "msg": "no result after 180s"}
        except Exception as e:
            import traceback
            tb = traceback.extract_tb(e.__traceback__)
            where = f"{Path(tb[-1].filename).name}:{tb[-1].name}" if tb else ""
            return {"exc": type(e).__name__, "msg": str(e)[:200], "where": where}
        finally:
            signal.alarm(0)
            signal.signal(signal.SIGALRM, old)
            shutil.rmtree(root, ignore_errors=True)

    def _oracle_project(self, case, impl):
        if impl["exc"]:
            return f"exception: {impl['exc']} escaped Project.build() at {impl.get('where')} ({impl.get('msg')})"
        for w in case["expect"]["pages"]:
            if w not in impl["pages"]:
                return f"project: page {w} not delivered"
        for f, classes in case["expect"]["diags"].items():
            for c in classes:
                if c not in impl["diags"].get(f, []):
                    return f"project: {c} for {f} not reported on the yaml file: {impl['diags'].get(f, [])}"
        return None

    def gen_project(self, rng, tier):
        files = {}
        expect_pages, expect_diags = [], {}
        for cat in CATS:
            c = self.gen_case(rng, tier)
            while c["cat"] != cat:
                c = self.gen_case(rng, tier)
            for f in c["files"]:
                files["source/includes/" + f["name"]] = yaml_text(f)
            for pf in expected_parse(c):
                if cat == "steps":
                    expect_pages.append("includes/steps/" + pf["name"][len("steps-"):-len(".yaml")] + ".rst")
                else:
                    expect_pages += [f"includes/{cat}/{e['ref']}.rst" for e in pf["docs"]
                                     if isinstance(e, dict) and e["ref"] and not e["ref"].startswith("_")]
                need = []
                if pf["syntax"]:
                    need.append("ErrorParsingYAMLFile")
                if any(d is None for d in pf["docs"]):
                    need.append("UnmarshallingError")
                if need:
                    expect_diags["includes/" + pf["name"]] = need
        files["snooty.toml"] = toml_text({"ver": "4.2"})
        files["source/index.txt"] = "=====\nIndex\n=====\n\n.. include:: /includes/steps/f0.rst\n"
        return {"kind": "project", "files": files, "expect": {"pages": sorted(set(expect_pages)), "diags": expect_diags}}

    def extra_checks(self, tier, rng):
        viols = []
        nproj = 12 if tier == "quick" else 40
        built = 0
        for _ in range(nproj):
            case = self.gen_project(rng, tier)
            impl = self._run_project(case)
            built += 1 if not impl["exc"] else 0
            v = self._oracle_project(case, impl)
            if v:
                viols.append({"case": case, "impl": impl, "desc": v, "key": self.finding_key(case, impl, v)})
        return viols[:3], {"project_builds": built}


PROP = C18()
