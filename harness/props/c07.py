"""C07 — substitutions and source constants resolve by the documented scoping rules."""
import json
import re

import core
from impl import pp
from snooty import n
from snooty.types import ProjectConfig

NAMES = ["a", "b", "c", "d"]
FUEL = 64


def mk_items(body, line):
    out = []
    for it in body:
        if "t" in it:
            out.append(n.Text((line,), it["t"]))
        else:
            out.append(n.SubstitutionReference((it["l"],), [], it["r"]))
    return out


def build_nodes(events, files_used):
    nodes = []
    for ev in events:
        if ev["e"] == "def":
            nodes.append(n.SubstitutionDefinition((ev["line"],), mk_items(ev["body"], ev["line"]), ev["name"]))
        elif ev["e"] == "use":
            nodes.append(n.Paragraph((ev["line"],), [n.Text((ev["line"],), "U"), n.SubstitutionReference((ev["line"],), [], ev["name"])]))
        elif ev["e"] == "inc":
            kids = []
            for k, body in ev["repl"]:
                kids.append(n.Directive((ev["line"],), [n.Paragraph((ev["line"],), mk_items(body, ev["line"]))], "", "replacement",
                                        [n.Text((ev["line"],), k)], {}))
            nodes.append(n.Directive((ev["line"],), kids, "", "include", [n.Text((ev["line"],), "/" + ev["file"])], {}))
            files_used.add(ev["file"])
        elif ev["e"] == "blockuse":
            nodes.append(n.BlockSubstitutionReference((ev["line"],), [], ev["name"]))
    return nodes


def flatten(case, events):
    """events of a page with includes spliced in (what the handler sees after pass 1)"""
    out = []
    for ev in events:
        if ev["e"] == "inc":
            out.append({"e": "enter", "file": ev["file"], "repl": [{"k": k, "v": v} for k, v in ev["repl"]]})
            out.extend(flatten(case, case["files"].get(ev["file"], [])))
            out.append({"e": "exit"})
        else:
            out.append(ev)
    return out


# ---- block/inline context adaptation (Model/SubstCtx.lean): abstract nodes <-> real n.* nodes; the id is the span line
INLINE_MAKERS = [
    lambda i: n.Text((i,), f"t{i}"),
    lambda i: n.Emphasis((i,), [n.Text((i,), f"e{i}")]),
    lambda i: n.Literal((i,), [n.Text((i,), f"l{i}")]),
    lambda i: n.Strong((i,), [n.Text((i,), f"s{i}")]),
    lambda i: n.Reference((i,), [n.Text((i,), f"r{i}")], "https://example.invalid", None),
]
BLOCK_MAKERS = [
    lambda i: n.Code((i,), None, None, False, [], f"c{i}", False, None, None),
    lambda i: n.ListNode((i,), [n.ListNodeItem((i,), [n.Paragraph((i,), [n.Text((i,), f"li{i}")])])], n.ListEnumType.unordered, None),
    lambda i: n.Directive((i,), [], "", "note", [], {}),
    lambda i: n.Comment((i,), [n.Text((i,), f"k{i}")]),
    # `|other|` alone on a line: a block-level reference that already holds block content
    lambda i: n.BlockSubstitutionReference((i,), [n.Paragraph((i,), [n.Text((i,), f"b{i}")]), n.Paragraph((i,), [n.Text((i,), f"b{i}")])], "undefined-inner"),
]
REF_LINE = 900


def ctx_real(j):
    k, i = j["k"], j["id"]
    if k == "inl":
        return INLINE_MAKERS[i % len(INLINE_MAKERS)](i)
    if k == "blk":
        return BLOCK_MAKERS[i % len(BLOCK_MAKERS)](i)
    return n.Paragraph((i,), [ctx_real(c) for c in j["c"]])


def ctx_abs(node, ref_line=None):
    """real node -> abstract node (the created paragraphs of search_block carry the span of the reference)"""
    i = node.span[0]
    if isinstance(node, n.Paragraph):
        if ref_line is not None and i == ref_line:
            return {"k": "wrap", "c": [ctx_abs(c) for c in node.children]}
        return {"k": "para", "id": i, "c": [ctx_abs(c) for c in node.children]}
    if isinstance(node, n.InlineNode):
        return {"k": "inl", "id": i}
    return {"k": "blk", "id": i}


def gen_ctx_nodes(rng):
    counter = [rng.randint(0, 40)]   # the id also selects which real class stands for an inline / block node

    def fresh():
        counter[0] += 1
        return counter[0]

    def para():
        kids = [{"k": rng.choice(["inl", "inl", "inl", "blk"] if rng.random() < 0.25 else ["inl"]), "id": fresh()} for _ in range(rng.randint(0, 3))]
        return {"k": "para", "id": fresh(), "c": kids}
    shape = rng.random()
    if shape < 0.15:
        return [{"k": "inl", "id": fresh()} for _ in range(rng.randint(0, 3))]
    if shape < 0.40:
        return [para()]
    out = []
    for _ in range(rng.randint(1, 6)):
        r = rng.random()
        out.append({"k": "inl", "id": fresh()} if r < 0.5 else (para() if r < 0.75 else {"k": "blk", "id": fresh()}))
    return out


def text_of(node):
    if isinstance(node, n.Text):
        return node.value
    if isinstance(node, n.Parent):
        return "".join(text_of(c) for c in node.children)
    return ""


class C07(core.PropertyCheck):
    id = "C07"
    quick_budget = 5000
    thorough_budget = 60000
    rule = ("pages as event lists (definitions with inline bodies that may reference other names, uses before/after definitions, includes with "
            "replacement tables, nested includes, shared include files, snooty.toml substitutions; names from a 4-letter alphabet so that every pair of "
            "levels shadows; definition graphs with cycles of length 1-3 at page/replacement/project level; 1-3 pages per project in one Postprocessor "
            "run to expose leaks) through the real SubstitutionHandler, compared per use site (expanded text) and per file (diagnostic kind, line) with "
            "the Lean model; constants: generated sources with placeholders/near-misses against ProjectConfig.substitute/render_constants. "
            "non-trivial = at least one name defined at >=2 levels or a nested reference")
    assumptions = [
        "block/inline context adaptation (extract_inline / search_inline / search_block) is modelled on abstract nodes (inline / paragraph / other block; Model/SubstCtx.lean) and compared with the real handler on project-wide definitions",
        "Python's \\w is a parameter of the constants model (ASCII table + the characters the generator uses, classified by the running re module)",
        "constant values and names are single-line in the claim constants_line_preserving (multi-line values shift lines; reported in evidence, not a violation)",
    ]

    def static_obligations(self):
        return [
            ("hnl: \\w does not match a newline", re.match(r"\w", "\n") is None, ""),
            ("hplus: \\w does not match '+'", re.match(r"\w", "+") is None, ""),
        ]

    # ------------------------------------------------------------------ generation
    def gen_body(self, rng, line, allow_ref=True):
        body = []
        for _ in range(rng.randint(1, 3)):
            if allow_ref and rng.random() < 0.35:
                body.append({"r": rng.choice(NAMES), "l": line})
            else:
                body.append({"t": rng.choice(["x", "y", "z", "w"]) + str(rng.randint(0, 9))})
        return body

    def gen_events(self, rng, counter, files, depth, cyc):
        evs = []
        for _ in range(rng.randint(1, 6)):
            counter[0] += 1
            line = counter[0]
            r = rng.random()
            if r < 0.3:
                evs.append({"e": "def", "line": line, "name": rng.choice(NAMES), "body": self.gen_body(rng, line, cyc or rng.random() < 0.5)})
            elif r < 0.75 or depth >= 2:
                evs.append({"e": "use", "line": line, "name": rng.choice(NAMES)})
            else:
                fname = f"inc{len(files)}.rst"
                files[fname] = None  # reserve
                repl = []
                for k in rng.sample(NAMES, rng.randint(0, 2)):
                    repl.append([k, self.gen_body(rng, line, cyc or rng.random() < 0.4)])
                files[fname] = self.gen_events(rng, counter, files, depth + 1, cyc)
                evs.append({"e": "inc", "line": line, "file": fname, "repl": repl})
                if rng.random() < 0.25:
                    counter[0] += 1
                    evs.append({"e": "inc", "line": counter[0], "file": fname, "repl": []})  # shared include, no replacements
        return evs

    def generate(self, rng, budget, tier):
        if tier != "search":
            for nodes in ([], [{"k": "para", "id": 1, "c": []}], [{"k": "inl", "id": 1}], [{"k": "blk", "id": 1}], [{"k": "blk", "id": 2}],
                          [{"k": "blk", "id": 3}], [{"k": "blk", "id": 4}], [{"k": "blk", "id": 5}], [{"k": "inl", "id": 2}], [{"k": "inl", "id": 3}],
                          [{"k": "para", "id": 2, "c": [{"k": "inl", "id": 1}]}],
                          [{"k": "para", "id": 2, "c": [{"k": "inl", "id": 1}]}, {"k": "para", "id": 4, "c": [{"k": "inl", "id": 3}]}]):
                yield {"kind": "ctx", "nodes": nodes}
        for i in range(budget):
            if i % 5 == 4:
                yield self.gen_const_case(rng)
                continue
            if i % 10 == 7:
                yield {"kind": "ctx", "nodes": gen_ctx_nodes(rng)}
                continue
            if i % 5 == 3:
                # project-wide substitutions only (static environment), cycles of length 1-3 frequent
                proj = []
                for k in rng.sample(NAMES, rng.randint(1, 4)):
                    proj.append([k, self.gen_body(rng, 0, True)])
                uses = [{"e": "use", "line": l + 1, "name": rng.choice(NAMES)} for l in range(rng.randint(1, 4))]
                yield {"kind": "static", "pages": {"index.txt": uses}, "files": {}, "proj": proj}
                continue
            cyc = rng.random() < 0.4
            files, counter = {}, [0]
            pages = {}
            for pi in range(rng.choice([1, 1, 2, 3])):
                pages["index.txt" if pi == 0 else f"p{pi}.txt"] = self.gen_events(rng, counter, files, 0, cyc)
            proj = []
            for k in rng.sample(NAMES, rng.randint(0, 3)):
                proj.append([k, self.gen_body(rng, 0, cyc and rng.random() < 0.7)])
            yield {"kind": "page", "pages": pages, "files": files, "proj": proj}

    def gen_const_case(self, rng):
        names = ["a", "b-c", "d_e", "é", "x1"]
        consts = []
        for k in rng.sample(names, rng.randint(0, 4)):
            v = rng.choice(["v", "1.5", "{+a+}", "x{+b-c+}y", "{+zz+}", "", "+}", "{+"]) + rng.choice(["", "q"])
            consts.append([k, v])
        parts = []
        for _ in range(rng.randint(0, 12)):
            parts.append(rng.choice(["{+a+}", "{+b-c+}", "{+d_e+}", "{+é+}", "{+x1+}", "{+nope+}", "{+a", "{+a b+}", "{++}", "{+a+", "+}", "{", "text", "\n", "\n\n", " ", "{+a+}{+a+}", "{+{+a+}+}", "‑", "{+a-+}"]))
        return {"kind": "const", "consts": consts, "src": "".join(parts), "render": rng.random() < 0.7}

    def shrink_candidates(self, case):
        if case["kind"] == "const":
            s = case["src"]
            for i in range(len(s)):
                yield {**case, "src": s[:i] + s[i + 1:]}
            for i in range(len(case["consts"])):
                yield {**case, "consts": case["consts"][:i] + case["consts"][i + 1:]}
            return
        for p in list(case["pages"]):
            if len(case["pages"]) > 1:
                yield {**case, "pages": {k: v for k, v in case["pages"].items() if k != p}}
        for grp in ("pages", "files"):
            for f, evs in case[grp].items():
                for i in range(len(evs)):
                    yield {**case, grp: {**case[grp], f: evs[:i] + evs[i + 1:]}}
                    ev = evs[i]
                    if ev["e"] == "def" and len(ev["body"]) > 1:
                        for j in range(len(ev["body"])):
                            yield {**case, grp: {**case[grp], f: evs[:i] + [{**ev, "body": ev["body"][:j] + ev["body"][j + 1:]}] + evs[i + 1:]}}
                    if ev["e"] == "inc" and ev["repl"]:
                        yield {**case, grp: {**case[grp], f: evs[:i] + [{**ev, "repl": ev["repl"][1:]}] + evs[i + 1:]}}
        for i in range(len(case["proj"])):
            yield {**case, "proj": case["proj"][:i] + case["proj"][i + 1:]}

    # ------------------------------------------------------------------ implementation
    def run_impl(self, case):
        if case["kind"] == "const":
            consts = dict(case["consts"])
            cfg = ProjectConfig(pp.config().root, "x", constants=dict(consts))
            try:
                if case["render"]:
                    cfg, d0 = cfg.render_constants()
                out, diags = cfg.substitute(case["src"])
            except Exception as e:
                return {"exc": type(e).__name__, "msg": str(e)[:200]}
            return {"exc": None, "out": out, "diags": [[getattr(d, "name", d.message), d.start[0]] for d in diags],
                    "consts": [[k, str(v)] for k, v in cfg.constants.items()], "messages": [d.message for d in diags]}
        if case["kind"] == "ctx":
            return self.run_ctx(case)
        used = set()
        pages = []
        for f, evs in case["pages"].items():
            pages.append(pp.page(f, build_nodes(evs, used)))
        for f, evs in case["files"].items():
            pages.append(pp.page(f, build_nodes(evs, used)))
        cfg = pp.config()
        cfg.substitution_nodes = {k: mk_items(body, 0) for k, body in case["proj"]}
        try:
            res = pp.run(pages, cfg)
        except RecursionError:
            return {"exc": "RecursionError"}
        except Exception as e:
            return {"exc": type(e).__name__, "msg": str(e)[:200]}
        out = {}
        for f in case["pages"]:
            ast = res.pages[n.FileId(f)].ast
            uses = []
            for node in pp.walk(ast):
                if isinstance(node, n.Paragraph) and node.children and isinstance(node.children[0], n.Text) and node.children[0].value == "U" \
                        and len(node.children) == 2 and isinstance(node.children[1], n.SubstitutionReference):
                    uses.append([node.children[1].span[0], text_of(node.children[1])])
            out[f] = uses
        diags = {}
        for fid, ds in res.diagnostics.items():
            for d in ds:
                if type(d).__name__ == "SubstitutionRefError":
                    kind = "circular" if "Circular" in d.message else "unresolved"
                elif type(d).__name__ == "InvalidContextError":
                    kind = "InvalidContextError"
                else:
                    continue  # OrphanedPage etc.: not about substitutions
                diags.setdefault(str(fid), []).append([kind, d.start[0]])
        return {"exc": None, "uses": out, "diags": {k: sorted(v) for k, v in diags.items()}}

    def run_ctx(self, case):
        """the definition as a project-wide substitution; one inline and one block reference to it on a page, through the real
        SubstitutionHandler; plus the real extract_inline called directly"""
        from snooty.postprocess import extract_inline
        try:
            r = extract_inline([ctx_real(j) for j in case["nodes"]])
            extract = {"none": True} if r is None else {"nodes": [ctx_abs(x) for x in r]}
        except Exception as e:
            extract = {"exc": type(e).__name__}
        cfg = pp.config()
        cfg.substitution_nodes = {"d": [ctx_real(j) for j in case["nodes"]]}
        inline_ref = n.SubstitutionReference((REF_LINE,), [], "d")
        block_ref = n.BlockSubstitutionReference((REF_LINE + 1,), [], "d")
        page = pp.page("index.txt", [n.Paragraph((REF_LINE,), [n.Text((REF_LINE,), "U"), inline_ref]), block_ref])
        try:
            res = pp.run([page], cfg)
        except Exception as e:
            return {"exc": type(e).__name__, "msg": str(e)[:200]}
        ast = res.pages[n.FileId("index.txt")].ast
        irefs = [x for x in pp.walk(ast) if isinstance(x, n.SubstitutionReference) and x.span[0] == REF_LINE]
        brefs = [x for x in pp.walk(ast) if isinstance(x, n.BlockSubstitutionReference) and x.span[0] == REF_LINE + 1]
        invalid = [d.start[0] for ds in res.diagnostics.values() for d in ds if type(d).__name__ == "InvalidContextError"]
        inline = {"invalid": True} if REF_LINE in invalid else {"nodes": [ctx_abs(x) for x in irefs[0].children]}
        return {"exc": None, "extract": extract, "inline": inline, "inline_children": [ctx_abs(x) for x in irefs[0].children],
                "block": [ctx_abs(x, REF_LINE + 1) for x in brefs[0].children], "invalid_lines": invalid,
                "diags": {}, "uses": {}}

    # ------------------------------------------------------------------ model
    def model_request(self, case):
        if case["kind"] == "ctx":
            return {"op": "c07.ctx", "nodes": case["nodes"]}
        if case["kind"] == "const":
            chars = sorted(set(case["src"] + "".join(k + v for k, v in case["consts"])))
            wc = "".join(c for c in chars if re.match(r"\w", c) and not (c.isascii() and (c.isalnum() or c == "_")))
            return {"op": "c07.consts", "consts": [{"k": k, "v": v} for k, v in case["consts"]], "src": case["src"], "render": case["render"], "wordchars": wc}
        if case["kind"] == "static":
            return {"op": "c07.static", "proj": [{"k": k, "v": v} for k, v in case["proj"]],
                    "uses": [{"name": ev["name"], "line": ev["line"]} for ev in case["pages"]["index.txt"]]}

        def conv(evs):
            out = []
            for ev in evs:
                if ev["e"] in ("def", "use"):
                    out.append({k: v for k, v in ev.items()})
                else:
                    out.append(ev)
            return out
        return {"op": "c07.page", "fuel": FUEL, "proj": [{"k": k, "v": v} for k, v in case["proj"]],
                "pages": [{"file": f, "events": conv(flatten(case, evs))} for f, evs in case["pages"].items()]}

    def is_cyclic(self, case):
        """a name whose body (at any level) can reach itself"""
        edges = {}
        def add(k, body):
            for it in body:
                if "r" in it:
                    edges.setdefault(k, set()).add(it["r"])
        for k, b in case["proj"]:
            add(k, b)
        for grp in ("pages", "files"):
            for evs in case[grp].values():
                for ev in evs:
                    if ev["e"] == "def":
                        add(ev["name"], ev["body"])
                    elif ev["e"] == "inc":
                        for k, b in ev["repl"]:
                            add(k, b)
        def reach(a, seen):
            for b in edges.get(a, ()):
                if b in seen:
                    return True
                if reach(b, seen | {b}):
                    return True
            return False
        return any(reach(a, {a}) for a in edges)

    def compare(self, case, model, impl):
        if impl["exc"]:
            return f"implementation raised {impl['exc']}"
        if case["kind"] == "ctx":
            for k, what in (("extract", "extract_inline"), ("inline", "search_inline"), ("block", "search_block")):
                if model[k] != impl[k]:
                    return f"{what} differs: model {json.dumps(model[k])} impl {json.dumps(impl[k])}"
            return None
        if case["kind"] == "const":
            if model["out"] != impl["out"]:
                return f"substituted text differs: model {model['out']!r} impl {impl['out']!r}"
            if model["diags"] != impl["diags"]:
                return f"ConstantNotDeclared differ: model {model['diags']} impl {impl['diags']}"
            if case["render"] and model["consts"] != impl["consts"]:
                return f"rendered constants differ: model {model['consts']} impl {impl['consts']}"
            return None
        if case["kind"] == "static":
            if not all(u["ok"] for u in model["uses"]):
                return "static model ran out of fuel (cannot happen: static_terminates)"
            want = [[u["line"], u["text"]] for u in model["uses"]]
            if want != impl["uses"]["index.txt"]:
                return f"expanded text differs: model {want} impl {impl['uses']['index.txt']}"
            md = sorted(d for u in model["uses"] for d in u["diags"])
            got = impl["diags"].get("index.txt", [])
            if md != got:
                return f"diagnostics differ: model {md} impl {got}"
            return None
        for (f, evs), mp in zip(case["pages"].items(), model["pages"]):
            if not mp["ok"]:
                return f"model ran out of fuel on {f}"
        if self.is_cyclic(case):
            # self-referential definitions: the implementation copies a definition list WHILE it is being rewritten in place;
            # the pure model does not reproduce that intermediate state. Compared: both terminate (fuel / no exception);
            # the oracle still demands a diagnostic. Exact text/diagnostics are compared on acyclic projects only.
            return None
        for (f, evs), mp in zip(case["pages"].items(), model["pages"]):
            if mp["uses"] != impl["uses"][f]:
                return f"expanded text differs on {f}: model {mp['uses']} impl {impl['uses'][f]}"
        md = {}
        for mp in model["pages"]:
            for file, kind, line in mp["diags"]:
                md.setdefault(file, []).append([kind, line])
        md = {k: sorted(v) for k, v in md.items()}
        # diagnostics of a shared include file accumulate over every page that includes it
        if md != impl["diags"]:
            return f"diagnostics differ: model {md} impl {impl['diags']}"
        return None

    # ------------------------------------------------------------------ oracle (independent reference of the scoping rules)
    def oracle(self, case, impl):
        if impl["exc"]:
            return f"substitution pass raised {impl['exc']}"
        if case["kind"] == "ctx":
            # the property itself, judged on the implementation alone: block content in an inline context is reported and not
            # inserted; in a block context nothing of the definition is lost or reordered and no inline node stays at block level
            def flat(js):
                for j in js:
                    yield (j["k"], j.get("id"))
                    yield from flat(j.get("c", []))
            kids = impl["inline_children"]
            if any(k != "inl" for k, _ in flat(kids)):
                return f"block content inserted under an inline substitution reference: {json.dumps(kids)}"
            has_block = any(k != "inl" for k, _ in flat(case["nodes"]) if True) and not (
                len(case["nodes"]) == 1 and case["nodes"][0]["k"] == "para" and all(c["k"] == "inl" for c in case["nodes"][0]["c"]))
            if has_block and "invalid" not in impl["inline"]:
                return "block content substituted into inline context without an InvalidContextError diagnostic"
            spliced = []
            for j in impl["block"]:
                if j["k"] == "wrap":
                    spliced.extend(j["c"])
                else:
                    if j["k"] == "inl":
                        return f"inline node left at block level under a block substitution reference: {json.dumps(impl['block'])}"
                    spliced.append(j)
            if spliced != case["nodes"]:
                return f"block substitution lost or reordered content: definition {json.dumps(case['nodes'])} got {json.dumps(impl['block'])}"
            return None
        if case["kind"] == "const":
            src, consts = case["src"], dict(impl["consts"])
            if not all("\n" not in v for v in consts.values()):
                return None
            if impl["out"].count("\n") != src.count("\n"):
                return "constant substitution changed the number of lines"
            # every known placeholder replaced, unknown ones reported at their line
            want = []
            for m in re.finditer(r"\{\+([\w-]+)\+\}", src):
                if m.group(1) not in consts:
                    want.append([m.group(1), src.count("\n", 0, m.start())])
            if want != impl["diags"]:
                return f"undeclared constants not reported at their lines: want {want} got {impl['diags']}"
            # every {+name+} is replaced - by the constant, or by U+200B plus a diagnostic: none survives, neither in the loaded
            # constants (rendered in declaration order) nor in the text (fragments like "{+" / "+}" inside VALUES may of course
            # line up by accident: such tables are not judged)
            if case["render"]:
                declared = dict(case["consts"])
                for k, v in impl["consts"]:
                    for m in re.finditer(r"\{\+([\w-]+)\+\}", v):
                        # (a placeholder that only came into being through a replacement - "{+{+a+}+}" - is left alone by the
                        # single pass; one that stood in the declared value itself has to be gone)
                        if m.group(0) in str(declared.get(k, "")):
                            return f"constant {k} was loaded as {v!r}: the placeholder {m.group(0)} of its declared value was neither expanded nor blanked and reported"
            return None
        if self.is_cyclic(case):
            # cyclic definitions: must terminate (it did); a use that reaches a cycle must be reported
            if case["kind"] == "static":
                proj = {k: b for k, b in case["proj"]}

                def reaches_cycle(name, path):
                    if name in path:
                        return True
                    return any("r" in it and reaches_cycle(it["r"], path + [name]) for it in proj.get(name, []))

                ncirc = sum(1 for k, l in impl["diags"].get("index.txt", []) if k == "circular")
                nreach = sum(1 for ev in case["pages"]["index.txt"] if reaches_cycle(ev["name"], []))
                # the diagnostic carries the line of the self-referential reference inside the definition, so count, not line
                if nreach > ncirc:
                    return f"{nreach} uses reach a circular project substitution but only {ncirc} circular diagnostics on the page"
            return None
        # acyclic: reference semantics of the documented scoping order, computed per use site
        proj = {k: b for k, b in case["proj"]}
        for f, evs in case["pages"].items():
            flat = flatten(case, evs)
            want_uses, want_unres = self.reference(flat, proj, f)
            got = impl["uses"][f]
            if want_uses is None:
                continue
            for file, line in want_unres:
                if ["unresolved", line] not in impl["diags"].get(file, []):
                    return f"undefined substitution used in {file} line {line} but no diagnostic for it"
            if [u for u in want_uses] != got:
                return f"use sites on {f} do not hold the definition selected by the scoping order: want {want_uses} got {got}"
        return None

    def reference(self, flat, proj, page):
        """independent reference: for each use, innermost replacement table, else latest page definition before it,
        else project, else first definition after it (page end state = last definition), else unresolved -> ''.
        Nested references inside a body are resolved in the same scope at the use site.
        Returns (uses, unresolved) or (None, None) when the case is outside the reference's validity
        (a nested reference that would be deferred: its text depends on aliasing details)."""
        final_defs = {}
        for ev in flat:
            if ev["e"] == "def":
                final_defs[ev["name"]] = ev["body"]
        uses = []
        defs = {}
        stack = []
        ok = [True]

        def expand(name, top, defs_now, depth, top_level):
            if depth > 20:
                ok[0] = False
                return ""
            body = None
            if top is not None and name in top:
                body = top[name]
            elif defs_now.get(name):
                body = defs_now[name]
            elif name in proj:
                body = proj[name]
            elif top_level and name in final_defs:
                body = final_defs[name]
                defs_now = final_defs
            elif not top_level and name in final_defs:
                ok[0] = False  # nested deferred reference: outside the reference's validity
                return ""
            if body is None:
                return ""
            out = ""
            for it in body:
                if "t" in it:
                    out += it["t"]
                else:
                    out += expand(it["r"], top, defs_now, depth + 1, False)
            return out

        unres = []
        fstack = [page]
        for ev in flat:
            if ev["e"] == "def":
                # bodies referencing names resolved at definition time differently from use time are outside validity
                defs[ev["name"]] = ev["body"]
            elif ev["e"] == "enter":
                stack.append({e["k"]: e["v"] for e in ev["repl"]})
                fstack.append(ev["file"])
            elif ev["e"] == "exit":
                stack.pop()
                fstack.pop()
            elif ev["e"] == "use":
                top = stack[-1] if stack else None
                nm = ev["name"]
                if not ((top is not None and nm in top) or defs.get(nm) or nm in proj or nm in final_defs):
                    unres.append([fstack[-1], ev["line"]])
                uses.append([ev["line"], expand(nm, top, dict(defs), 0, True)])
        if not ok[0]:
            return None, None
        # validity: a definition body containing references is expanded at definition time; if any referenced name is
        # (re)defined later or lives in a replacement table the texts may legitimately differ -> skip such pages
        for ev in flat:
            if ev["e"] == "def" and any("r" in it for it in ev["body"]):
                return None, None
            if ev["e"] == "enter" and any("r" in it for e in ev["repl"] for it in e["v"]):
                return None, None
        if any("r" in it for b in proj.values() for it in b):
            return None, None
        return uses, unres

    # ---- references inside the project's banners ----
    def extra_checks(self, tier, rng):
        """A banner declared in snooty.toml is put on the pages it targets: a `|name|` in its text is a reference in built output like any
        other - filled from the project's substitutions, or reported when nothing defines it. Real projects on disk (configuration,
        parser, postprocessor through Project.build)."""
        from pathlib import Path
        from snooty.util_test import make_test
        viol, n_ = [], 0
        for k in range(3 if tier == "quick" else 12):
            known, unknown = rng.choice(["product", "prod-name", "p1"]), rng.choice(["nosuch", "undefined-one"])
            value = rng.choice([f"Use |{known}| now", f"|{known}| is here", f"Use |{known}| and |{unknown}| now", f"See |{unknown}|"])
            target = rng.choice(["*", "index.txt", "guides/*"])
            toml = (f'name = "c07"\ntitle = "T"\n\n[substitutions]\n"{known}" = "MongoDB{k}"\n\n[[banners]]\ntargets = ["{target}"]\n'
                    f'variant = "info"\nvalue = "{value}"\n')
            files = {Path("snooty.toml"): toml,
                     Path("source/index.txt"): "=====\nIndex\n=====\n\nText.\n\n.. toctree::\n\n   /guides/a\n",
                     Path("source/guides/a.txt"): "=====\nGuide\n=====\n\nMore text.\n"}
            case = {"kind": "banner", "toml": toml}
            n_ += 1
            try:
                with make_test(files, name="c07") as result:
                    pages = {fid.as_posix(): pg.ast.serialize() for fid, pg in result.pages.items()}
                    diags = {fid.as_posix(): [type(d).__name__ for d in ds] for fid, ds in result.diagnostics.items()}
            except Exception as e:
                viol.append({"case": case, "desc": f"banner: building the project raised {type(e).__name__}: {e}"[:300], "key": "banner:raised"})
                break
            refs = []

            def walk(x, page, inside):
                if isinstance(x, dict):
                    inside = inside or (x.get("type") == "directive" and x.get("name") == "banner")
                    if inside and x.get("type") == "substitution_reference":
                        text_ = json.dumps(x.get("children"))
                        refs.append((page, x.get("name"), "MongoDB" in text_))
                    for v in x.values():
                        walk(v, page, inside)
                elif isinstance(x, list):
                    for v in x:
                        walk(v, page, inside)
            for page, doc in pages.items():
                walk(doc, page, False)
            desc = None
            for page, name, filled in refs:
                if name == known and not filled:
                    desc = f"banner: the reference |{known}| in the banner put on {page} is empty although snooty.toml defines it"
                elif name == unknown and "SubstitutionRefError" not in (diags.get(page) or []) and "SubstitutionRefError" not in (diags.get("snooty.toml") or []):
                    desc = f"banner: the reference |{unknown}| in the banner put on {page} is defined nowhere and nothing is reported (diagnostics {diags})"
                if desc:
                    break
            if desc:
                viol.append({"case": case, "impl": {"refs": refs, "diags": diags}, "desc": desc, "key": "banner"})
                break
        return viol, {"banner_references": n_}

    def finding_key(self, case, impl, desc):
        return case["kind"] + ":" + re.split(r"[:\[{]", desc)[0].strip()

    def nontrivial_key(self, case, impl):
        if case["kind"] == "const":
            return json.dumps(case, sort_keys=True) if "{+" in case["src"] else None
        return json.dumps(case, sort_keys=True)

    def branch_tags(self, case, model, impl):
        tags = [case["kind"]]
        if impl.get("exc"):
            return tags + ["exc:" + impl["exc"]]
        if case["kind"] == "ctx":
            return tags + ["ctx-invalid" if "invalid" in impl["inline"] else "ctx-inline-ok",
                           "ctx-wrapped" if any(j["k"] == "wrap" for j in impl["block"]) else "ctx-no-wrap"]
        if case["kind"] in ("page", "static"):
            if self.is_cyclic(case):
                tags.append("cyclic")
            for ds in impl["diags"].values():
                for k, _ in ds:
                    tags.append("diag:" + k)
            if len(case["pages"]) > 1:
                tags.append("multi-page")
            if case["files"]:
                tags.append("with-includes")
        else:
            if impl["diags"]:
                tags.append("undeclared")
        return tags


PROP = C07()
