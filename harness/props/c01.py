"""C01 — Parsing is total: any source text yields an AST plus diagnostics (never an exception, never a hang).

Cases:
* `doc`      grammar-based / mutated reStructuredText (impl/c01gen.py) × mode (parse_rst + Page.finish, EmbeddedRstParser.parse_block,
             parse_inline) × default_domain. Oracle: no escaped exception, no hang (10 s watchdog), the Progress contract of
             `runSM_terminates` holds on every real `StateMachine.run_sm`, result is (Page with Root ast, list of diagnostics).
             Every 6th doc (and every snippet) also RECORDS how the real `dispatch_visit` left for each node class and compares it
             with the Lean model of the translated isinstance chain (`c01.table`).
* `enum`     `Body.parse_enumerator` / `roman.to_roman` / `roman.from_roman` / `Body.make_enumerator` vs. Model/Enumerator.lean.
* `validate` the real validator functions of `Spec.get_validator` vs. Model/Validators.lean.
* `optval`   every option validator registered for every directive on ill-typed strings: only ValueError/TypeError may escape
             (the classes `parse_extension_options` converts — theorem `option_errors_handled`).
"""
import hashlib
import json
import random
import re
import sys
import types
import unicodedata

import core
from impl import c01gen, c01run

DOMAINS = [None, "mongodb", "std", "py", "js", "zz"]
SEQS = ["arabic", "loweralpha", "upperalpha", "lowerroman", "upperroman"]
PRIMS = ["integer", "nonnegative_integer", "path", "uri", "string", "length", "boolean", "flag", "linenos"]
UNMODELLED_KINDS = {"enum:iso_8601"}


def _nonascii_env(arg):
    spaces, digits, lower = "", [], []
    for c in sorted(set(arg or "")):
        if ord(c) < 128:
            continue
        if c.isspace():
            spaces += c
        d = unicodedata.decimal(c, None)
        if d is not None:
            digits.append({"c": c, "v": int(d)})
        if c.lower() != c:
            lower.append({"c": c, "v": c.lower()})
    return spaces, digits, lower


def _lean_safe(s):
    """Lean `Char` cannot hold lone surrogates (recorded assumption)"""
    return s is None or not any(0xD800 <= ord(c) <= 0xDFFF for c in s)


class C01(core.PropertyCheck):
    id = "C01"
    quick_budget = 9000
    thorough_budget = 120000
    rule = ("grammar-based reStructuredText: every block and inline construct of the tinydocutils state machine (sections with any "
            "adornment, bullet/enumerated lists of every enumerator style incl. roman up to 12000 and malformed numerals, definition/field/"
            "option lists, line blocks, literal blocks, doctest blocks, simple/grid tables, footnotes, citations, citation references, "
            "hyperlink targets incl. anonymous/indirect/malformed, substitution definitions, comments, transitions, block quotes), every "
            "directive/role/rstobject of rstspec.toml (read via Spec.get()) with present/absent/ill-typed arguments, options, content, "
            "nesting up to 12, plus a mutation stream (char/byte/line deletion, duplication, insertion, indentation change, truncation, "
            "splicing, CR/LF) x {parse_rst+Page.finish, EmbeddedRstParser.parse_block, parse_inline} x default_domain in "
            f"{DOMAINS}; kernel cases for parse_enumerator/roman/make_enumerator and the option validators. non-trivial = distinct text")
    assumptions = [
        "texts hold no lone surrogate code points (Lean Char cannot; Python str can) and are at most a few hundred lines, nesting <= 12",
        "the Progress contract of runSM_terminates (adv_mono, adv_forced, forced_settles, trans_same, state_corr) is monitored on every "
        "real run_sm of every generated text, not proved for the ~40 transition methods",
        "regular expressions of Inliner/Body, the table parsers, each directive's run() and the departure handlers are not modelled: "
        "for them totality is established by the fuzz only (testing)",
        "network branches (sharedinclude, openapi url) fail fast offline and become diagnostics",
    ]
    extra_trusted = ["harness/gen_c01.py (ast translators for Gen/Dispatch, NodeKinds, Emitted, Enum)",
                     "harness/impl/c01run.py (watchdog, StateMachine.check_line/run_sm monitor, dispatch recorder)"]

    # ------------------------------------------------------------------ translators
    def gen_tables(self):
        import gen_c01
        try:
            gen_c01.write()
        except Exception as e:
            return [f"gen_c01: {type(e).__name__}: {e}"]
        return []

    # ------------------------------------------------------------------ hypotheses checked on the running Python
    def static_obligations(self):
        from snooty import specparser
        from snooty.tinydocutils import nodes, states
        out = []
        e = states.Body.enum
        want = {"arabic": "[0-9]+", "loweralpha": "[a-z]", "upperalpha": "[A-Z]", "lowerroman": "[ivxlcdm]+", "upperroman": "[IVXLCDM]+"}
        ok = dict(e.sequencepats) == want and list(e.sequences) == SEQS and set(e.converters) == set(SEQS)
        out.append(("sequencepats_as_modelled", ok, f"sequencepats={dict(e.sequencepats)} sequences={list(e.sequences)}"))
        ok = getattr(sys, "get_int_max_str_digits", lambda: 4300)() == 4300
        out.append(("int_max_str_digits_4300", ok, str(getattr(sys, "get_int_max_str_digits", lambda: None)())))
        r = nodes.Reporter
        lv = [getattr(r, n, None) for n in ("DEBUG_LEVEL", "INFO_LEVEL", "WARNING_LEVEL", "ERROR_LEVEL", "SEVERE_LEVEL")]
        out.append(("reporter_levels_at_most_4", all(isinstance(x, int) and x <= 4 for x in lv), str(lv)))
        # every option / argument validator kind of the spec is modelled or listed
        spec = specparser.Spec.get()
        kinds = set()

        def walk(k):
            if isinstance(k, list):
                for x in k:
                    walk(x)
            else:
                kinds.add(k)
        for d in list(spec.directive.values()) + list(spec.rstobject.values()):
            for v in d.options.values():
                walk(c01gen._optkind(spec, v))
        bad = sorted(k for k in kinds if not (k in PRIMS or (k.startswith("enum:") and k[5:] in spec.enum) or k in UNMODELLED_KINDS))
        out.append(("validator_kinds_covered", not bad, f"kinds={sorted(kinds)} unmodelled={sorted(UNMODELLED_KINDS)} unknown={bad}"))
        ok = set(specparser.VALIDATORS) == set(specparser.PrimitiveType) and [p.name for p in specparser.PrimitiveType] == PRIMS
        out.append(("validators_table_keys", ok, str([p.name for p in specparser.VALIDATORS])))
        # the visitor's node stack: hypotheses of visitor_stack_spec monitored on real walks + model/implementation correspondence
        from impl import c01visit
        n_docs = 500 if getattr(self, "tier", "quick") == "quick" else 5000
        try:
            problems, stats = c01visit.correspondence(n_docs, getattr(self, "seed", 0))
            self.visit_stats = stats
            ok = not problems and stats["walks"] >= n_docs // 2 and stats["exit_kinds"].get("skipNode", 0) > 0 and stats["term_events"] > 0
            out.append((f"visitor node stack: on {stats['walks']} real walks ({stats['nodes']} docutils nodes, {stats['inline_walks']} by the inline visitor) every outcome of "
                        "dispatch_visit is a translated path of its branch and paired, terms reach definition list items only, and the tree the real "
                        "attach/term/drop events build equals the Lean model's walk and its stack-free specification",
                        ok, "; ".join(problems[:3]) if problems else f"too little exercised: {stats}"))
        except core.Infra:
            raise
        except Exception as e:
            out.append(("visitor node stack correspondence ran", False, f"{type(e).__name__}: {e}"))
        return out

    # ------------------------------------------------------------------ generation
    def generate(self, rng, budget, tier):
        c01run.root()  # fixture tree exists before the pool forks
        snippets = c01gen.snippets()
        for kind, text in sorted(snippets.items()):
            for mode in ("page", "inline"):
                yield {"kind": "doc", "text": text, "mode": mode, "domain": None, "record": True, "origin": "snippet:" + kind}
        if tier != "search":
            # roman.py exhaustively: every number with a numeral (and the two neighbours outside), every string over the
            # numeral letters up to length 4, and the classic malformed numerals
            import itertools
            for n in range(0, 5002):
                yield {"kind": "enum", "what": "to_roman", "n": n}
            bad = ["IIII", "VX", "IC", "", "MMMMM", "MMMM", "IIV", "VV", "LL", "DD", "XXXX", "CCCC", "IL", "XM", "MCMXCIXI", "iv", "Iv", " IV", "IV ", "I V",
                   "MMMMCMXCIX", "MMMMCMXCIXI", "XXI", "N", "0", "Ⅳ", "IVXLCDM", "MDCLXVI", "MCDXLIV", "CMCM", "CMD", "CDC", "XCX", "XLX", "IXI", "IVI"]
            for L in range(0, 5):
                for t in itertools.product("IVXLCDM", repeat=L):
                    bad.append("".join(t))
            for s_ in bad:
                yield {"kind": "enum", "what": "from_roman", "s": s_}
        n_kernel = 0 if tier == "search" else max(300, budget // 6)
        n_docs = budget - n_kernel if tier != "search" else budget
        dnames = sorted(d["name"] for d in c01gen.tables()[0])
        for i in range(n_docs):
            # every other document favours one directive, each directive of the spec in turn: the special cases of a directive
            # (nested facets, option combinations of a tabs block, ...) need several of its instances in one document
            g = c01gen.Gen(rng, focus=dnames[(i // 2) % len(dnames)] if i % 2 == 0 else None)
            r = rng.random()
            if r < 0.50:
                text = g.doc()
            elif r < 0.60:
                text = g.deep()
            elif r < 0.90:
                text = c01gen.mutate(rng, g.doc())
            else:
                text = c01gen.mutate(rng, g.deep())
            text = "".join(c for c in text if not 0xD800 <= ord(c) <= 0xDFFF)
            case = {"kind": "doc", "text": text, "mode": rng.choice(["page"] * 6 + ["block", "inline"]), "domain": rng.choice(DOMAINS)}
            if rng.random() < 0.05:
                case["sharedinclude"] = True
            if i % 6 == 0:
                case["record"] = True
            yield case
        for i in range(n_kernel):
            k = i % 4
            if k == 0:
                yield self.gen_enum(rng)
            elif k == 1:
                yield self.gen_validate(rng)
            elif k == 2:
                yield self.gen_optval(rng)
            else:
                yield self.gen_enum(rng) if rng.random() < 0.5 else self.gen_validate(rng)

    def gen_enum(self, rng):
        what = rng.choice(["parse"] * 5 + ["to_roman", "from_roman", "make", "make"])
        g = c01gen.Gen(rng)
        if what == "parse":
            seq = rng.choice(SEQS + ["auto", "bad", "lowerroman", "upperroman"])
            n = rng.choice([1, 2, 3, 4, 5, 7, 8, 9, 10, 18, 19, 20, 21, 26, 27, 40, 99, 400, 3999, 4999, 5000, 0]) if rng.random() < 0.7 else rng.randint(0, 5200)
            text = g.enumerator(seq, n)
            if len(text) > 40 and rng.random() < 0.7:
                text = text[:40]
            return {"kind": "enum", "what": "parse", "text": text, "fmt": rng.choice(["parens", "rparen", "period"]),
                    "expected": rng.choice([None, None] + SEQS + (["zz"] if rng.random() < 0.1 else []))}
        if what == "to_roman":
            return {"kind": "enum", "what": "to_roman", "n": rng.choice([0, 1, 7, 8, 9, 19, 20, 21, 22, 100, 4999, 5000, 10 ** 6, rng.randint(0, 6000)])}
        if what == "from_roman":
            return {"kind": "enum", "what": "from_roman", "s": rng.choice([c01gen.roman(rng.randint(1, 5200)), c01gen.mutate(rng, c01gen.roman(rng.randint(1, 4999))), "VIII", "VII", "IIII", "", "vii", "XX", "XXI", "IC"])}
        return {"kind": "enum", "what": "make", "ordinal": rng.choice([1, 2, 8, 9, 20, 21, 26, 27, 28, 100, 4999, 5000, 5001, rng.randint(1, 40), rng.randint(1, 6000)]),
                "seq": rng.choice(SEQS + ["#"] + (["zz"] if rng.random() < 0.05 else [])), "fmt": rng.choice(["parens", "rparen", "period"])}

    def gen_validate(self, rng):
        from snooty import specparser
        spec = specparser.Spec.get()

        def one():
            r = rng.random()
            if r < 0.7:
                return rng.choice(PRIMS)
            return "enum:" + rng.choice(sorted(spec.enum))
        vk = one() if rng.random() < 0.8 else [one() for _ in range(rng.randint(1, 3))]
        r = rng.random()
        if r < 0.08:
            arg = None
        elif r < 0.5:
            arg = rng.choice(c01gen.ILL)
        elif r < 0.75:
            body = "".join(rng.choice("0123456789_. +-") for _ in range(rng.randint(0, 6)))
            arg = rng.choice(["", " ", "\t", " ", " "]) + rng.choice(["", "+", "-"]) + body + rng.choice(["", " ", "\n", "px", " px", "%", "em", " %", "pt\n", "\x1f"])
        elif r < 0.85:
            arg = "".join(rng.choice("١٢٣１２३०9_ ") for _ in range(rng.randint(1, 5)))
        else:
            vals = [v for vs in spec.enum.values() for v in vs] + ["true", "false"]
            v = rng.choice(vals)
            arg = rng.choice(["", " ", " "]) + rng.choice([v, v.upper(), v.title(), v + "x", "İ" + v]) + rng.choice(["", " ", "\n", " "])
        if rng.random() < 0.01:
            arg = "9" * rng.choice([4300, 4301, 4400])
        return {"kind": "validate", "vkind": vk, "arg": arg}

    def gen_optval(self, rng):
        g = c01gen.Gen(rng)
        d = rng.choice([d for d in g.directives if d["opts"]])
        k = rng.choice(d["opts"])
        arg = None if rng.random() < 0.1 else (rng.choice(c01gen.ILL) if rng.random() < 0.7 else g.optvalue(d["optspec"].get(k, "string")))
        return {"kind": "optval", "directive": d["name"], "option": k, "arg": arg}

    # ------------------------------------------------------------------ shrinking
    def shrink_candidates(self, case):
        if case["kind"] != "doc":
            return
        text = case["text"]
        lines = text.split("\n")
        for size in (32, 16, 8, 4, 2, 1):
            if size > len(lines):
                continue
            for i in range(0, len(lines), size):
                cand = lines[:i] + lines[i + size:]
                if cand != lines:
                    yield {**case, "text": "\n".join(cand)}
        if len(text) <= 200:
            for i in range(len(text)):
                yield {**case, "text": text[:i] + text[i + 1:]}
        if case.get("domain") is not None:
            yield {**case, "domain": None}

    # ------------------------------------------------------------------ implementation
    def run_impl(self, case):
        kind = case["kind"]
        if kind == "doc":
            # in the main process (corpus, shrinking, confirmation, --replay) each parse runs in a child that can be killed; the
            # workers of the case stream are watched - and killed, if need be - by the harness core
            r = c01run.run(case, stream=True) if core.IN_STREAM_WORKER else c01run.run_isolated(case)
            r.pop("tb", None)
            return r
        if kind == "enum":
            return self.impl_enum(case)
        if kind == "validate":
            return self.impl_validate(case)
        return self.impl_optval(case)

    def impl_enum(self, case):
        from snooty.tinydocutils import roman, states
        stub = types.SimpleNamespace(enum=states.Body.enum)
        what = case["what"]
        try:
            if what == "parse":
                info = states.Body.enum.formatinfo[case["fmt"]]
                line = info.prefix + case["text"] + info.suffix + " x"
                m = states.Body.ENUMERATOR_PAT.match(line)
                if not m or not m.group(case["fmt"]):
                    return {"nomatch": True}
                fmt, seq, text, ordinal = states.Body.parse_enumerator(stub, m, case["expected"])
                if text != case["text"] or fmt != case["fmt"]:
                    return {"nomatch": True}  # the pattern split the line differently (e.g. `(1.`): not the case we asked about
                return {"seq": seq, "ordinal": ordinal}
            if what == "to_roman":
                r = roman.to_roman(case["n"])
                return {"ok": r, "back": roman.from_roman(r)}
            if what == "from_roman":
                return {"ok": roman.from_roman(case["s"])}
            res = states.Body.make_enumerator(stub, case["ordinal"], case["seq"], case["fmt"])
            return {"ok": None if res is None else res[0]}
        except Exception as e:
            # the model's error channel has the classes the handlers name; a subclass (roman.OutOfRangeError,
            # roman.InvalidRomanNumeralError are ValueErrors) is reported as the first of those in its MRO
            known = ("ParserError", "ValueError", "TypeError", "KeyError")
            name = next((c.__name__ for c in type(e).__mro__ if c.__name__ in known), type(e).__name__)
            return {"err": name, "cls": type(e).__name__}

    def _validator(self, vk):
        from snooty import specparser
        spec = specparser.Spec.get()

        def conv(k):
            if isinstance(k, list):
                return [conv(x) for x in k]
            if k.startswith("enum:"):
                return k[5:]
            return specparser.PrimitiveType[k]
        return spec.get_validator(conv(vk))

    def impl_validate(self, case):
        try:
            v = self._validator(case["vkind"])(case["arg"])
        except Exception as e:
            return {"err": type(e).__name__, "mro": [c.__name__ for c in type(e).__mro__]}
        return {"ok": str(v)}

    def impl_optval(self, case):
        from snooty import rstparser
        reg = rstparser.Registry.get(None)
        dom, name = (case["directive"].split(":", 1) + [None])[:2] if ":" in case["directive"] else ("", case["directive"])
        cls = reg.domains[dom].directives.get(name)
        if cls is None or case["option"] not in (cls.option_spec or {}):
            return {"skip": True}
        try:
            cls.option_spec[case["option"]](case["arg"])
        except Exception as e:
            return {"err": type(e).__name__, "msg": str(e)[:100], "mro": [c.__name__ for c in type(e).__mro__]}
        return {"ok": True}

    # ------------------------------------------------------------------ model
    def model_request(self, case):
        kind = case["kind"]
        if kind == "doc":
            return {"op": "c01.table"} if case.get("record") else None
        if kind == "enum":
            if not all(_lean_safe(case.get(k)) for k in ("text", "s") if isinstance(case.get(k), str)):
                return None
            req = {"op": "c01.enum", "what": case["what"]}
            for k in ("text", "n", "s", "ordinal", "seq"):
                if k in case:
                    req[k] = case[k]
            if case.get("expected") is not None:
                req["expected"] = case["expected"]
            if case["what"] == "to_roman" and case["n"] < 0:
                return None
            return req
        if kind == "validate":
            if not _lean_safe(case["arg"]):
                return None
            from snooty import specparser
            spec = specparser.Spec.get()

            def enc(k):
                if isinstance(k, list):
                    return [enc(x) for x in k]
                if k.startswith("enum:"):
                    return {"enum": list(spec.enum[k[5:]])}
                return k
            spaces, digits, lower = _nonascii_env(case["arg"])
            return {"op": "c01.validate", "kind": enc(case["vkind"]), "arg": case["arg"], "spaces": spaces, "digits": digits, "lower": lower}
        return None

    def compare(self, case, model, impl):
        kind = case["kind"]
        if kind == "doc":
            table, emitted = model["table"], set(model["emitted"])
            for k, label, outcome in impl.get("dispatch", []):
                row = table.get(k)
                if row is None:
                    return f"the real doctree holds a node of class {k} that is not in Gen/NodeKinds"
                if k not in emitted:
                    return f"the real doctree holds a {k} node but Gen/Emitted (ast scan of constructor references) does not list it"
                tags = row[label]
                if outcome not in tags:
                    return f"real {label} dispatch of {k} left by {outcome}; model allows {tags}"
            return None
        if kind == "enum":
            if impl.get("nomatch"):
                return None
            if case["what"] == "parse":
                m = model if "err" in model else {"seq": model["seq"], "ordinal": model["ordinal"]}
                impl = {k: v for k, v in impl.items() if k != "cls"}
                return None if m == impl else f"parse_enumerator: model {m} impl {impl}"
            if case["what"] == "make" and "ok" in model and "ok" in impl and model["ok"] is not None:
                from snooty.tinydocutils import states
                info = states.Body.enum.formatinfo[case["fmt"]]
                m = {"ok": info.prefix + model["ok"] + info.suffix + " "}
                return None if m == impl else f"make_enumerator: model {m} impl {impl}"
            im = {k: v for k, v in impl.items() if k not in ("back", "cls")}
            return None if model == im else f"{case['what']}: model {model} impl {im}"
        if kind == "validate":
            if "err" in model or "err" in impl:
                return None if model.get("err") == impl.get("err") else f"validator {case['vkind']}({case['arg']!r}): model {model} impl {impl}"
            if self._value_opaque(case["vkind"], case["arg"]):
                return None
            return None if model["ok"] == impl["ok"] else f"validator {case['vkind']}({case['arg']!r}): model {model} impl {impl}"
        return None

    def _value_opaque(self, vk, arg):
        """uri's return value (whitespace-normalised) is not modelled: only ok/error is compared when a uri branch may answer"""
        ks = vk if isinstance(vk, list) else [vk]
        return "uri" in ks

    # ------------------------------------------------------------------ oracle
    def oracle(self, case, impl):
        kind = case["kind"]
        if kind == "doc":
            if impl["exc"] == "Hang":
                return "parse did not terminate: " + (impl["monitor"][0] if impl["monitor"] else f"watchdog {c01run.WATCHDOG_S}s")
            if impl["exc"]:
                return f"{impl['exc']} @ {impl.get('where')} : {impl.get('detail', '')}"
            if impl["monitor"]:
                return "state machine Progress contract broken: " + impl["monitor"][0]
            if not impl.get("ok_shape"):
                return f"result is not (Page with Root ast, list of diagnostics): {impl.get('shape')}"
            return None
        if kind == "optval":
            if impl.get("err") and not self._converted(impl.get("mro", [impl["err"]])):
                return f"{impl['err']} @ option validator {case['directive']}:{case['option']} : not converted by parse_extension_options"
            return None
        if kind == "validate":
            if impl.get("err") and not self._converted(impl.get("mro", [impl["err"]])):
                return f"{impl['err']} @ validator {case['vkind']} : not converted by parse_extension_options"
            return None
        if kind == "enum" and case["what"] == "to_roman" and "back" in impl and impl["back"] != case["n"]:
            return f"roman table: from_roman(to_roman({case['n']})) = {impl['back']} (to_roman gave {impl['ok']!r}) — theorem roman_roundtrip on the implementation"
        if kind == "enum" and case["what"] == "parse" and impl.get("err") and case.get("expected") in [None] + SEQS:
            return f"{impl['err']} @ tinydocutils/states.py:Body.parse_enumerator : {case['text'][:20]}"
        return None

    _caught = None

    def _converted(self, mro):
        """is an exception with this MRO caught by one of the except-clauses around extract_extension_options (translated table)?"""
        if self._caught is None:
            import gen_c01
            try:
                C01._caught = {c for names, _ in gen_c01.enum_tables()["option_handlers"] for c in names}
            except Exception:
                C01._caught = {"KeyError", "ValueError", "TypeError", "ExtensionOptionError"}
        return any(c in self._caught for c in mro)

    def finding_key(self, case, impl, desc):
        if case["kind"] == "doc" and impl.get("exc") and impl["exc"] != "Hang":
            return f"{impl['exc']} @ {impl.get('where')} : {impl.get('detail', '')}"
        return re.sub(r"\d+", "N", desc)[:160]

    # ------------------------------------------------------------------ evidence
    def nontrivial_key(self, case, impl):
        if case["kind"] == "doc":
            return case["text"] + "|" + str(case["mode"]) + "|" + str(case["domain"]) if case["text"].strip() else None
        return json.dumps(case, sort_keys=True)

    _BLANK = {"shape": [], "diag_classes": [], "max_per_line": 0, "checks": 0, "corrections": 0}

    def killed_impl(self, case):
        # the worker did not come back - not even to the watchdog signals, which only fire between two bytecodes: the interpreter
        # was inside one C call (a regular expression that backtracks without end is the usual one)
        return {**self._BLANK, "exc": "Hang", "where": "killed", "detail": "", "ok_shape": False,
                "monitor": [f"no answer within {core.CASE_KILL_S:.0f} s of wall time, not even to the watchdog signals (the interpreter sat inside one C call)"]}

    def skipped_impl(self, case):
        return {**self._BLANK, "exc": None, "skipped_after_hangs": True, "ok_shape": True, "monitor": [], "err": None}

    def branch_tags(self, case, model, impl):
        kind = case["kind"]
        if kind == "doc" and impl.get("skipped_after_hangs"):
            return ["doc:not-parsed-after-a-dozen-hangs"]
        if kind != "doc":
            t = [kind + (":" + case["what"] if kind == "enum" else "")]
            if impl.get("err"):
                t.append(f"{kind}:err:{impl['err']}")
            return t
        tags = ["doc:" + case["mode"], "domain:" + str(case["domain"])]
        if case.get("origin"):
            tags.append("snippet")
        for d in impl.get("diag_classes", []):
            tags.append("diag:" + d)
        for k, label, outcome in impl.get("dispatch", []):
            tags.append(f"dispatch:{label}:{k}:{outcome}")
        if impl.get("corrections"):
            tags.append("sm:correction")
        tags.append(f"sm:max_checks_per_line:{impl.get('max_per_line')}")
        if impl.get("exc"):
            tags.append("exc:" + str(impl["exc"]))
        return tags

    def sample(self, case, impl):
        if case["kind"] == "doc":
            return {"case": {**case, "text": case["text"][:400]}, "diag_classes": impl.get("diag_classes"), "checks": impl.get("checks")}
        return {"case": case, "impl": impl}


PROP = C01()
