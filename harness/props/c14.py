"""C14 — diagnostics reach the user: complete, correctly attributed, filtered, counted.

Case kinds
  merge : generated producer maps pushed through a REAL `PageDatabase` (`__setitem__`, `set_orphan_diagnostics`,
          `merge_diagnostics`) and the real `filter_diagnostics`, with real `Diagnostic` subclasses; compared with the model.
  walk  : generated Root/include trees walked by the REAL `EventParser`; the file id a handler sees as
          `fileid_stack.current` on each fault node, compared with the model (`attribution`).
  e2e   : a small project in a temp dir seeded with a KNOWN multiset of faults, built with the real
          `Project(root, backend, {}).build()` (recording backend derived from `main.Backend`, so the real error
          counter runs), then once more through the real `snooty.main.main()` for the exit status and the
          DIAGNOSTICS_FORMAT=JSON output.  The producers (`_parsed` writes, orphan map, postprocess map, init map)
          are recorded by a `PageDatabase` subclass and fed to the model; the two delivery streams are compared.
          The oracle is the property itself (see `oracle_e2e`).
"""
import contextlib
import copy
import io
import json
import os
import shutil
import subprocess
import sys
import tempfile
import threading
from collections import Counter
from pathlib import Path

import core
from snooty import diagnostics as sd
from snooty import main as snooty_main
from snooty import n
from snooty.diagnostics import Diagnostic
from snooty.eventparser import EventParser
from snooty.n import FileId
from snooty.page import Page
from snooty.page_database import PageDatabase
from snooty.parser import Project, filter_diagnostics
from snooty.types import ProjectConfig

# real classes used by the map-level cases (name -> class); severity comes from the class
POOL = ["OrphanedPage", "TargetNotFound", "DocUtilsParseError", "CannotOpenFile", "ImageSizeUndetermined",
        "TodoInfo", "SubstitutionRefError", "ConstantNotDeclared", "MissingTocTreeEntry", "ErrorParsingYAMLFile"]
FILES = ["index.txt", "a.txt", "dir/b.txt", "includes/shared.rst", "includes/steps-x.yaml", "includes/extracts-y.yaml",
         "snooty.toml", "ref/c.txt"]


def mk_diag(cls_name, line, tag):
    """a real Diagnostic object; the message depends on the line only, so two different objects of one class on
    one line compare equal (`Diagnostic.__eq__`) while remaining different objects"""
    cls = getattr(sd, cls_name)
    d = cls.__new__(cls)
    Diagnostic.__init__(d, f"m{line}", line)
    return d


def wire(d, tag):
    return {"c": type(d).__name__, "l": max(0, d.start[0]), "s": int(d.severity), "t": tag}


# --------------------------------------------------------------------------------------
# e2e: project specification -> files + seeded faults
# --------------------------------------------------------------------------------------
# every fault: (lines to write, offset of the faulty line inside them, classes any ONE of which may report it,
#               minimum number of diagnostics it produces)
PAGE_FAULTS = ["unknown_directive", "unknown_role", "bad_option", "missing_include", "missing_literalinclude",
               "missing_image", "undefined_ref", "undefined_substitution", "undefined_constant", "conflict", "arg_role", "todo", "monospace", "linksyntax", "unexpected_indent"]
POSTPROCESS_FAULTS = ["missing_include", "undefined_ref", "undefined_substitution"]
YAML_FAULTS = ["unknown_role", "undefined_ref", "missing_image", "unknown_directive", "undefined_constant", "arg_role", "todo"]


def block_lines(b):
    t, k = b["t"], b["n"]
    if t == "text":
        if b.get("ff"):
            # a form feed (an old-fashioned page break) or a vertical tab inside a line is white space, not a line end: every line below
            # keeps its number
            return [f"Plain paragraph{chr(12) if k % 2 else chr(11)} number {k}.", ""], None, None
        return [f"Plain paragraph number {k}.", ""], None, None
    if t == "unknown_directive":
        return [f".. bogusdirective{k}::", ""], 0, ["DocUtilsParseError"]
    if t == "unknown_role":
        return [f"Some text :bogusrole{k}:`x` more text.", ""], 0, ["DocUtilsParseError"]
    if t == "arg_role":
        # the problem sits in the ARGUMENT of a directive (generic directive / version directive)
        if k % 2:
            return [f".. versionchanged:: 4.2 Changed :bogusarg{k}:`x` here", "", "   Body.", ""], 0, ["DocUtilsParseError"]
        return [f".. note:: Title with :bogusarg{k}:`x`", "", "   Body.", ""], 0, ["DocUtilsParseError"]
    if t == "todo":
        return [f".. todo:: write section {k}", ""], 0, ["TodoInfo"]
    if t == "monospace":
        # single backquotes (the default role): a warning about the markup, at the line of the markup
        return [f"Paragraph {k} uses `single{k}` backquotes.", ""], 0, ["IncorrectMonospaceSyntax"]
    if t == "unexpected_indent":
        # a paragraph of three lines directly followed by an indented line: reported at the indented line, nothing invented
        return [f"Paragraph {k} line one", "line two", "line three", f"   indented {k}", ""], 3, ["DocUtilsParseError", "UnexpectedIndentation"]
    if t == "linksyntax":
        return [f"A link written as `text{k} <https://example.com/{k}>` without the underscore.", ""], 0, ["IncorrectLinkSyntax"]
    if t == "bad_option":
        return [".. list-table::", f"   :header-rows: notanumber{k}", "", "   * - a", "     - b", ""], 0, ["DocUtilsParseError"]
    if t == "missing_include":
        return [f".. include:: /includes/missing-{k}.rst", ""], 0, ["CannotOpenFile"]
    if t == "missing_literalinclude":
        return [f".. literalinclude:: /includes/nofile-{k}.py", ""], 0, ["CannotOpenFile"]
    if t == "missing_image":
        return [f".. image:: /images/none-{k}.png", "   :alt: nothing", ""], 0, ["CannotOpenFile"]
    if t == "undefined_ref":
        return [f"See :ref:`no-such-target-{k}` for more.", ""], 0, ["TargetNotFound"]
    if t == "undefined_substitution":
        return [f"A |nosub{k}| here.", ""], 0, ["SubstitutionRefError"]
    if t == "undefined_constant":
        return [f"Version {{+noconst{k}+}} here.", ""], 0, ["ConstantNotDeclared"]
    if t == "conflict":
        return [f"<<<<<<< HEAD", f"ours {k}", "=======", f"theirs {k}", ">>>>>>> branch", ""], 0, ["GitMergeConflictArtifactFound"]
    if t == "bad_image_file":
        return [f".. image:: /images/garbage-{k}.png", "   :alt: garbage", ""], None, None
    if t == "use_include":
        return [f".. include:: /includes/{b['name']}.rst", ""], None, None
    if t == "use_extract":
        return [f".. include:: /includes/extracts/{b['name']}.rst", ""], None, None
    raise ValueError(t)


def render_blocks(blocks, fileid, faults, first_line, container, indent=""):
    lines = []
    for b in blocks:
        ls, off, classes = block_lines(b)
        if classes is not None:
            faults.append({"file": fileid, "line": first_line + len(lines) + off, "classes": classes,
                           "kind": b["t"], "in": container, "n": b["n"]})
        lines += [indent + l if l else "" for l in ls]
    return lines


def render(case):
    """-> (files: {relative path: str|bytes}, faults: [ {file, line, classes, kind, in, alt_line?} ])"""
    files, faults = {}, []
    cfg = case["config"]
    toml = ['name = "verif_c14"', 'title = "C14"']
    if cfg.get("silence"):
        toml.append("silence_diagnostics = [" + ", ".join(json.dumps(s) for s in cfg["silence"]) + "]")
    if cfg.get("fail"):
        toml.append("fail_on_diagnostics = true")
    toml.append("")
    toml.append("[constants]")
    toml.append('known = "1.0"')
    toml.append("")
    toml.append("[substitutions]")
    toml.append('fine = "all **good**"')
    for k in cfg.get("bad_substitutions", []):
        # the value is parsed on its own: the parser reports line 0 of the value; the true line in snooty.toml is len(toml)
        faults.append({"file": "snooty.toml", "line": 0, "alt_line": len(toml), "classes": ["DocUtilsParseError"],
                       "kind": "config_substitution", "in": "config", "n": k})
        # odd k: the value is nothing but the faulty role; even k: the faulty role sits in running text
        toml.append(f'bad{k} = ":bogusrole{k}:`x`"' if k % 2 else f'bad{k} = "Some :bogusrole{k}:`x` text"')
    # a faultless substitution AFTER the faulty ones: diagnostics must be kept per substitution, not only for the last
    toml.append('zlast = "also *fine*"')
    for k in cfg.get("bad_banners", []):
        toml += ["", "[[banners]]", 'targets = ["*"]', 'variant = "info"']
        faults.append({"file": "snooty.toml", "line": 0, "alt_line": len(toml), "classes": ["DocUtilsParseError"],
                       "kind": "config_banner", "in": "config", "n": k})
        # even k: faulty role in running text; odd k: the value is nothing but the faulty role (parses to NO content, only
        # a diagnostic - the diagnostic must be delivered all the same)
        toml.append(f'value = ":bogusbanner{k}:`x`"' if k % 2 else f'value = "Banner :bogusbanner{k}:`x`"')
    files["snooty.toml"] = "\n".join(toml) + "\n"
    fk = cfg.get("facets")
    if fk:
        good = ['[[facets]]', 'category = "genre"', 'value = "reference"', '']
        bad = ['[[facets]]', 'category = "genre"', 'value = "no-such-genre"', '']
        files["source/facets.toml"] = "\n".join({"valid": good, "partly": good + bad, "invalid": bad}[fk]) + "\n"
        if fk != "valid":
            # one entry names a value the taxonomy does not have - whether or not another entry of the file is fine
            faults.append({"file": "facets.toml", "line": None, "classes": ["MissingFacet"], "kind": "facets_value", "in": "config", "n": 0})

    # pages
    listed = [p["name"] for p in case["pages"] if p.get("toc") and p["name"] != "index"]
    for p in case["pages"]:
        fid = p["name"] + ".txt"
        title = p["name"].replace("/", " ")
        head = ["=" * max(10, len(title)), title, "=" * max(10, len(title)), ""]
        if p["name"] == "index":
            entries = ["/" + x for x in listed] + ["/" + x for x in case.get("toc_missing", [])]
            if entries:
                tline = len(head)
                head += [".. toctree::", ""] + ["   " + e for e in entries] + [""]
                for i, m in enumerate(case.get("toc_missing", [])):
                    faults.append({"file": fid, "line": tline, "alt_line": tline + 2 + len(listed) + i,
                                   "classes": ["MissingTocTreeEntry"], "kind": "toctree_missing", "in": "page", "n": m})
        elif not p.get("toc"):
            faults.append({"file": fid, "line": 0, "classes": ["OrphanedPage"], "kind": "orphan", "in": "page", "n": p["name"]})
        if p.get("bom"):
            # the very first line of such a file is a label that the index refers to
            head = [f".. _top-{p['name'].replace('/', '-')}:", ""] + head
            for f_ in faults:
                if f_["file"] == fid and f_["kind"] == "toctree_missing":
                    f_["line"] += 2
                    f_["alt_line"] += 2
        body = render_blocks(p["blocks"], fid, faults, len(head), "page")
        sel = p.get("selector")
        if sel == "both_inc":
            # the misplaced tabs-selector sits in an included file: the diagnostic belongs to that file, at its line there
            inc_id = "includes/selector-" + p["name"].replace("/", "-") + ".rst"
            files["source/" + inc_id] = "\n".join(["Included selector.", "", ".. tabs-selector:: drivers", "", ".. tabs-drivers::", "", "   tabs:", "     - id: python",
                                                    "       content: |", "         py text", "     - id: shell", "       content: |", "         sh text", ""]) + "\n"
            faults.append({"file": inc_id, "line": 2, "classes": ["UnexpectedDirectiveOrder"], "kind": "selector_order_in_include", "in": "include", "n": 0})
            body += [".. include:: /" + inc_id, ""]
        if sel in ("tabs", "both"):
            if sel == "both":
                faults.append({"file": fid, "line": len(head) + len(body), "classes": ["UnexpectedDirectiveOrder"],
                               "kind": "selector_order", "in": "page", "n": 0})
            body += [".. tabs-selector:: drivers", "", ".. tabs-drivers::", "", "   tabs:", "     - id: python", "       content: |", "         py text",
                     "     - id: shell", "       content: |", "         sh text", ""]
        if sel in ("method", "both", "both_inc"):
            body += [".. method-selector::", "", "   .. method-option::", "      :id: driver", "", "      .. method-description::", "", "         Desc.", "",
                     "      Body.", "", "   .. method-option::", "      :id: cli", "", "      .. method-description::", "", "         Desc 2.", "", "      Body 2.", ""]
        files["source/" + fid] = "\n".join(head + body) + "\n"
        if p.get("crlf"):
            # the same page saved with Windows line ends: same lines, same problems at the same lines
            files["source/" + fid] = ("\r\n".join(head + body) + "\r\n").encode("utf-8")
        if p.get("bom"):
            # ... or saved by an editor that puts a byte-order mark in front of UTF-8 text: the mark is not part of the text
            raw = files["source/" + fid]
            files["source/" + fid] = b"\xef\xbb\xbf" + (raw if isinstance(raw, bytes) else raw.encode("utf-8"))
        for b in p["blocks"]:
            if b["t"] == "bad_image_file":
                files[f"source/images/garbage-{b['n']}.png"] = b"this is not a png file\n"

    refs = [f"See :ref:`top-{p['name'].replace('/', '-')}`." for p in case["pages"] if p.get("bom")]
    if refs and isinstance(files.get("source/index.txt"), str):
        files["source/index.txt"] += "\n" + "\n\n".join(refs) + "\n"
    # a page that is not UTF-8: reported under the page at the line that holds the first undecodable byte, whatever stands before the
    # byte on the way (letters of several bytes, "\r\n" or lone "\r" line ends)
    g = case.get("garbled")
    if g:
        filler = {"plain": b"Plain line.\n", "multibyte": "Zeile mit \u00e4\u00f6\u00fc\u00df \u65e5\u672c\u8a9e \U0001f600 \u00e9\u00e9\u00e9\u00e9\u00e9\u00e9\u00e9\u00e9.\n".encode("utf-8"),
                  "crlf": b"Windows line.\r\n", "cr": b"old\rmac\rline\n"}[g["style"]]
        files["source/garbled.txt"] = (b"=======\nGarbled\n=======\n\n" + filler * g["line"] + b"caf\xe9 latin-1 text\nmore\n")
        # lines as the parser counts them in every other diagnostic of the file: the text is read with universal newlines, so a lone
        # "\r" ends a line just as "\n" and "\r\n" do
        per = 3 if g["style"] == "cr" else 1
        faults.append({"file": "garbled.txt", "line": 4 + per * g["line"], "classes": ["CannotOpenFile"], "kind": "undecodable", "in": "page", "n": 0})
        faults.append({"file": "garbled.txt", "line": 0, "classes": ["OrphanedPage"], "kind": "orphan", "in": "page", "n": "garbled"})

    # shared includes: faults are expected under the include file, at the line inside it
    used_inc = {b.get("name") for p in case["pages"] for b in p["blocks"] if b["t"] == "use_include"}
    used_ext = {b.get("name") for p in case["pages"] for b in p["blocks"] if b["t"] == "use_extract"}
    for inc in case.get("includes", []):
        fid = f"includes/{inc['name']}.rst"
        head = [f"Shared text of {inc['name']}.", ""]
        sub = []
        body = render_blocks(inc["blocks"], fid, sub, len(head), "include")
        for f in sub:
            # problems only the postprocessor can see are detected when some page includes the file
            if f["kind"] in POSTPROCESS_FAULTS and inc["name"] not in used_inc:
                f["optional"] = True
        faults += sub
        files["source/" + fid] = "\n".join(head + body) + "\n"

    # yaml
    for y in case.get("yaml", []):
        fid = f"includes/{y['type']}-{y['name']}.yaml"
        if y.get("invalid"):
            files["source/" + fid] = "title: foo\n  bad: [\n"
            faults.append({"file": fid, "line": None, "classes": ["ErrorParsingYAMLFile"],
                           "kind": "invalid_yaml", "in": "yaml", "n": y["name"]})
            continue
        out = []
        for i, doc in enumerate(y["docs"]):
            if i:
                out.append("---")
            if y["type"] == "steps":
                out.append(f"title: Step {doc['ref']}")
            out.append(f"ref: {doc['ref']}")
            out.append("content: |")
            start = len(out)
            sub = []
            body = render_blocks(doc["blocks"] or [{"t": "text", "n": 0}], fid, sub, 0, "yaml", indent="  ")
            for f in sub:
                # line of a fault inside yaml content: the parser reports it relative to the content block;
                # the line in the file is also accepted (debatable choice of the parser, tolerated on purpose)
                f["alt_line"] = start + f["line"]
                f["doc"] = i
                if f["kind"] in POSTPROCESS_FAULTS and doc["ref"] not in used_ext:
                    f["optional"] = True
            faults += sub
            out += body
        out.append("...")
        files["source/" + fid] = "\n".join(out) + "\n"
    return files, faults


def n_outputs(case, fileid):
    for y in case.get("yaml", []):
        if fileid == f"includes/{y['type']}-{y['name']}.yaml" and not y.get("invalid"):
            return len(y["docs"]) if y["type"] == "extracts" else 1
    return 1


# --------------------------------------------------------------------------------------
# e2e: running the real code
# --------------------------------------------------------------------------------------


# --------------------------------------------------------------------------------------
# repair: a seeded fault is repaired (or the faulty file deleted) in an OPEN project; what the next postprocessing run
# delivers per file must be what a clean build of the new contents delivers - no stale diagnostic, none lost
# --------------------------------------------------------------------------------------
def fault_targets(case):
    """files of an e2e case that carry a seeded fault the author can repair by editing that file"""
    out = []
    for p in case["pages"]:
        if any(b["t"] in PAGE_FAULTS for b in p["blocks"]):
            out.append({"type": "page", "name": p["name"], "path": p["name"] + ".txt"})
    for inc in case.get("includes", []):
        if any(b["t"] in PAGE_FAULTS for b in inc["blocks"]):
            out.append({"type": "include", "name": inc["name"], "path": f"includes/{inc['name']}.rst"})
    for y in case.get("yaml", []):
        if y.get("invalid") or any(b["t"] in YAML_FAULTS for d in y.get("docs", []) for b in d["blocks"]):
            out.append({"type": "yaml", "name": y["name"], "path": f"includes/{y['type']}-{y['name']}.yaml"})
    return out


def repaired(case, target):
    c = copy.deepcopy(case)

    def clean(blocks):
        return [({"t": "text", "n": b["n"]} if b["t"] in PAGE_FAULTS or b["t"] in YAML_FAULTS else b) for b in blocks]
    if target["type"] == "page":
        for p in c["pages"]:
            if p["name"] == target["name"]:
                p["blocks"] = clean(p["blocks"])
    elif target["type"] == "include":
        for inc in c["includes"]:
            if inc["name"] == target["name"]:
                inc["blocks"] = clean(inc["blocks"])
    else:
        for y in c["yaml"]:
            if y["name"] == target["name"]:
                if y.get("invalid"):
                    y.pop("invalid")
                    y["docs"] = [{"ref": "fixed0", "blocks": [{"t": "text", "n": 900}]}]
                else:
                    for d in y["docs"]:
                        d["blocks"] = clean(d["blocks"])
    return c


def hexify(files):
    return {k: ({"hex": v.hex()} if isinstance(v, bytes) else v) for k, v in files.items()}


def run_repair(case):
    from impl import c12_e2e
    files, _ = render(case["base"])
    t = case["target"]
    ops = []
    if case["how"] == "delete":
        ops.append({"op": "delete", "path": t["path"]})
    else:
        files2, _ = render(repaired(case["base"], t))
        ops.append({"op": "update", "path": t["path"], "text": files2["source/" + t["path"]], "via": case.get("via", "disk")})
    ops.append({"op": "postprocess"})
    if case.get("again"):
        # the fault comes back (the old text is written again): its diagnostics have to come back too
        if case["how"] == "delete":
            ops.append({"op": "create", "path": t["path"], "text": files["source/" + t["path"]]})
        else:
            ops.append({"op": "update", "path": t["path"], "text": files["source/" + t["path"]], "via": case.get("via", "disk")})
        ops.append({"op": "postprocess"})
    for o in ops:
        if isinstance(o.get("text"), bytes):          # a page saved with other line ends / another encoding: raw bytes
            if o.get("via") == "buffer" and not o["text"].startswith(b"\xef\xbb\xbf"):
                try:
                    # an editor hands its buffer over as it is: Windows line ends and all
                    o["text"] = o["text"].decode("utf-8")
                    continue
                except UnicodeDecodeError:
                    pass
            o["text"] = {"hex": o["text"].hex()}
            o["via"] = "disk"
    res = c12_e2e.run_history({"mode": "disk", "files": hexify(files), "ops": ops}, alias_probe=False)
    return {"checks": res["checks"], "exc": res["exc"]}


class RecDB(PageDatabase):
    """records the producers exactly as they reach the page database (no behaviour change)"""

    def __init__(self):
        super().__init__()
        self.rec_parsed, self.rec_orphan, self.rec_others = [], [], None

    def __setitem__(self, key, value):
        self.rec_parsed.append((key.as_posix(), value[1].as_posix(), list(value[2])))
        super().__setitem__(key, value)

    def set_orphan_diagnostics(self, key, value):
        self.rec_orphan.append((key.as_posix(), list(value)))
        super().set_orphan_diagnostics(key, value)

    def merge_diagnostics(self, *others):
        self.rec_others = [[(k.as_posix(), list(v)) for k, v in o.items()] for o in others]
        return super().merge_diagnostics(*others)


class RecBackend(snooty_main.Backend):
    """the command-line backend (real error counter, real on_update) + a record of both channels"""

    def __init__(self):
        super().__init__()
        self.on, self.set, self.in_update = [], [], False

    def on_diagnostics(self, path, diagnostics):
        self.on.append((path.as_posix(), list(diagnostics), "asset" if self.in_update else "project"))
        with contextlib.redirect_stdout(io.StringIO()):
            super().on_diagnostics(path, diagnostics)

    def set_diagnostics(self, path, diagnostics):
        self.set.append((path.as_posix(), list(diagnostics)))

    def on_update(self, prefix, build_identifiers, page_id, page):
        self.in_update = True
        try:
            super().on_update(prefix, build_identifiers, page_id, page)
        finally:
            self.in_update = False


def write_project(root, files):
    for k, v in files.items():
        p = root / k
        p.parent.mkdir(parents=True, exist_ok=True)
        if isinstance(v, bytes):
            p.write_bytes(v)
        else:
            p.write_text(v, encoding="utf-8")


def run_main_inprocess(root):
    """the real `snooty build <root>` entry point: exit status + printed diagnostics"""
    argv, env = sys.argv, os.environ.get("DIAGNOSTICS_FORMAT")
    out = io.StringIO()
    code = 0
    try:
        sys.argv = ["snooty", "build", "--no-caching", str(root)]
        os.environ["DIAGNOSTICS_FORMAT"] = "JSON"
        with contextlib.redirect_stdout(out):
            try:
                snooty_main.main()
            except SystemExit as e:
                code = e.code if isinstance(e.code, int) else (0 if e.code is None else 1)
    finally:
        sys.argv = argv
        if env is None:
            os.environ.pop("DIAGNOSTICS_FORMAT", None)
        else:
            os.environ["DIAGNOSTICS_FORMAT"] = env
    printed = []
    for line in out.getvalue().split("\n"):
        if line.startswith('{"diagnostic"'):
            d = json.loads(line)["diagnostic"]
            printed.append([d["path"], d["severity"], d["start"], d["message"]])
    return code, printed


def strip_root(msg, root):
    return msg.replace(str(root), "<root>").replace(str(Path(root).resolve()), "<root>")


def run_e2e(case):
    files, faults = render(case)
    root = Path(tempfile.mkdtemp(prefix=f"verif-c14-{os.getpid()}-")).resolve()
    try:
        write_project(root, files)
        backend = RecBackend()
        try:
            project = Project(root, backend, {})
            db = RecDB()
            project._project.pages = db
            init = {k.as_posix(): list(v) for k, v in project._project.initialization_diagnostics.items()}
            silence = sorted(project.config.silence_diagnostics)
            fail = bool(project.config.fail_on_diagnostics)
            project.build()
        except Exception as e:
            return {"exc": f"{type(e).__name__}: {str(e)[:200]}"}
        # tag table: one tag per Diagnostic OBJECT (identity; every recorded list still references the objects)
        tags, info, keep = {}, {}, []

        def w(d):
            if id(d) not in tags:
                tags[id(d)] = len(tags)
                keep.append(d)
                info[tags[id(d)]] = (type(d).__name__, d.start[0], strip_root(d.message, root))
            key = info[tags[id(d)]]
            return {"c": key[0], "l": max(0, key[1]), "s": int(d.severity), "t": tags[id(d)], "rl": key[1]}

        res = {
            "exc": None,
            "on": [[p, [w(d) for d in ds], src] for p, ds, src in backend.on],
            "set": [[p, [w(d) for d in ds]] for p, ds in backend.set],
            "parsed": [{"out": o, "src": s, "ds": [w(d) for d in ds]} for o, s, ds in db.rec_parsed],
            "orphan": [[k, [w(d) for d in ds]] for k, ds in db.rec_orphan],
            "others": [[[k, [w(d) for d in ds]] for k, ds in o] for o in (db.rec_others or [])],
            "init": [[k, [w(d) for d in ds]] for k, ds in init.items()],
            "silence": silence, "fail": fail,
            "total_errors": backend.total_errors, "total_diagnostics": backend.total_diagnostics,
        }
        res["messages"] = {str(t): list(k) for t, k in info.items()}
        code, printed = run_main_inprocess(root)
        res["exit"] = code
        res["printed"] = [[p, sev, start, strip_root(m, root)] for p, sev, start, m in printed]
        return res
    finally:
        shutil.rmtree(root, ignore_errors=True)


def per_file(events):
    out = {}
    for e in events:
        out.setdefault(e[0], []).extend(e[1])
    return out


def strip_d(d):
    return {"c": d["c"], "l": d["l"], "s": d["s"], "t": d["t"]}


def fault_matches(f, d):
    """does delivered diagnostic d (wire form) report seeded fault f?"""
    if d["c"] not in f["classes"]:
        return False
    if f["line"] is None:
        return True
    return d["rl"] == f["line"] or ("alt_line" in f and d["rl"] == f["alt_line"])


class C14(core.PropertyCheck):
    id = "C14"
    parallel = False            # Project.build starts its own process pool
    quick_budget = 2000
    thorough_budget = 16000
    rule = ("merge: random producer maps over 8 file ids x 10 real Diagnostic classes (1-3 outputs per source whose lists SHARE "
            "Diagnostic objects: equal lists, shared prefix + per-output extras, sub-lists, unrelated lists, different objects that "
            "compare equal, rarely one object twice in a list; orphan keys inside/outside the parsed sources; 0-3 other maps with shared keys) "
            "x random silence sets, through a real PageDatabase; walk: random Root/include trees of depth <= 4 through the real "
            "EventParser; e2e: projects of 2-5 pages + shared includes (included by 1-2 pages) + extracts/steps yaml files "
            "seeded with 1-9 faults out of 17 kinds x random subset of the seeded class names silenced x fail_on_diagnostics, "
            "plus one project per single fault kind and container. non-trivial = case with at least one diagnostic; "
            "distinct by content")
    assumptions = [
        "a diagnostic is identified by the identity of its Python object (the model's oid); the fault oracle matches by (class name, start line); severity is the class attribute",
        "theorem hypotheses checked on every e2e case: no stored list holds one object twice (OutputsNodup); output ids distinct; the postprocess result is a dict",
        "the iteration order of the key set in merge_diagnostics is a parameter of the model; results are compared as dicts (key order of the result is not part of the property)",
        "line of a fault inside yaml content: the parser reports it relative to the content block; the absolute line is accepted too. "
        "line of a fault in a snooty.toml substitution/banner value: line 0 of the value (what the parser reports) or the line in snooty.toml are accepted",
        "a toctree entry naming no page is accepted at the line of the toctree directive or of the entry",
        "the producers fed to the model in e2e cases are recorded by a PageDatabase subclass installed after Project() returned (no behaviour change); "
        "the batches of __init__ are observed merged (initialization_diagnostics), so the on_diagnostics channel is compared per file, not per call",
        "exit status is taken from the real snooty.main.main() run in-process (SystemExit caught) and from `python -m snooty build` subprocesses for six projects",
        "language-server delivery (pending_diagnostics / publishDiagnostics) is not exercised; nested projects and .ast pages are not seeded",
        "repair cases (a faulty file edited / deleted / restored in an open project through Project.update()/delete(), then postprocess()) compare the per-file "
        "diagnostics with a clean build of the same contents (harness/impl/c12_e2e.py); they have no model counterpart (direct oracle only)",
    ]

    # ---- hypotheses -------------------------------------------------------------------
    def static_obligations(self):
        out = []
        lv = Diagnostic.Level
        out.append(("Diagnostic.Level is info=1 < warning=2 < error=3 (isError := 3 <= sev)",
                    (int(lv.info), int(lv.warning), int(lv.error)) == (1, 2, 3), str(list(lv))))
        out.append(("EXIT_STATUS_ERROR_DIAGNOSTICS == 2", snooty_main.EXIT_STATUS_ERROR_DIAGNOSTICS == 2,
                    str(snooty_main.EXIT_STATUS_ERROR_DIAGNOSTICS)))
        # every concrete Diagnostic subclass has a severity among the three levels (model: sev in {1,2,3})
        bad = []
        for name in dir(sd):
            c = getattr(sd, name)
            if isinstance(c, type) and issubclass(c, Diagnostic) and c is not Diagnostic:
                try:
                    if int(c.severity) not in (1, 2, 3):
                        bad.append(name)
                except Exception:
                    bad.append(name)
        out.append(("every Diagnostic subclass has a class-level severity in {1,2,3}", not bad, str(bad[:5])))
        try:
            d0 = {"c": "CannotOpenFile", "l": 2, "s": 3, "t": 0}
            r = core.run_driver([{"op": "c14.merge", "silence": [], "orphan": [], "others": [], "parsed": [
                {"out": "includes/extracts/a.rst", "src": "includes/extracts-x.yaml", "ds": [d0]},
                {"out": "includes/extracts/b.rst", "src": "includes/extracts-x.yaml", "ds": []}]}])[0]
            ok = r.get("old") == [["includes/extracts-x.yaml", []]] and r.get("merged") == [["includes/extracts-x.yaml", [d0]]]
            out.append(("model of the merge before the fix drops the witness of merge_conservation_refuted, the model of the fixed merge keeps it", ok, str(r)[:160]))
        except core.Infra as e:
            out.append(("old/fixed merge models on the refutation witness", False, str(e)))
        return out

    # ---- generation -------------------------------------------------------------------
    def gen_ds(self, rng, tagbox, lo=0, hi=3):
        ds = []
        for _ in range(rng.randint(lo, hi)):
            tagbox[0] += 1
            ds.append({"c": rng.choice(POOL), "l": rng.randint(0, 30), "t": tagbox[0]})
        return ds

    def gen_merge(self, rng):
        tagbox = [0]
        files = rng.sample(FILES, rng.randint(1, 6))
        parsed = []
        for f in files:
            if rng.random() < 0.2:
                continue
            k = rng.choice([1, 1, 1, 2, 3])
            base = self.gen_ds(rng, tagbox)
            mode = rng.random()
            for i in range(k):
                # the same tag = the SAME Diagnostic object (source-level diagnostics are shared by all outputs)
                if k == 1 or mode < 0.35:
                    ds = list(base)                               # equal lists (what the yaml domain yields)
                elif mode < 0.7:
                    ds = list(base) + self.gen_ds(rng, tagbox, 0, 2)   # own additions per output (page.finish)
                    if base and rng.random() < 0.4:               # a different object that compares equal to a shared one
                        tagbox[0] += 1
                        ds.append({"c": base[0]["c"], "l": base[0]["l"], "t": tagbox[0]})
                elif mode < 0.85:
                    ds = self.gen_ds(rng, tagbox)
                else:
                    ds = [d for d in base if rng.random() < 0.6] + self.gen_ds(rng, tagbox, 0, 1)  # a sub-list of the shared ones
                if ds and rng.random() < 0.03:
                    ds.append(ds[0])                              # one object twice in one list (never seen in a build)
                parsed.append({"out": f if k == 1 else f"{f}#{i}", "src": f, "ds": ds})
        if rng.random() < 0.15 and parsed:       # an output written twice (update of a page)
            o = copy.deepcopy(rng.choice(parsed))
            o["ds"] = self.gen_ds(rng, tagbox)
            parsed.append(o)
        rng.shuffle(parsed)
        orphan = [[f, self.gen_ds(rng, tagbox)] for f in rng.sample(FILES, rng.randint(0, 3))]
        if rng.random() < 0.1 and orphan:
            orphan.append([orphan[0][0], self.gen_ds(rng, tagbox)])   # set twice: replaces
        others = []
        for _ in range(rng.choice([0, 1, 2, 2, 2, 3])):
            others.append([[f, self.gen_ds(rng, tagbox)] for f in rng.sample(FILES, rng.randint(0, 4))])
        classes = sorted({d["c"] for o in parsed for d in o["ds"]} | {d["c"] for _, ds in orphan for d in ds}
                         | {d["c"] for o in others for _, ds in o for d in ds})
        silence = [c for c in classes if rng.random() < 0.3]
        if rng.random() < 0.1:
            silence.append("NoSuchClass")
        return {"kind": "merge", "parsed": parsed, "orphan": orphan, "others": others, "silence": silence}

    def gen_store(self, rng):
        """a mutation history on one PageDatabase: writes, orphan diagnostics, deletes (of stored pages, of keys that only
        have orphan diagnostics, of keys never seen), re-creation after a delete"""
        tagbox = [0]
        files = rng.sample(FILES, rng.randint(2, 5))
        ops = []
        for _ in range(rng.randint(1, 10)):
            r = rng.random()
            f = rng.choice(files)
            if r < 0.45:
                out = f if rng.random() < 0.6 else f"{f}#{rng.randint(0, 1)}"
                ops.append({"op": "set", "out": out, "src": f, "ds": self.gen_ds(rng, tagbox)})
            elif r < 0.7:
                ops.append({"op": "orphan", "k": f, "ds": self.gen_ds(rng, tagbox)})
            else:
                k = rng.choice([f, f, f + "#0", "never/seen.txt"])
                ops.append({"op": "del", "k": k})
        others = []
        for _ in range(rng.choice([0, 1, 2])):
            others.append([[f, self.gen_ds(rng, tagbox)] for f in rng.sample(FILES, rng.randint(0, 3))])
        classes = sorted({d["c"] for o in ops for d in o.get("ds", [])} | {d["c"] for o in others for _, ds in o for d in ds})
        return {"kind": "store", "ops": ops, "others": others, "silence": [c for c in classes if rng.random() < 0.25]}

    def gen_walk(self, rng):
        tagbox = [0]

        def node(depth):
            r = rng.random()
            if depth >= 4 or r < 0.4:
                tagbox[0] += 1
                return {"k": "fault", "t": tagbox[0]}
            kids = [node(depth + 1) for _ in range(rng.randint(0, 3))]
            if r < 0.7:
                return {"k": "plain", "c": kids}
            return {"k": "root", "f": rng.choice(FILES), "c": kids}

        return {"kind": "walk", "fileid": rng.choice(FILES), "children": [node(0) for _ in range(rng.randint(0, 4))]}

    def gen_e2e(self, rng, single=None):
        counter = [0]

        def blocks(kinds, lo, hi, fault_p=0.6):
            out = []
            for _ in range(rng.randint(lo, hi)):
                counter[0] += 1
                if rng.random() < fault_p:
                    out.append({"t": rng.choice(kinds), "n": counter[0]})
                else:
                    out.append({"t": "text", "n": counter[0]})
                    if kinds is PAGE_FAULTS and rng.random() < 0.25:
                        out[-1]["ff"] = True     # rst files only (YAML does not accept such characters)
            return out

        npages = rng.randint(1, 4)
        pages = [{"name": "index", "toc": True, "blocks": blocks(PAGE_FAULTS, 0, 2, 0.4)}]
        names = ["alpha", "guide/beta", "gamma", "ref/deep/delta"]
        for i in range(npages):
            pages.append({"name": names[i], "toc": rng.random() < 0.75, "blocks": blocks(PAGE_FAULTS, 0, 4)})
        # page-level constructs whose diagnostics a handler holds back until the end of the page (a tabs-selector is only
        # misplaced when the same page has a method-selector): what one page queued must not surface on another
        for p in pages:
            if rng.random() < 0.3:
                p["selector"] = rng.choice(["tabs", "tabs", "method", "both", "both_inc"])
            if rng.random() < 0.15:
                p["crlf"] = True
            if rng.random() < 0.1:
                p["bom"] = True
        includes = []
        for i in range(rng.choice([0, 1, 1, 2])):
            # (sometimes a name that is not ASCII, spelled letter + combining accent as some systems hand names out)
            inc = {"name": f"shared-{i}" if rng.random() < 0.7 else f"sharede\u0301-{i}", "blocks": blocks(PAGE_FAULTS, 1, 3, 0.8)}
            includes.append(inc)
            for p in rng.sample(pages, min(len(pages), rng.choice([1, 1, 2]))):
                counter[0] += 1
                p["blocks"].insert(rng.randint(0, len(p["blocks"])), {"t": "use_include", "name": inc["name"], "n": counter[0]})
        yamls = []
        r = rng.random()
        if r < 0.45:
            docs = [{"ref": f"ex{j}", "blocks": blocks(YAML_FAULTS, 1, 2, 0.7)} for j in range(rng.choice([1, 2, 2, 3]))]
            yamls.append({"type": "extracts", "name": "x", "docs": docs})
            for d in docs:
                if rng.random() < 0.9:
                    counter[0] += 1
                    rng.choice(pages)["blocks"].append({"t": "use_extract", "name": d["ref"], "n": counter[0]})
        if rng.random() < 0.3:
            yamls.append({"type": "steps", "name": "s", "docs": [{"ref": f"st{j}", "blocks": blocks(["unknown_role", "undefined_constant"], 1, 1, 0.7)}
                                                                   for j in range(rng.choice([1, 2]))]})
        if rng.random() < 0.25:
            yamls.append({"type": rng.choice(["steps", "extracts"]), "name": "bad", "invalid": True})
        if rng.random() < 0.2:
            # an image file whose size cannot be determined - shown by one page, or the SAME file by several pages: each page that
            # shows it is told so
            counter[0] += 1
            for p in rng.sample(pages, min(len(pages), rng.choice([1, 2, 2, 3]))):
                p["blocks"].append({"t": "bad_image_file", "n": counter[0]})
        cfg = {"bad_substitutions": rng.choice([[1], [2], [1, 2]]) if rng.random() < 0.3 else [],
               "bad_banners": rng.choice([[1], [2], [2, 3]]) if rng.random() < 0.25 else [],
               "fail": rng.random() < 0.5}
        if rng.random() < 0.3:
            cfg["facets"] = rng.choice(["valid", "partly", "partly", "invalid"])
        case = {"kind": "e2e", "pages": pages, "includes": includes, "yaml": yamls, "config": cfg,
                "toc_missing": [f"nopage-{j}" for j in range(rng.choice([0, 0, 1, 2]))]}
        if rng.random() < 0.15:
            case["garbled"] = {"style": rng.choice(["plain", "multibyte", "multibyte", "crlf", "cr"]), "line": rng.randint(0, 6)}
        _, faults = render(case)
        classes = sorted({c for f in faults for c in f["classes"]} | ({"ImageSizeUndetermined"} if any(
            b["t"] == "bad_image_file" for p in pages for b in p["blocks"]) else set()))
        r = rng.random()
        if r < 0.3:
            cfg["silence"] = []
        elif r < 0.4:
            cfg["silence"] = classes
        else:
            cfg["silence"] = [c for c in classes if rng.random() < 0.35]
        return case

    def gen_repair(self, rng):
        """an e2e project one of whose faulty files is then repaired (or deleted) in the open project"""
        for _ in range(20):
            base = self.gen_e2e(rng)
            base["config"]["silence"] = []
            ts = fault_targets(base)
            if not ts:
                continue
            # invalid YAML files get extra weight: their diagnostics travel through the orphan map, not a page
            ys = [t for t in ts if t["type"] == "yaml"]
            t = rng.choice(ys) if ys and rng.random() < 0.5 else rng.choice(ts)
            how = "delete" if (t["path"] != "index.txt" and rng.random() < 0.35) else "update"
            return {"kind": "repair", "base": base, "target": t, "how": how,
                    "via": "buffer" if (how == "update" and rng.random() < 0.3) else "disk", "again": rng.random() < 0.4}
        return None

    def singles(self):
        """one project per fault kind and container, unsilenced and silenced"""
        base_cfg = {"bad_substitutions": [], "bad_banners": [], "fail": False, "silence": []}
        for container in ("page", "include", "yaml"):
            for t in (PAGE_FAULTS if container != "yaml" else YAML_FAULTS):
                pages = [{"name": "index", "toc": True, "blocks": []}, {"name": "alpha", "toc": True, "blocks": [{"t": "text", "n": 1}]}]
                case = {"kind": "e2e", "pages": pages, "includes": [], "yaml": [], "config": dict(base_cfg), "toc_missing": []}
                if container == "page":
                    pages[1]["blocks"].append({"t": t, "n": 2})
                elif container == "include":
                    case["includes"] = [{"name": "shared-0", "blocks": [{"t": "text", "n": 3}, {"t": t, "n": 2}]}]
                    pages[1]["blocks"].append({"t": "use_include", "name": "shared-0", "n": 4})
                    pages[0]["blocks"].append({"t": "use_include", "name": "shared-0", "n": 5})
                else:
                    case["yaml"] = [{"type": "extracts", "name": "x", "docs": [{"ref": "ex0", "blocks": [{"t": "text", "n": 3}, {"t": t, "n": 2}]}]}]
                    pages[1]["blocks"].append({"t": "use_extract", "name": "ex0", "n": 4})
                yield case
        for t in PAGE_FAULTS:
            pages = [{"name": "index", "toc": True, "blocks": []}, {"name": "alpha", "toc": True, "crlf": True, "blocks": [{"t": "text", "n": 1}, {"t": t, "n": 2}]}]
            yield {"kind": "e2e", "pages": pages, "includes": [], "yaml": [], "config": dict(base_cfg), "toc_missing": []}
        for t in ("text", "unknown_directive", "conflict"):
            pages = [{"name": "index", "toc": True, "blocks": []}, {"name": "alpha", "toc": True, "bom": True, "blocks": [{"t": "text", "n": 1}, {"t": t, "n": 2}]}]
            yield {"kind": "e2e", "pages": pages, "includes": [], "yaml": [], "config": dict(base_cfg), "toc_missing": []}
        for t in ("conflict", "undefined_constant", "unknown_directive"):
            # a fault on a page kept with Windows line ends, repaired and brought back through the EDITOR BUFFER (text handed over as it
            # is, "\r\n" and all): what the open project reports has to be what a build of the saved file reports
            pages = [{"name": "index", "toc": True, "blocks": []}, {"name": "alpha", "toc": True, "crlf": True, "blocks": [{"t": "text", "n": 1}, {"t": t, "n": 2}]}]
            base = {"kind": "e2e", "pages": pages, "includes": [], "yaml": [], "config": dict(base_cfg), "toc_missing": []}
            yield {"kind": "repair", "base": base, "target": {"type": "page", "name": "alpha", "path": "alpha.txt"}, "how": "update", "via": "buffer", "again": True}
        for style in ("plain", "multibyte", "crlf", "cr"):
            pages = [{"name": "index", "toc": True, "blocks": []}, {"name": "alpha", "toc": True, "blocks": [{"t": "text", "n": 1}]}]
            yield {"kind": "e2e", "pages": pages, "includes": [], "yaml": [], "config": dict(base_cfg), "toc_missing": [],
                   "garbled": {"style": style, "line": 3}}
        for extra in ("orphan", "toc", "yaml_invalid", "subst", "banner", "asset", "multi_equal"):
            pages = [{"name": "index", "toc": True, "blocks": []}, {"name": "alpha", "toc": extra != "orphan", "blocks": [{"t": "text", "n": 1}]}]
            case = {"kind": "e2e", "pages": pages, "includes": [], "yaml": [], "config": dict(base_cfg), "toc_missing": []}
            if extra == "toc":
                case["toc_missing"] = ["nopage-0"]
            if extra == "yaml_invalid":
                case["yaml"] = [{"type": "steps", "name": "bad", "invalid": True}]
            if extra == "subst":
                case["config"]["bad_substitutions"] = [1, 2]
            if extra == "banner":
                case["config"]["bad_banners"] = [1, 2]
            if extra == "asset":
                pages[1]["blocks"].append({"t": "bad_image_file", "n": 2})
            if extra == "multi_equal":
                case["yaml"] = [{"type": "extracts", "name": "x", "docs": [
                    {"ref": "ex0", "blocks": [{"t": "unknown_role", "n": 2}]}, {"ref": "ex1", "blocks": [{"t": "undefined_ref", "n": 3}]}]}]
                pages[1]["blocks"] += [{"t": "use_extract", "name": "ex0", "n": 4}, {"t": "use_extract", "name": "ex1", "n": 5}]
            yield case
            # the same project with every seeded class silenced and fail_on_diagnostics on
            c2 = copy.deepcopy(case)
            _, faults = render(c2)
            c2["config"]["silence"] = sorted({c for f in faults for c in f["classes"]} | {"ImageSizeUndetermined"})
            c2["config"]["fail"] = True
            yield c2

    def generate(self, rng, budget, tier):
        n_e2e = max(6, budget // 25)
        if tier == "search":
            n_e2e = min(n_e2e, 150)
        else:
            yield from self.singles()
        for _ in range(n_e2e):
            yield self.gen_e2e(rng)
        for _ in range(max(8, budget // 30) if tier != "search" else 40):
            c = self.gen_repair(rng)
            if c:
                yield c
        n_walk = budget // 5
        for _ in range(n_walk):
            yield self.gen_walk(rng)
        n_store = budget // 4
        for _ in range(n_store):
            yield self.gen_store(rng)
        for _ in range(budget - n_walk - n_store):
            yield self.gen_merge(rng)

    def shrink_candidates(self, case):
        if case["kind"] == "merge":
            for key in ("parsed", "orphan", "others", "silence"):
                for i in range(len(case[key])):
                    c = copy.deepcopy(case)
                    del c[key][i]
                    yield c
            for i, o in enumerate(case["parsed"]):
                for j in range(len(o["ds"])):
                    c = copy.deepcopy(case)
                    del c["parsed"][i]["ds"][j]
                    yield c
            return
        if case["kind"] == "store":
            for i in range(len(case["ops"])):
                c = copy.deepcopy(case)
                del c["ops"][i]
                yield c
            for i in range(len(case["others"])):
                c = copy.deepcopy(case)
                del c["others"][i]
                yield c
            return
        if case["kind"] != "e2e":
            return
        for key in ("yaml", "includes"):
            for i in range(len(case.get(key, []))):
                c = copy.deepcopy(case)
                name = c[key][i]["name"]
                refs = [d["ref"] for d in c[key][i].get("docs", [])]
                del c[key][i]
                for p in c["pages"]:
                    p["blocks"] = [b for b in p["blocks"] if not (b["t"] == "use_include" and key == "includes" and b.get("name") == name)
                                   and not (b["t"] == "use_extract" and key == "yaml" and b.get("name") in refs)]
                yield c
        for i in range(1, len(case["pages"])):
            c = copy.deepcopy(case)
            del c["pages"][i]
            yield c
        for i, p in enumerate(case["pages"]):
            for j in range(len(p["blocks"])):
                c = copy.deepcopy(case)
                del c["pages"][i]["blocks"][j]
                yield c
        for i, inc in enumerate(case.get("includes", [])):
            for j in range(len(inc["blocks"])):
                c = copy.deepcopy(case)
                del c["includes"][i]["blocks"][j]
                yield c
        for i, y in enumerate(case.get("yaml", [])):
            for j, d in enumerate(y.get("docs", [])):
                for k in range(len(d["blocks"])):
                    c = copy.deepcopy(case)
                    del c["yaml"][i]["docs"][j]["blocks"][k]
                    yield c
        for key in ("bad_substitutions", "bad_banners", "silence"):
            for i in range(len(case["config"].get(key, []))):
                c = copy.deepcopy(case)
                del c["config"][key][i]
                yield c
        for i in range(len(case.get("toc_missing", []))):
            c = copy.deepcopy(case)
            del c["toc_missing"][i]
            yield c

    # ---- implementation ---------------------------------------------------------------
    def run_impl(self, case):
        kind = case["kind"]
        if kind == "repair":
            return run_repair(case)
        if kind == "merge":
            return self.run_merge(case)
        if kind == "store":
            return self.run_store(case)
        if kind == "walk":
            return self.run_walk(case)
        return run_e2e(case)

    def run_merge(self, case):
        db = PageDatabase()
        objs = {}

        by_tag = {}

        def mk(d):
            if d["t"] not in by_tag:            # one tag = one object, shared by every list that names it
                by_tag[d["t"]] = mk_diag(d["c"], d["l"], d["t"])
                objs[id(by_tag[d["t"]])] = d["t"]
            return by_tag[d["t"]]

        for o in case["parsed"]:
            src = FileId(o["src"])
            db[FileId(o["out"])] = (Page.create(src, o["out"].replace("/", "_"), ""), src, [mk(d) for d in o["ds"]])
        for k, ds in case["orphan"]:
            db.set_orphan_diagnostics(FileId(k), [mk(d) for d in ds])
        others = []
        for o in case["others"]:
            others.append({FileId(k): [mk(d) for d in ds] for k, ds in o})
        try:
            merged = db.merge_diagnostics(*others)
        except Exception as e:
            return {"exc": type(e).__name__}
        cfg = ProjectConfig(Path("/nonexistent"), "verif")
        cfg.silence_diagnostics = set(case["silence"])
        return {"exc": None,
                "merged": {k.as_posix(): [wire(d, objs[id(d)]) for d in v] for k, v in merged.items()},
                "filtered": {k.as_posix(): [wire(d, objs[id(d)]) for d in filter_diagnostics(cfg, v)] for k, v in merged.items()}}

    def run_store(self, case):
        db = PageDatabase()
        objs, by_tag = {}, {}

        def mk(d):
            if d["t"] not in by_tag:
                by_tag[d["t"]] = mk_diag(d["c"], d["l"], d["t"])
                objs[id(by_tag[d["t"]])] = d["t"]
            return by_tag[d["t"]]
        try:
            for o in case["ops"]:
                if o["op"] == "set":
                    src = FileId(o["src"])
                    db[FileId(o["out"])] = (Page.create(src, o["out"].replace("/", "_"), ""), src, [mk(d) for d in o["ds"]])
                elif o["op"] == "orphan":
                    db.set_orphan_diagnostics(FileId(o["k"]), [mk(d) for d in o["ds"]])
                else:
                    del db[FileId(o["k"])]
            others = [{FileId(k): [mk(d) for d in ds] for k, ds in o} for o in case["others"]]
            merged = db.merge_diagnostics(*others)
        except Exception as e:
            return {"exc": type(e).__name__}
        cfg = ProjectConfig(Path("/nonexistent"), "verif")
        cfg.silence_diagnostics = set(case["silence"])
        with db._lock:
            keys = [k.as_posix() for k in db._parsed]
            okeys = [k.as_posix() for k in db._orphan_diagnostics]
        return {"exc": None, "keys": keys, "orphan_keys": okeys,
                "merged": {k.as_posix(): [wire(d, objs[id(d)]) for d in v] for k, v in merged.items()},
                "filtered": {k.as_posix(): [wire(d, objs[id(d)]) for d in filter_diagnostics(cfg, v)] for k, v in merged.items()}}

    def run_walk(self, case):
        def build(x):
            if x["k"] == "fault":
                return n.Text((x["t"],), f"t{x['t']}")
            kids = [build(c) for c in x["c"]]
            if x["k"] == "plain":
                return n.Paragraph((0,), kids)
            return n.Root((0,), kids, FileId(x["f"]), {})

        fid = FileId(case["fileid"])
        page = Page.create(fid, None, "", n.Root((0,), [build(c) for c in case["children"]], fid, {}))
        seen = []
        ep = EventParser(threading.Event())
        ep.add_event_listener(EventParser.OBJECT_START_EVENT,
                              lambda stack, node: seen.append([stack.current.as_posix(), node.start[0]]) if isinstance(node, n.Text) else None)
        try:
            ep.consume([(fid, page)])
        except Exception as e:
            return {"exc": type(e).__name__}
        return {"exc": None, "seen": seen}

    # ---- model ------------------------------------------------------------------------
    def model_request(self, case):
        if case["kind"] == "repair":
            return None   # a differential of the implementation against a clean build of the new contents (direct oracle)
        if case["kind"] == "merge":
            sev = lambda c: int(getattr(sd, c).severity)
            cv = lambda ds: [{"c": d["c"], "l": d["l"], "s": sev(d["c"]), "t": d["t"]} for d in ds]
            return {"op": "c14.merge", "parsed": [{"out": o["out"], "src": o["src"], "ds": cv(o["ds"])} for o in case["parsed"]],
                    "orphan": [[k, cv(ds)] for k, ds in case["orphan"]],
                    "others": [[[k, cv(ds)] for k, ds in o] for o in case["others"]], "silence": case["silence"]}
        if case["kind"] == "store":
            sev = lambda c: int(getattr(sd, c).severity)
            cv = lambda ds: [{"c": d["c"], "l": d["l"], "s": sev(d["c"]), "t": d["t"]} for d in ds]
            ops = [dict(o, ds=cv(o["ds"])) if "ds" in o else o for o in case["ops"]]
            return {"op": "c14.store", "ops": ops, "others": [[[k, cv(ds)] for k, ds in o] for o in case["others"]], "silence": case["silence"]}
        if case["kind"] == "walk":
            def cv(x):
                if x["k"] == "fault":
                    return {"k": "fault", "d": {"c": "X", "l": x["t"], "s": 3, "t": x["t"]}}
                if x["k"] == "plain":
                    return {"k": "plain", "c": [cv(c) for c in x["c"]]}
                return {"k": "root", "f": x["f"], "c": [cv(c) for c in x["c"]]}
            return {"op": "c14.walk", "fileid": case["fileid"], "children": [cv(c) for c in case["children"]]}
        # e2e: the real request needs the producers recorded during the build; it is sent from compare().
        return {"op": "c14.exit", "load_error": False, "build": True, "errors": 0, "fail": False}

    def e2e_model(self, impl):
        sd_ = lambda ds: [strip_d(d) for d in ds]
        post = impl["others"][0] if impl["others"] else []
        init_map = impl["others"][1] if len(impl["others"]) > 1 else []
        cfg = init_map[0][0] if init_map else "snooty.toml"
        req = {"op": "c14.streams", "silence": impl["silence"], "cfg": cfg,
               "init": [sd_(ds) for _, ds in init_map],
               "parsedA": [{"out": o["out"], "src": o["src"], "ds": sd_(o["ds"])} for o in impl["parsed"]],
               "nested": [], "parsedB": [],
               "orphan": [[k, sd_(ds)] for k, ds in impl["orphan"]],
               "post": [[k, sd_(ds)] for k, ds in post],
               "assets": [[p, sd_(ds)] for p, ds, src in impl["on"] if src == "asset"],
               "fail": impl["fail"]}
        # asset diagnostics reach the backend already filtered; hand the model the unfiltered truth is impossible here,
        # so the asset part is checked by the oracle only (nothing silenced) and by the subprocess cases
        return core.run_driver([req])[0]

    def compare(self, case, model, impl):
        if case["kind"] == "repair":
            return None
        if impl.get("exc"):
            return f"implementation raised {impl['exc']}"
        if case["kind"] == "merge":
            m = {k: v for k, v in model["merged"]}
            if m != impl["merged"]:
                ks = sorted(set(m) ^ set(impl["merged"])) or [k for k in m if m[k] != impl["merged"][k]]
                return f"merged differs at {ks[:3]}: model {[m.get(k) for k in ks[:1]]} impl {[impl['merged'].get(k) for k in ks[:1]]}"
            f = {k: v for k, v in model["filtered"]}
            if f != impl["filtered"]:
                return "filtered result differs"
            return None
        if case["kind"] == "store":
            if model["keys"] != impl["keys"] or model["orphan_keys"] != impl["orphan_keys"]:
                return (f"store after the history differs: model pages {model['keys']} orphan {model['orphan_keys']}; "
                        f"impl pages {impl['keys']} orphan {impl['orphan_keys']}")
            m = {k: v for k, v in model["merged"]}
            if m != impl["merged"]:
                ks = sorted(set(m) ^ set(impl["merged"])) or [k for k in m if m[k] != impl["merged"][k]]
                return f"merged after the history differs at {ks[:3]}: model {[m.get(k) for k in ks[:1]]} impl {[impl['merged'].get(k) for k in ks[:1]]}"
            if {k: v for k, v in model["filtered"]} != impl["filtered"]:
                return "filtered result differs"
            return None
        if case["kind"] == "walk":
            got = [[f, ds[0]["t"]] for f, ds in model.get("stream", [])]
            if model.get("exc") or got != impl["seen"]:
                return f"attribution differs: model {got[:4]} impl {impl['seen'][:4]}"
            return None
        return self.compare_e2e(impl)

    def compare_e2e(self, impl):
        for o in impl["parsed"]:
            ts = [d["t"] for d in o["ds"]]
            if len(ts) != len(set(ts)):
                return f"hypothesis OutputsNodup: the list stored for output {o['out']} holds one Diagnostic object twice"
        m = self.e2e_model(impl)
        if "error" in m:
            return f"driver error: {m['error']}"
        on_impl = per_file([[p, [strip_d(d) for d in ds]] for p, ds, src in impl["on"]])
        on_model = per_file(m["cli"])
        on_impl = {k: v for k, v in on_impl.items() if v}
        on_model = {k: v for k, v in on_model.items() if v}
        if on_impl != on_model:
            ks = sorted(set(on_impl) ^ set(on_model)) or [k for k in on_impl if on_impl[k] != on_model.get(k)]
            return f"on_diagnostics channel differs from the model at {ks[:3]}: model {on_model.get(ks[0])} impl {on_impl.get(ks[0])}"
        set_impl = {p: [strip_d(d) for d in ds] for p, ds in impl["set"]}
        set_model = {k: v for k, v in m["set"]}
        if set_impl != set_model:
            ks = sorted(set(set_impl) ^ set(set_model)) or [k for k in set_impl if set_impl[k] != set_model.get(k)]
            return f"set_diagnostics channel differs from the model at {ks[:3]}: model {set_model.get(ks[0])} impl {set_impl.get(ks[0])}"
        if len(impl["set"]) != len(set_impl):
            return "set_diagnostics called twice for one file"
        if m["errors"] != impl["total_errors"]:
            return f"error counter: model {m['errors']} impl {impl['total_errors']}"
        if m["exit"] != impl["exit"]:
            return f"exit status: model {m['exit']} impl {impl['exit']}"
        return None

    # ---- the property itself ----------------------------------------------------------
    def oracle(self, case, impl):
        if impl.get("exc"):
            e = impl["exc"]
            return f"crash: {e['type'] + ' @ ' + e['where'] if isinstance(e, dict) else e}"
        if case["kind"] == "merge":
            return self.oracle_merge(case, impl)
        if case["kind"] == "walk":
            return self.oracle_walk(case, impl)
        if case["kind"] == "repair":
            return self.oracle_repair(case, impl)
        if case["kind"] == "store":
            return self.oracle_store(case, impl)
        return self.oracle_e2e(case, impl)

    def oracle_store(self, case, impl):
        """independent reference: per file, what the producers CURRENTLY say (latest write / orphan per key, deletes forget)"""
        pages, orphan = {}, {}
        for o in case["ops"]:
            if o["op"] == "set":
                pages[o["out"]] = (o["src"], [d["t"] for d in o["ds"]])
            elif o["op"] == "orphan":
                orphan[o["k"]] = [d["t"] for d in o["ds"]]
            else:
                pages.pop(o["k"], None)
                orphan.pop(o["k"], None)
        want = {}
        for out, (src, ts) in pages.items():
            want.setdefault(src, set()).update(ts)
        for k, ts in orphan.items():
            want.setdefault(k, set()).update(ts)
        for o in case["others"]:
            for k, ds in o:
                want.setdefault(k, set()).update(d["t"] for d in ds)
        got = {k: {d["t"] for d in v} for k, v in impl["merged"].items()}
        for k in sorted(set(want) | set(got)):
            w, g = want.get(k, set()), got.get(k, set())
            if g - w:
                return f"stale: merged diagnostics of {k} hold objects {sorted(g - w)} that no producer currently reports (history of {len(case['ops'])} operations)"
            if w - g:
                return f"lost: merged diagnostics of {k} lack objects {sorted(w - g)} that a producer currently reports"
        return None

    def oracle_repair(self, case, impl):
        t = case["target"]
        for chk in impl["checks"]:
            for d in chk["diffs"]:
                if d["kind"] != "diagnostics":
                    continue     # pages / metadata converging is C12's statement
                step = "repaired" if chk["after"] <= 2 else "brought back"
                verb = {"delete": "deleted", "update": "edited"}[case["how"]]
                if d["stale_or_extra"]:
                    x = d["stale_or_extra"][0]
                    return (f"stale: after {t['path']} was {verb} (fault {step}), the open project still delivers {x[0]} for {d['file']} "
                            f"which a clean build of the same contents does not report: {x}")
                if d["missing"]:
                    x = d["missing"][0]
                    return (f"lost: after {t['path']} was {verb} (fault {step}), the open project no longer delivers {x[0]} for {d['file']} "
                            f"which a clean build of the same contents reports: {x}")
        return None

    def oracle_merge(self, case, impl):
        # last write per output id, as a page database holds it
        store = {}
        for o in case["parsed"]:
            store[o["out"]] = o
        by_src = {}
        for o in store.values():
            by_src.setdefault(o["src"], []).append([d["t"] for d in o["ds"]])
        orphan = {}
        for k, ds in case["orphan"]:
            orphan[k] = [d["t"] for d in ds]
        merged = {k: [d["t"] for d in v] for k, v in impl["merged"].items()}
        want_keys = set(by_src) | set(orphan) | {k for o in case["others"] for k, _ in o}
        if set(merged) != want_keys:
            return f"keys: merged result has keys {sorted(set(merged) ^ want_keys)} invented or lost"
        for f in sorted(want_keys):
            rest = orphan.get(f, []) + [d["t"] for o in case["others"] for k, ds in o if k == f for d in ds]
            lists = by_src.get(f, [])
            got = merged[f]
            every = [t for l in lists for t in l]
            first = []
            for t in every:
                if t not in first:
                    first.append(t)
            head = got[:len(got) - len(rest)] if rest else got
            # nothing invented / filed elsewhere
            extra = Counter(got) - (Counter(rest) + Counter(every))
            if extra or set(head) - set(every):
                return f"invented: {f}: diagnostics {sorted(extra) or sorted(set(head) - set(every))} in the merged list were not produced for this file"
            # nothing dropped: every object of every output of the source, and everything orphan/others hold
            missing = (set(every) - set(head)) | set((Counter(rest) - Counter(got)).keys())
            if missing:
                return f"dropped: {f}: diagnostics {sorted(missing)} produced for this file ({len(lists)} output(s)) are missing from the merged list"
            if all(len(set(l)) == len(l) for l in lists):
                # each object exactly once (the order of first appearance is compared with the model, not demanded here)
                if Counter(head) != Counter(first):
                    return f"duplicated: {f}: parsed part is {head}, the outputs hold the objects {first} (each must appear once)"
            # order inside each source kept
            tail = got[len(got) - len(rest):] if rest else []
            if rest and tail != rest:
                return f"order: {f}: orphan/others part is {tail}, produced as {rest}"
        for f, v in impl["filtered"].items():
            want = [d for d in impl["merged"][f] if d["c"] not in case["silence"]]
            if v != want:
                return f"filter: {f}: filtered list is not the unsilenced sub-list in order"
        return None

    def oracle_walk(self, case, impl):
        want = []

        def go(x, cur):
            if x["k"] == "fault":
                want.append([cur, x["t"]])
            else:
                for c in x["c"]:
                    go(c, x["f"] if x["k"] == "root" else cur)

        for c in case["children"]:
            go(c, case["fileid"])
        if impl["seen"] != want:
            return f"attribution: handler saw {impl['seen'][:5]}, nearest enclosing Root says {want[:5]}"
        return None

    def oracle_e2e(self, case, impl):
        _, faults = render(case)
        silence = set(case["config"].get("silence", []))
        final = {p: ds for p, ds in impl["set"]}
        # (2) nothing silenced is delivered through any channel
        for chan, events in (("on_diagnostics", [(p, ds) for p, ds, _ in impl["on"]]), ("set_diagnostics", impl["set"])):
            for p, ds in events:
                for d in ds:
                    if d["c"] in silence:
                        return f"silenced: {d['c']} is silenced but was delivered through {chan} under {p}"
        # (1) every seeded fault is in the final set under its file at its line (unless silenced)
        used = {}
        for f in faults:
            live = [c for c in f["classes"] if c not in silence]
            hits = [i for i, d in enumerate(final.get(f["file"], [])) if fault_matches(f, d)]
            if live and not hits and not f.get("optional"):
                seen_on = any(p == f["file"] and fault_matches(f, d) for p, ds, _ in impl["on"] for d in ds)
                if seen_on:
                    tag = "dropped"
                    return (f"{tag}: seeded {f['kind']} (in {f['in']}) was delivered under {f['file']} through on_diagnostics "
                            f"but is not in the final set of {f['file']}")
                near = [(d["c"], d["rl"]) for p, ds in impl["set"] for d in ds if d["c"] in f["classes"]]
                where = sorted({p for p, ds in impl["set"] for d in ds if d["c"] in f["classes"] and p != f["file"]})
                return (f"missing: seeded {f['kind']} (in {f['in']}) expected as {'/'.join(f['classes'])} under {f['file']} line {f['line']}"
                        f"{' or ' + str(f['alt_line']) if 'alt_line' in f else ''}; final set has {sorted(set(near))[:6]} of that class"
                        f"{' under ' + str(where) if where else ''}")
            for i in hits:
                used.setdefault(f["file"], set()).add(i)
        # (3) nothing filed under a file that does not contain its cause
        for p, ds in list(final.items()) + [(p, ds) for p, ds, src in impl["on"] if src == "project"]:
            for d in ds:
                if not any(f["file"] == p and fault_matches(f, d) for f in faults):
                    return f"misfiled: {d['c']} line {d['rl']} delivered under {p}, which holds no seeded fault it could report ({impl['messages'].get(str(d['t']), ['?'])[-1][:80]})"
        # (3') a page that shows an image whose size cannot be determined is told so (through the asset channel of the command-line
        #      backend), however many other pages show the same file
        if "ImageSizeUndetermined" not in silence:
            for p_ in case["pages"]:
                if any(b["t"] == "bad_image_file" for b in p_["blocks"]):
                    fid = p_["name"] + ".txt"
                    if not any(pth == fid and d["c"] == "ImageSizeUndetermined" for pth, ds, _ in impl["on"] for d in ds):
                        others = sorted({pth for pth, ds, _ in impl["on"] for d in ds if d["c"] == "ImageSizeUndetermined"})
                        return (f"missing: {fid} shows an image whose size cannot be determined but no ImageSizeUndetermined was delivered "
                                f"under it (delivered under {others})")
        # (4) final set == union of what was delivered per file: no drop, no invention, no duplication
        on = per_file([[p, ds] for p, ds, src in impl["on"] if src == "project"])
        for p in sorted(set(on) | set(final)):
            c_on = Counter(d["t"] for d in on.get(p, []))
            c_fin = Counter(d["t"] for d in final.get(p, []))
            k = n_outputs(case, p)
            for t in sorted(set(c_on) | set(c_fin)):
                name = impl["messages"].get(str(t), ["?", "?", "?"])
                if c_fin[t] == 0:
                    return f"dropped: {name[0]} line {name[1]} was delivered under {p} through on_diagnostics but is not in the final set of {p} ({k} output(s))"
                if c_on[t] == 0:
                    return f"invented: {name[0]} line {name[1]} is in the final set of {p} but was never delivered for it"
                if c_fin[t] > c_on[t]:
                    return f"duplicated: {name[0]} line {name[1]}: {c_fin[t]} copies in the final set of {p}, {c_on[t]} delivered"
                if c_on[t] > k * c_fin[t]:
                    return f"dropped: {name[0]} line {name[1]}: {c_on[t]} deliveries under {p} ({k} output(s)), {c_fin[t]} in the final set"
        # (5) counted: the error counter is the number of error-level diagnostics delivered, exit status follows it
        delivered_errors = sum(1 for p, ds, _ in impl["on"] for d in ds if d["s"] >= 3)
        if impl["total_errors"] != delivered_errors:
            return f"counter: total_errors {impl['total_errors']} but {delivered_errors} error-level diagnostics were delivered"
        printed_errors = sum(1 for p in impl["printed"] if p[1] == "ERROR")
        fail = bool(case["config"].get("fail"))
        want_exit = 0 if printed_errors == 0 else (1 if fail else 2)
        if (impl["exit"] != 0) != (printed_errors > 0):
            return f"exit: status {impl['exit']} with {printed_errors} error-level diagnostics printed"
        if impl["exit"] != want_exit:
            return f"exit: status {impl['exit']}, fail_on_diagnostics={fail}, errors printed {printed_errors}: expected {want_exit}"
        # the command-line run printed exactly what the recording run delivered
        rec = Counter((p, impl["messages"][str(d["t"])][2], d["rl"]) for p, ds, _ in impl["on"] for d in ds)
        prt = Counter((p[0], p[3], p[2]) for p in impl["printed"])
        if rec != prt:
            diff = list((rec - prt).items())[:2] + list((prt - rec).items())[:2]
            return f"cli: printed diagnostics differ from the delivered ones: {diff}"
        return None

    def finding_key(self, case, impl, desc):
        head = desc.split(":")[0]
        if head == "crash":
            return "crash:" + desc.split(":")[1].strip()
        if head == "silenced":
            return "silenced:" + desc.split(" ")[1] + ":" + desc.split("through ")[1].split(" ")[0]
        if head in ("stale", "lost") and case.get("kind") == "store":
            return f"store-{head}"
        if head in ("stale", "lost"):
            return f"repair-{head}:" + desc.split("delivers ")[1].split(" ")[0] + ":" + case["target"]["type"] + ":" + case["how"]
        if head == "missing" and "seeded " in desc:
            return "missing:" + desc.split("seeded ")[1].split(" ")[0] + ":" + desc.split("(in ")[1].split(")")[0]
        if head == "missing":
            return "missing:asset-diagnostic"
        return head

    # ---- real process exit status ----------------------------------------------------------
    def extra_checks(self, tier, rng):
        viol = []
        cov = {}
        # real process exit status on six small projects
        specs = []
        base = {"kind": "e2e", "pages": [{"name": "index", "toc": True, "blocks": []},
                                          {"name": "alpha", "toc": True, "blocks": [{"t": "text", "n": 1}]}],
                "includes": [], "yaml": [], "toc_missing": []}
        for name, blocks, silence, fail, want in [
            ("clean", [], [], True, 0),
            ("error", [{"t": "undefined_ref", "n": 2}], [], False, 2),
            ("error+fail", [{"t": "undefined_ref", "n": 2}], [], True, 1),
            ("error-silenced+fail", [{"t": "undefined_ref", "n": 2}], ["TargetNotFound"], True, 0),
            ("warning-only+fail", [], [], True, 0),
            ("config-error-silenced", [], ["DocUtilsParseError"], True, 0),
        ]:
            c = copy.deepcopy(base)
            c["pages"][1]["blocks"] += blocks
            c["config"] = {"silence": silence, "fail": fail, "bad_substitutions": [1] if name.startswith("config") else [], "bad_banners": []}
            if name.startswith("warning"):
                c["pages"][1]["toc"] = False
            specs.append((name, c, want))
        results = [None] * len(specs)

        def work(i):
            name, c, want = specs[i]
            files, _ = render(c)
            root = Path(tempfile.mkdtemp(prefix=f"verif-c14-sub-{os.getpid()}-"))
            try:
                write_project(root, files)
                env = dict(os.environ, DIAGNOSTICS_FORMAT="JSON")
                p = subprocess.run([sys.executable, "-m", "snooty", "build", "--no-caching", str(root)], env=env,
                                   stdout=subprocess.PIPE, stderr=subprocess.DEVNULL, text=True, timeout=300, cwd=str(core.REPO))
                sev = [json.loads(l)["diagnostic"]["severity"] for l in p.stdout.split("\n") if l.startswith('{"diagnostic"')]
                results[i] = (p.returncode, sev)
            except Exception as e:
                results[i] = ("exc", str(e))
            finally:
                shutil.rmtree(root, ignore_errors=True)

        threads = [threading.Thread(target=work, args=(i,)) for i in range(len(specs))]
        for t in threads:
            t.start()
        for t in threads:
            t.join()
        rows = []
        for (name, c, want), r in zip(specs, results):
            rows.append({"project": name, "exit": r[0], "severities": r[1] if isinstance(r[1], list) else str(r[1])})
            if r[0] == "exc":
                raise core.Infra(f"subprocess build failed: {r[1]}")
            errors = sum(1 for s in r[1] if s == "ERROR")
            m = core.run_driver([{"op": "c14.exit", "load_error": False, "build": True, "errors": errors, "fail": bool(c["config"]["fail"])}])[0]
            desc = None
            if (r[0] != 0) != (errors > 0):
                desc = f"exit: `python -m snooty build` exit status {r[0]} with {errors} error-level diagnostics printed ({name})"
            elif r[0] != want:
                desc = f"exit: `python -m snooty build` exit status {r[0]}, expected {want} ({name})"
            elif m.get("exit") != r[0]:
                desc = f"exit: model says {m.get('exit')}, process exit status {r[0]} ({name})"
            if desc:
                viol.append({"case": c, "desc": desc, "key": "exit-subprocess:" + name})
        cov["subprocess_exit_status"] = rows
        return viol, cov

    # ---- evidence ---------------------------------------------------------------------
    def nontrivial_key(self, case, impl):
        if impl.get("exc"):
            return None
        if case["kind"] == "merge":
            return json.dumps(case, sort_keys=True) if any(impl["merged"].values()) else None
        if case["kind"] == "walk":
            return json.dumps(case, sort_keys=True) if impl["seen"] else None
        if case["kind"] == "repair":
            return json.dumps(case, sort_keys=True) if impl["checks"] else None
        if case["kind"] == "store":
            return json.dumps(case, sort_keys=True) if any(o["op"] == "del" for o in case["ops"]) else None
        return json.dumps(case, sort_keys=True) if any(ds for _, ds in impl["set"]) or impl["silence"] else None

    def branch_tags(self, case, model, impl):
        tags = ["kind:" + case["kind"]]
        if impl.get("exc"):
            return tags + ["exc"]
        if case["kind"] == "merge":
            srcs = Counter(o["src"] for o in case["parsed"])
            if any(v > 1 for v in srcs.values()):
                tags.append("merge:multi-output")
            if case["silence"]:
                tags.append("merge:silenced")
            if len(case["others"]) >= 2:
                tags.append("merge:two-or-more-others")
        elif case["kind"] == "store":
            seen_p, seen_o = set(), set()
            for o in case["ops"]:
                if o["op"] == "set":
                    seen_p.add(o["out"])
                elif o["op"] == "orphan":
                    seen_o.add(o["k"])
                else:
                    tags.append("store:del-" + ("page" if o["k"] in seen_p else "orphan-only" if o["k"] in seen_o else "unknown-key"))
        elif case["kind"] == "repair":
            tags.append(f"repair:{case['target']['type']}:{case['how']}:{case.get('via', 'disk')}" + (":again" if case.get("again") else ""))
        elif case["kind"] == "e2e":
            _, faults = render(case)
            for f in faults:
                tags.append(f"fault:{f['kind']}@{f['in']}")
            tags.append("exit:" + str(impl["exit"]))
            tags.append("fail_on_diagnostics:" + str(bool(case["config"].get("fail"))))
            if case["config"].get("silence"):
                tags.append("silence:nonempty")
            if any(src == "asset" for _, _, src in impl["on"]):
                tags.append("asset-diagnostic-delivered")
        return tags

    def sample(self, case, impl):
        if case["kind"] == "e2e":
            files, faults = render(case)
            return {"files": {k: (v if isinstance(v, str) else "<bytes>") for k, v in list(files.items())[:4]},
                    "faults": faults[:6], "final": impl.get("set"), "exit": impl.get("exit")}
        return {"case": case, "impl": impl}


PROP = C14()
