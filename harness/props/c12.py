"""C12 — incremental updates converge to the clean-build result.

A case is a generated project (snooty.toml + 2-4 pages with toctree, labels / refs / :doc: across pages, a shared
include, a literal-included file, a figure, a giza YAML file with up to three entries) and an edit history of <= 8 operations
{update(page|include|yaml|asset), delete(file), create(file), postprocess}. `run_impl` opens a REAL `Project`
(`impl/c12_e2e.py`), applies the history through the public API the language server / watcher use
(`Project.update(fileid[, text])`, `Project.delete(fileid)`, `postprocess()`), and after every `postprocess` operation and
after the last operation compares pages (serialised ASTs, assets, facets), metadata and per-file diagnostics
(class, line, message) delivered by the next postprocessing run with a FRESH `Project` opened on a copy of the
directory holding the current contents (editor buffers written out).  That differential IS the property (direct oracle).

Correspondence (kind "corr"): additionally the store contents (key -> source, content hash) after every operation are
compared with the Lean model `codeRun` (the fixed `_Project.update/delete` + asset graph), instantiated with a parse
table measured from clean builds of every intermediate environment (`c12.run`).

Aliasing probe: a pickle of the stored parse results is taken before and after every `postprocess()`; and the
postprocessing is repeated without changes and must reproduce its result.

Histories are run in a process pool (a `Project.build` forks its own workers, so the framework's daemonic pool cannot be
used): `generate` pre-computes the results of the cases it yields, `run_impl` looks them up (and computes inline for
shrink candidates / replays)."""
import concurrent.futures
import copy
import hashlib
import json
import multiprocessing
import os
import re

import core
from impl import c12_e2e

PNG = ("89504e470d0a1a0a0000000d49484452000000010000000108060000001f15c4890000000d49444154789c6360000002000001e221bc33"
       "0000000049454e44ae426082")
WORDS = ["alpha", "beta", "gamma", "delta", "MongoDB", "shard", "replica", "index", "query", "cursor", "naïve", "日本"]
GIZA_PREFIXES = ("steps", "extracts", "release")


def category(path):
    name = path.rsplit("/", 1)[-1]
    if path.endswith(".yaml") and name.split("-", 1)[0] in GIZA_PREFIXES:
        return "yaml"
    if path.endswith((".txt", ".rst")):
        return "include" if path.startswith("includes/") else "page"
    return "asset"


def is_source(path):
    return category(path) != "asset"


def contents_after(case, after):
    """source path -> text after the first `after` operations"""
    cur = {f[len("source/"):]: t for f, t in case["files"].items() if f.startswith("source/")}
    for o in case["ops"][:after]:
        if o["op"] in ("update", "create"):
            cur[o["path"]] = o["text"]
        elif o["op"] == "delete":
            cur.pop(o["path"], None)
    return cur


def shared_outputs(case, after):
    """generated pages which two extracts files of the contents after `after` operations both define (hypothesis `owns` of the
    theorems fails there, and a clean build of such contents goes by the order in which the directory happens to be listed:
    util.get_files does not sort file names)"""
    owners = {}
    for p, t in contents_after(case, after).items():
        name = p.rsplit("/", 1)[-1]
        if isinstance(t, str) and name.startswith("extracts-") and name.endswith(".yaml"):
            for ref in set(re.findall(r"(?m)^ref:[ \t]*[\"']?([^\s\"']+)", t)):
                owners.setdefault(p.rsplit("/", 1)[0] + f"/extracts/{ref}.rst", set()).add(p)
    return sorted(k for k, v in owners.items() if len(v) > 1)


def _run(case):
    return c12_e2e.run_history(case, want_store=(case.get("kind") == "corr"))


class C12(core.PropertyCheck):
    id = "C12"
    level = "proof"
    parallel = False
    quick_budget = 400
    thorough_budget = 2400
    rule = ("generated projects: index + 1-3 pages (toctree, labels, :ref:/:doc: across pages incl. dangling ones, unknown directive), "
            "shared include, literalinclude'd file, figure, extracts or steps YAML with 1-3 entries (sometimes malformed) x histories of "
            "1-8 operations {update page/include/yaml (disk or editor buffer), update/delete asset, delete, create (new or re-created "
            "file), postprocess} with freshly generated contents; an entry moved between two YAML files (pasted, then cut / second file deleted / "
            "paste undone / first file saved again and then cut); dense (postprocess + comparison after every operation) and sparse "
            "variants; every comparison is against a fresh Project on a copy of the directory. non-trivial = at least one mutating "
            "operation applied without raising and at least one comparison made; distinct by case content")
    assumptions = [
        "the parser is abstract in the model (footprint law is a hypothesis); the obligation that every read of a parse is a recorded "
        "dependency edge is NOT proved about the Python parser — it is what the end-to-end differential tests, and it fails for "
        "existence checks of :doc: targets (known finding)",
        "aliasing between stored parse results and postprocessor inputs cannot be expressed in the pure model: checked by the pickle probe",
        "editor-buffer histories contain no asset operations (the language server forwards only .txt/.rst/.yaml events) and compare "
        "against a clean build of the buffer contents written to disk",
        "`objects.inv` in metadata.static_files is added by build() only, never by postprocess(): excluded from the comparison",
        "YAML inheritance (`inherit:` / `source:` across files), multi-page YAML files carrying figures, synthetic pages and the parse "
        "cache are outside the generated input space",
        "contents in which two extracts files define one ref (hypothesis `owns` fails) are compared with nothing: the clean build itself goes "
        "by the order os.walk lists the files in. Histories may pass through such contents (an entry pasted before it is cut); every "
        "comparison made once each ref has one owner again counts (fix 70b888c, theorems shared_key_refuted / shared_key_restored)",
    ]
    extra_trusted = ["harness/impl/c12_e2e.py (recording backend, observation canonicaliser, directory copies)"]

    def __init__(self):
        self.memo = {}
        self._known = None

    # ---- generation -------------------------------------------------------------------
    def words(self, rng, n):
        return " ".join(rng.choice(WORDS) for _ in range(n))

    def gen_page(self, rng, name, ctx, toctree=False):
        title = f"{name.capitalize()} {self.words(rng, 1)}"
        out = ["=" * len(title), title, "=" * len(title), ""]
        blocks = rng.randint(1, 5)
        for b in range(blocks):
            r = rng.random()
            if r < 0.2:
                # one label in eight is the project-wide `shared-dup`: defined on several pages, which definition a reference
                # gets and the order the pages are named in the diagnostic must not depend on the history of the open project
                lab = f"{name}-l{rng.randint(0, 2)}" if rng.random() < 0.875 else "shared-dup"
                head = self.words(rng, 2)
                out += [f".. _{lab}:", "", head, "-" * len(head), "", self.words(rng, 3), ""]
            elif r < 0.35:
                tgt = rng.choice(ctx["pages"] + ["index"])
                lab = f"{tgt}-l{rng.randint(0, 2)}" if rng.random() < 0.8 else "shared-dup"
                out += [f"See :ref:`{lab}` and {self.words(rng, 2)}.", ""]
            elif r < 0.47:
                tgt = rng.choice(ctx["pages"] + ["index", "ghost"])
                out += [f"Read :doc:`/{tgt}` for {self.words(rng, 1)}.", ""]
            elif r < 0.57:
                out += [f".. include:: /{ctx.get('shared', 'includes/shared.rst')}", ""]
            elif r < 0.67:
                if ctx["yaml"].startswith("includes/extracts"):
                    out += [f".. include:: /includes/extracts/{rng.choice(['foo', 'bar', 'baz'])}.rst", ""]
                else:
                    out += [f".. include:: /includes/steps/{ctx['yaml'].rsplit('-', 1)[-1][:-5]}.rst", ""]
            elif r < 0.77:
                # now and then the file shown verbatim is itself a source file of the project (an include shown as an example)
                # (disk histories only: what a literalinclude shows of a file with unsaved editor changes is not settled by the property)
                shown = ("/" + ctx.get("shared", "includes/shared.rst")) if (ctx.get("lit_src") and rng.random() < 0.3) else "/code/sample.py"
                out += [f".. literalinclude:: {shown}", "   :language: python", ""]
            elif r < 0.85:
                out += [".. figure:: /images/a.png", "   :alt: a figure", ""]
            elif r < 0.9:
                out += [".. bogus-directive:: x", "", self.words(rng, 2), ""]
            elif ctx.get("subs") and r < 0.97:
                out += [f"Uses |{rng.choice(ctx['subs'])}| and |{rng.choice(ctx['subs'])}| here.", ""]
            else:
                out += [self.words(rng, rng.randint(2, 8)) + ".", ""]
        if ctx.get("dup"):
            # every page of such a project defines `shared-dup`, the index refers to it
            head = self.words(rng, 2)
            out += ([f"See :ref:`shared-dup` for {self.words(rng, 1)}.", ""] if toctree else
                    [".. _shared-dup:", "", head, "-" * len(head), "", self.words(rng, 2), ""])
        if toctree:
            out += [".. toctree::", ""] + [f"   /{p}" for p in ctx["pages"] if rng.random() < 0.85] + [""]
        return "\n".join(out)

    def gen_yaml(self, rng, path):
        if rng.random() < 0.08:
            own = "foo" if path.endswith("-a.yaml") else ("grault" if path.endswith("-c.yaml") else "qux")   # one owner per output key
            return rng.choice(["ref: [unclosed\ncontent: x\n", "- just\n- a list\n", f"ref: {own}\ncontent: |\n  ok\n---\ncontent: no ref here\n...\n"])
        if path.startswith("includes/extracts"):
            # every output key belongs to one source file (hypothesis `owns` of the theorems): two YAML files defining the
            # same ref would make even the clean build depend on directory listing order
            pool = ["foo", "bar", "baz"] if path.endswith("-a.yaml") else (["grault", "garply"] if path.endswith("-c.yaml") else ["qux", "quux", "corge"])
            refs = rng.sample(pool, rng.randint(1, len(pool)))
            docs = []
            for r in refs:
                body = self.words(rng, rng.randint(1, 4))
                if rng.random() < 0.2:
                    body += " :ref:`index-l0`"
                if path.endswith("-b.yaml") and getattr(self, "_xfile", True) and rng.random() < 0.5:
                    # cross-file inheritance: the content comes from an entry of extracts-a.yaml (may be dangling);
                    # the heir may bring replacements of its own (some keys only the parent defines)
                    own = ""
                    if rng.random() < 0.7:
                        # overrides ONE of the two keys the parent's text uses; the other one keeps coming from the parent
                        own = "replacement:\n" + f'  {rng.choice(["user", "datadir"])}: "{self.words(rng, 1)}"\n' + ('  port: "27017"\n' if rng.random() < 0.3 else "")
                    docs.append(f"ref: {r}\nsource:\n  file: extracts-a.yaml\n  ref: {rng.choice(['foo', 'bar', 'baz'])}\n{own}")
                    continue
                if getattr(self, "_xfile", True):
                    x = rng.random()
                    if x < 0.12:      # a source constant, declared ({+version+}) or not: reported at its line of the FILE
                        body += " uses {+" + rng.choice(["version", "nosuchconst"]) + "+}"
                    elif x < 0.2:     # an rst-level problem inside the generated page
                        body += " :nosuchrole:`x`"
                    elif x < 0.3:     # a generated page with a dependency of its own (every page of the file keeps its edges)
                        body += "\n\n  .. literalinclude:: /code/sample.py\n     :language: python"
                if path.endswith("-c.yaml"):
                    # second level of cross-file inheritance: c <- b <- a
                    docs.append(f"ref: {r}\nsource:\n  file: extracts-b.yaml\n  ref: {rng.choice(['qux', 'quux', 'corge'])}\n")
                    continue
                if getattr(self, "_xfile", True) and rng.random() < (0.75 if path.endswith("-a.yaml") else 0.4):
                    # placeholders filled from the entry's own replacement table (and, in heirs, from the heir's)
                    body += " in {{datadir}} as {{user}}"
                    keys = ["user", "datadir"] if rng.random() < 0.8 else rng.sample(["user", "datadir", "port"], rng.randint(1, 3))
                    rep_ = "replacement:\n" + "".join(f'  {k}: "{self.words(rng, 1)}"\n' for k in keys)
                    docs.append(f"ref: {r}\ncontent: |\n  {body}\n{rep_}")
                    continue
                docs.append(f"ref: {r}\ncontent: |\n  {body}\n")
            return "---\n".join(docs) + "...\n"
        docs = []
        if path.endswith("steps-heir.yaml"):
            # steps taken from steps-setup.yaml, with or without a ref of their own (a step may take its parent's); the parent
            # file has one to three steps at any time, so the pointer may dangle after an update
            for i in range(rng.randint(1, 2)):
                own = f"ref: h{i}\n" if rng.random() < 0.5 else ""
                docs.append(f"{own}source:\n  file: steps-setup.yaml\n  ref: s{rng.choice([0, 1, 1, 2, 2])}\n")
            return "---\n".join(docs) + "...\n"
        for i in range(rng.randint(1, 3)):
            docs.append(f"title: Step {self.words(rng, 1)}\nstepnum: {i + 1}\nref: s{i}\ncontent: |\n  {self.words(rng, 3)}\n")
        return "---\n".join(docs) + "...\n"

    def gen_asset(self, rng, path):
        if path.endswith("facets.toml"):
            # read by the postprocessor itself (propagate_facets), not by any page
            return f'[[facets]]\ncategory = "genre"\nvalue = "{rng.choice(["tutorial", "reference"])}"\n'
        if path.endswith(".png"):
            return {"hex": PNG + "00" * rng.randint(0, 3)}
        return "\n".join(f"print({rng.randint(0, 99)})" for _ in range(rng.randint(1, 3))) + "\n"

    def gen_text(self, rng, path, ctx):
        cat = category(path)
        if cat == "yaml":
            return self.gen_yaml(rng, path)
        if cat == "asset":
            return self.gen_asset(rng, path)
        if cat == "include":
            text = self.words(rng, rng.randint(1, 5)) + (" :ref:`index-l1`" if rng.random() < 0.3 else "") + ".\n"
            r = rng.random()
            if r < 0.3:    # an included file that carries an asset of its own (the including page gets it from the include pass)
                text += "\n.. figure:: /images/a.png\n   :alt: included figure\n"
            elif r < 0.45:
                text += "\n.. literalinclude:: /code/sample.py\n   :language: python\n"
            return text
        name = path.rsplit(".", 1)[0]
        return self.gen_page(rng, name, ctx, toctree=(name == "index"))

    def gen_case(self, rng, kind):
        # the store-correspondence cases instantiate the model with a parse table keyed by each source's own content;
        # cross-file giza inheritance (b's pages depend on a's text) is therefore exercised by the end-to-end cases only
        self._xfile = kind != "corr"
        npages = rng.randint(1, 3)
        pages = [f"page{i + 1}" for i in range(npages)]
        yaml = rng.choice(["includes/extracts-a.yaml", "includes/extracts-a.yaml", "includes/steps-setup.yaml"])
        mode = rng.choice(["disk", "disk", "buffer"])
        ctx = {"pages": pages, "yaml": yaml, "dup": npages >= 2 and rng.random() < 0.3, "lit_src": mode == "disk" and kind != "corr"}
        toml = 'name = "c12"\n\n[constants]\nversion = "4.2"\n'
        if rng.random() < 0.5:
            # project-wide substitutions holding link roles without a title of their own: the title is injected at every use,
            # on every postprocessing run, from whatever the target's heading currently is
            toml += ("\n[substitutions]\n" + f'link = ":ref:`{rng.choice(pages + ["index"])}-l{rng.randint(0, 1)}`"\n'
                     + f'page = ":doc:`/{rng.choice(pages + ["index"])}`"\n' + 'plain = "just *text*"\n')
            ctx["subs"] = ["link", "page", "plain"]
        if kind != "corr" and rng.random() < 0.3:
            # a page that is also built as a man page: the rendered text is part of the metadata (static_files) and has to follow
            # every update - of the page and of what the page includes
            toml += f'\n[manpages.tool]\nfile = "{rng.choice(pages + ["index"])}.txt"\ntitle = "Tool"\nsection = 1\n'
        src = {"index.txt": None}
        for p in pages:
            src[p + ".txt"] = None
        if kind != "corr" and rng.random() < 0.25:
            # a file name that is not ASCII, written the way some systems hand names out (letter + combining accent): a file is
            # found under the name it has on disk, byte for byte
            ctx["shared"] = "includes/shared-re\u0301sume\u0301.rst"
        src[ctx.get("shared", "includes/shared.rst")] = None
        src[yaml] = None
        if yaml.startswith("includes/extracts") and rng.random() < 0.5:
            src["includes/extracts-b.yaml"] = None
            if kind != "corr" and rng.random() < 0.5:
                src["includes/extracts-c.yaml"] = None
        src["code/sample.py"] = None
        src["images/a.png"] = None
        if kind != "corr" and yaml.endswith("steps-setup.yaml") and rng.random() < 0.6:
            src["includes/steps-heir.yaml"] = None
        if kind != "corr" and rng.random() < 0.35:
            src["facets.toml"] = None
        for p in list(src):
            src[p] = self.gen_text(rng, p, ctx)
        files = {"snooty.toml": toml}
        for p, t in src.items():
            files["source/" + p] = t
        # history
        dense = rng.random() < 0.5
        exists = set(src)
        ever = set(src)
        spare = ["page9.txt", "includes/extracts-b.yaml" if yaml.startswith("includes/extracts") else "includes/steps-more.yaml",
                 "includes/extra.rst"]
        ops = []
        n = rng.randint(1, 8)
        while len(ops) < n:
            r = rng.random()
            if r < 0.5:
                cands = sorted(p for p in exists if is_source(p) or mode == "disk")
                if not cands:
                    continue
                p = rng.choice(cands)
                via = "buffer" if (mode == "buffer" and is_source(p)) else "disk"
                text = self.gen_text(rng, p, ctx)
                if via == "buffer" and isinstance(text, str) and kind != "corr" and rng.random() < 0.25:
                    # an editor that keeps Windows line ends in its buffer: the same text as the file it will save
                    text = text.replace("\n", "\r\n")
                ops.append({"op": "update", "path": p, "text": text, "via": via})
            elif r < 0.68:
                cands = sorted(p for p in exists if p != "index.txt" and (is_source(p) or mode == "disk"))
                if not cands:
                    continue
                p = rng.choice(cands)
                exists.discard(p)
                ops.append({"op": "delete", "path": p})
            elif r < 0.85:
                cands = sorted((ever - exists) | set(s for s in spare if s not in exists))
                cands = [p for p in cands if is_source(p) or mode == "disk"]
                if not cands:
                    continue
                p = rng.choice(cands)
                if p == "page9.txt" and "page9" not in ctx["pages"]:
                    ctx["pages"].append("page9")
                exists.add(p)
                ever.add(p)
                ops.append({"op": "create", "path": p, "text": self.gen_text(rng, p, ctx)})
            elif r < 0.9 and mode == "disk" and kind != "corr" and ops:
                ops.append({"op": "build"})
            else:
                ops.append({"op": "postprocess"})
            if dense and ops[-1]["op"] not in ("postprocess", "build") and len(ops) < n:
                ops.append({"op": "postprocess"})
        ops = ops[:8]
        if "includes/extracts-b.yaml" in exists and "includes/extracts-a.yaml" in exists and self._xfile and rng.random() < 0.7:
            # the parent of inheriting entries changes after everything was built once: heirs must be regenerated from the new parent
            ops = ops[:5] + [{"op": "postprocess"}, {"op": "update", "path": "includes/extracts-a.yaml", "text": self.gen_text(rng, "includes/extracts-a.yaml", ctx), "via": "disk"},
                             {"op": "postprocess"}]
        settled = {}
        if "includes/extracts-b.yaml" in exists and "includes/extracts-a.yaml" in exists and self._xfile and rng.random() < 0.25:
            # an entry MOVES from one file to the other, pasted first and cut second: for a moment both files define it (which one
            # wins then is nobody's business - a clean build goes by the order the directory is listed in - and nothing is
            # compared), afterwards exactly one does. The moment ends in one of four ways: the entry is cut from the first file; the
            # second file is deleted; the paste is undone; the first file is saved once more before the entry is cut from it. In
            # each of them the page has to be there afterwards, generated from the file that still defines it.
            via = "disk" if mode == "disk" else "buffer"
            w = self.words
            a0 = f"ref: foo\ncontent: |\n  original {w(rng, 2)}\n---\nref: bar\ncontent: |\n  {w(rng, 2)}\n...\n"
            b0 = f"ref: qux\ncontent: |\n  {w(rng, 2)}\n...\n"
            b1 = b0[:-4] + f"---\nref: foo\ncontent: |\n  moved {w(rng, 2)}\n...\n"
            a1 = f"ref: bar\ncontent: |\n  {w(rng, 2)}\n...\n"
            A, B = "includes/extracts-a.yaml", "includes/extracts-b.yaml"
            paste = {"op": "update", "path": B, "text": b1, "via": via}
            way = rng.choice(["cut", "cut", "delete-second", "undo-paste", "save-then-cut"])
            if way == "cut":
                leave = [{"op": "update", "path": A, "text": a1, "via": via}]
                settled = {A: a1, B: b1}
            elif way == "delete-second":
                leave = [{"op": "delete", "path": B}]
                exists.discard(B)
                settled = {A: a0, B: b0}
            elif way == "undo-paste":
                leave = [{"op": "update", "path": B, "text": b0, "via": via}]
                settled = {A: a0, B: b0}
            else:
                a0s = a0.replace("original", "original, saved again,")
                leave = [{"op": "update", "path": A, "text": a0s, "via": via}, {"op": "update", "path": A, "text": a1, "via": via}]
                settled = {A: a1, B: b1}
            ops = ops[:4] + [{"op": "update", "path": A, "text": a0, "via": via}, {"op": "postprocess"}, paste] + leave + [{"op": "postprocess"}]
        if rng.random() < 0.25:
            # bounce: a file other files look for goes away and comes back (whoever looked for it must be re-parsed both times)
            cands = sorted(p for p in exists if p != "index.txt" and (is_source(p) or mode == "disk"))
            if cands:
                p = rng.choice(cands)
                back = src[p] if (p in src and rng.random() < 0.5) else self.gen_text(rng, p, ctx)
                if p in settled:
                    # after a move the two files come back as the move left them: every ref keeps its one owner
                    back = settled[p]
                bounce = [{"op": "delete", "path": p}]
                if rng.random() < 0.6:
                    bounce.append({"op": "postprocess"})
                bounce.append({"op": "create", "path": p, "text": back})
                bounce.append({"op": "postprocess"})
                # a history that holds a move is not cut short in the middle of it
                ops = (ops if settled else ops[:4]) + bounce
        return {"kind": kind, "mode": mode, "files": files, "ops": ops}

    def corpus(self):
        cs = super().corpus()
        self.prefetch(cs)
        return cs

    def prefetch(self, cases):
        todo = [c for c in cases if self.ckey(c) not in self.memo]
        if not todo:
            return
        workers = max(1, min(8, (os.cpu_count() or 2) // 2))
        try:
            ctx = multiprocessing.get_context("fork")
            with concurrent.futures.ProcessPoolExecutor(max_workers=workers, mp_context=ctx) as ex:
                for c, r in zip(todo, ex.map(_run, todo, chunksize=1)):
                    self.memo[self.ckey(c)] = r
        except Exception as e:   # fall back to inline execution
            for c in todo:
                if self.ckey(c) not in self.memo:
                    self.memo[self.ckey(c)] = _run(c)

    @staticmethod
    def ckey(case):
        c = {k: v for k, v in case.items() if k != "origin"}
        return hashlib.sha1(json.dumps(c, sort_keys=True).encode()).hexdigest()

    def generate(self, rng, budget, tier):
        cases = []
        for k in range(budget):
            kind = "corr" if (tier != "search" and k % 4 == 0) else "e2e"
            cases.append(self.gen_case(rng, kind))
        self.prefetch(cases)
        yield from cases

    def shrink_candidates(self, case):
        ops = case["ops"]
        for i in range(len(ops) - 1, -1, -1):
            c = copy.deepcopy(case)
            del c["ops"][i]
            yield c
        for f in sorted(case["files"]):
            if f in ("snooty.toml", "source/index.txt"):
                continue
            rel = f[len("source/"):]
            c = copy.deepcopy(case)
            del c["files"][f]
            c["ops"] = [o for o in c["ops"] if o.get("path") != rel or o["op"] == "create"]
            yield c
        for i, o in enumerate(ops):
            if o["op"] in ("update", "create") and isinstance(o.get("text"), str) and category(o["path"]) in ("page", "include"):
                lines = o["text"].split("\n")
                for j in range(len(lines) - 1, 2, -1):
                    if lines[j].strip():
                        c = copy.deepcopy(case)
                        c["ops"][i]["text"] = "\n".join(lines[:j] + lines[j + 1:])
                        yield c
        for f in sorted(case["files"]):
            t = case["files"][f]
            if isinstance(t, str) and f.endswith((".txt", ".rst")):
                lines = t.split("\n")
                for j in range(len(lines) - 1, 2, -1):
                    if lines[j].strip():
                        c = copy.deepcopy(case)
                        c["files"][f] = "\n".join(lines[:j] + lines[j + 1:])
                        yield c

    # ---- implementation ---------------------------------------------------------------
    def run_impl(self, case):
        k = self.ckey(case)
        if k not in self.memo:
            self.memo[k] = _run(case)
        return self.memo[k]

    # ---- model ------------------------------------------------------------------------
    def model_request(self, case):
        if case.get("kind") != "corr":
            return None
        impl = self.run_impl(case)
        if impl.get("exc") or not impl.get("stores"):
            return None
        return self.build_request(case, impl)

    @staticmethod
    def content_hash(text):
        data = bytes.fromhex(text["hex"]) if isinstance(text, dict) else text.encode("utf-8")
        return hashlib.sha1(data).hexdigest()[:16]

    def build_request(self, case, impl, mode="fixed"):
        stores = impl["stores"]
        paths = set()
        for st in stores:
            paths |= set(st["env"])
        srcs = sorted(p for p in paths if is_source(p))
        rows, seen, keys = [], set(), set()
        for st in stores:
            env = st["env"]
            by_src = {}
            for key, (src, h, deps) in st["fresh"].items():
                keys.add(key)
                by_src.setdefault(src, []).append((key, h, deps))
            for key in st["inc"]:
                keys.add(key)
            for p in srcs:
                if p not in env:
                    continue
                outs = sorted(by_src.get(p, []))
                deps = sorted(set(d for _, _, ds in outs for d in ds) - {p})
                conds = [[p, env[p]]] + [[d, env.get(d)] for d in deps]
                row = {"p": p, "conds": conds, "out": [[k, h] for k, h, _ in outs], "rec": deps}
                sig = json.dumps(row, sort_keys=True)
                if sig not in seen:
                    seen.add(sig)
                    rows.append(row)
        ops = []
        for o in case["ops"]:
            if o["op"] == "postprocess":
                ops.append({"k": "postprocess"})
            elif o["op"] == "delete":
                ops.append({"k": "delete", "p": o["path"]})
            else:
                ops.append({"k": o["op"], "p": o["path"], "c": self.content_hash(o["text"])})
        init = [[p, h] for p, h in sorted(stores[0]["env"].items())]
        return {"op": "c12.run", "mode": mode, "srcs": srcs, "keys": sorted(keys), "init": init, "rows": rows, "ops": ops}

    def compare(self, case, model, impl):
        if "steps" not in model:
            return f"model error: {model}"
        steps = model["steps"]
        for st in impl["stores"]:
            m = steps[st["after"]]
            mstore = {k: [src, h] for k, h, src in m["store"]}
            mclean = {k: [src, h] for k, h, src in m["clean"]}
            inc = {k: v[:2] for k, v in st["inc"].items()}
            fresh = {k: v[:2] for k, v in st["fresh"].items()}
            if mclean != fresh:
                d = sorted(k for k in set(mclean) | set(fresh) if mclean.get(k) != fresh.get(k))
                return f"after {st['after']} ops: model storeOf(env) differs from the fresh project's store at {d[:4]} (parse table not functional?)"
            if mstore != inc:
                d = sorted(k for k in set(mstore) | set(inc) if mstore.get(k) != inc.get(k))
                return (f"after {st['after']} ops: store of the open project differs from the model at {d[:4]}: "
                        f"model {[mstore.get(k) for k in d[:4]]} impl {[inc.get(k) for k in d[:4]]}")
            if not m.get("deliver_clean", True):
                return f"after {st['after']} ops: model delivers a result that is not post(clean store)"
        return None

    # ---- direct oracle ------------------------------------------------------------------
    def known(self):
        if self._known is None:
            self._known = core.load_known(self.id)
        return self._known

    def problems(self, case, impl):
        """[(key, description)] for everything in which the open project departs from the property"""
        out = []
        if impl.get("exc"):
            e = impl["exc"]
            op = case["ops"][e["after"]] if e["after"] < len(case["ops"]) else {"op": "postprocess"}
            cat = category(op["path"]) if "path" in op else "-"
            out.append((f"op-raised:{e['type']}@{e['where']}:{e['op']}-{cat}",
                        f"operation #{e['after']} {e['op']}({op.get('path')}) raised {e['type']}: {e['msg']} at {e['where']} (the update is lost)"))
        if impl.get("alias"):
            out.append(("alias:stored-parse-results-mutated", impl["alias"]))
        if impl.get("repeat"):
            out.append(("repeat:postprocess-not-reproducible", impl["repeat"]))
        for chk in impl["checks"]:
            if shared_outputs(case, chk["after"]):
                # two files define one ref right now: what a clean build shows is not determined by the contents (see
                # shared_outputs), so there is nothing to compare with. Once every ref has one owner again, comparison resumes.
                continue
            flipped = set(o["path"] for o in case["ops"][:chk["after"]] if o["op"] in ("create", "delete"))
            for d in chk["diffs"]:
                where = f"after {chk['after']} ops"
                if d["kind"] == "diagnostics":
                    both = d["stale_or_extra"] + d["missing"]
                    classes = sorted(set(x[0] for x in both))
                    key = "diagnostics:" + ",".join(classes) + (":stale" if d["stale_or_extra"] and not d["missing"] else
                                                                 ":missing" if d["missing"] and not d["stale_or_extra"] else ":both")
                    if classes == ["CannotOpenFile"]:
                        named = set()
                        for x in both:
                            m = re.search(r"<ROOT>/source/(\S+?)(?::|$| )", x[2])
                            named.add(m.group(1) if m else "?")
                        if named and all(nm in flipped and category(nm) in ("page", "include") for nm in named):
                            key = "stale-diagnostic:CannotOpenFile:doc-target-created-or-deleted"
                            if d["file"] == "snooty.toml":
                                # the existence check of a :doc: role inside a [substitutions] value of snooty.toml is made once,
                                # when the project is opened
                                key = "config-substitution:doc-target-created-or-deleted"
                    out.append((key, f"{where}: diagnostics of {d['file']} differ from the clean build: only in open project "
                                     f"{d['stale_or_extra']}, only in clean build {d['missing']}"))
                elif d["kind"] == "metadata":
                    out.append(("metadata:" + ",".join(d["fields"]), f"{where}: metadata fields {d['fields']} differ from the clean build"))
                else:
                    gen = "/extracts/" in d["file"] or "/steps/" in d["file"] or "/release/" in d["file"]
                    out.append((f"{d['kind']}:{'yaml-generated' if gen else category(d['file'])}",
                                f"{where}: {d['kind']} {d['file']} (open project vs clean build)"))
            if chk["diffs"]:
                break
        return out

    def oracle(self, case, impl):
        probs = self.problems(case, impl)
        if not probs:
            return None
        known = self.known()
        for k, d in probs:
            if k not in known:
                return f"[{k}] {d}"
        k, d = probs[0]
        return f"[{k}] {d}"

    def finding_key(self, case, impl, desc):
        m = re.match(r"\[([^\]]+)\]", desc)
        return m.group(1) if m else desc

    # ---- hypotheses ---------------------------------------------------------------------
    def static_obligations(self):
        out = []
        # the model of the code BEFORE the fix reproduces defect D13 on the corpus witness (theorem converge_refuted),
        # the model of the fixed code converges on it
        req = {"op": "c12.run", "srcs": ["includes/extracts-a.yaml", "index.txt"], "keys": ["includes/extracts/bar.rst", "includes/extracts/foo.rst", "index.txt"],
               "init": [["includes/extracts-a.yaml", "y1"], ["index.txt", "i1"]],
               "rows": [{"p": "includes/extracts-a.yaml", "conds": [["includes/extracts-a.yaml", "y1"]],
                         "out": [["includes/extracts/bar.rst", "b"], ["includes/extracts/foo.rst", "f"]], "rec": []},
                        {"p": "includes/extracts-a.yaml", "conds": [["includes/extracts-a.yaml", "y2"]],
                         "out": [["includes/extracts/foo.rst", "f"]], "rec": []},
                        {"p": "index.txt", "conds": [["index.txt", "i1"]], "out": [["index.txt", "x"]], "rec": []}],
               "ops": [{"k": "update", "p": "includes/extracts-a.yaml", "c": "y2"}, {"k": "delete", "p": "includes/extracts-a.yaml"}]}
        try:
            a = core.run_driver([dict(req, mode="aswritten"), dict(req, mode="fixed")])
            stale = [[len(s["store"]), len(s["clean"])] for s in a[0]["steps"]]
            good = [[len(s["store"]), len(s["clean"])] for s in a[1]["steps"]]
            out.append(("model of the unfixed update/delete keeps the generated pages of a shrunk / deleted YAML file (D13), model of the fixed code drops them",
                        stale == [[3, 3], [3, 2], [3, 1]] and good == [[3, 3], [2, 2], [1, 1]], f"aswritten {stale} fixed {good}"))
        except core.Infra as e:
            out.append(("driver c12.run", False, str(e)))
        return out

    # ---- evidence -----------------------------------------------------------------------
    def nontrivial_key(self, case, impl):
        if impl.get("exc") or not impl["checks"]:
            return None
        if not any(o["op"] not in ("postprocess", "build") for o in case["ops"]):
            return None
        return self.ckey(case)

    def branch_tags(self, case, model, impl):
        tags = ["kind:" + case.get("kind", "e2e"), "mode:" + case.get("mode", "disk")]
        for o in case["ops"]:
            if o["op"] in ("postprocess", "build"):
                tags.append("op:" + o["op"])
            else:
                tags.append(f"op:{o['op']}-{category(o['path'])}" + ("-buffer" if o.get("via") == "buffer" else ""))
        tags.append(f"checks:{len(impl['checks'])}")
        if any(shared_outputs(case, k) for k in range(len(case["ops"]) + 1)):
            tags.append("history:one-ref-in-two-files-for-a-while")
        if any(shared_outputs(case, chk["after"]) for chk in impl["checks"]):
            tags.append("comparison-skipped:one-ref-in-two-files")
        if impl.get("exc"):
            tags.append("raised:" + impl["exc"]["type"])
        if impl.get("open_raised"):
            tags.append("skipped:initial-build-raised")
        for k, _ in self.problems(case, impl):
            tags.append("problem:" + k)
        return tags

    def sample(self, case, impl):
        return {"ops": [{k: (v if k != "text" or not isinstance(v, str) else v[:80]) for k, v in o.items()} for o in case["ops"]],
                "files": sorted(case["files"]), "checks": impl["checks"][:3], "exc": impl.get("exc")}


PROP = C12()
