"""C09 — anchor ids are unique within each built page."""
import itertools
import json
import re
import sys
import unicodedata

import core
from impl import pp, rst
from snooty import n, util

ALPHABET = ["x", "x-1", "x-2", "x-1-1", "X", "x 1"]
HTML_WS = set("\t\n\x0c\r ")


def heading_id(title: str) -> str:
    # the parser's glue (parser.py: title branch), through the real sanitiser
    return util.make_html5_id(title.strip()).lower()


def build_nodes(kind, items):
    """items: list of [type, name]; returns list of top-level nodes"""
    out = []
    for i, (ty, name) in enumerate(items):
        if ty == "h":
            out.append(pp.heading(heading_id(name), name, i))
        elif ty == "c":
            hid = util.make_html5_id(name).lower()
            out.append(n.Directive((i,), [n.Section((i,), [])], "mongodb", "collapsible", [], {"heading": name, "id": hid}))
        elif ty == "t":
            out.append(n.Target((i,), [n.TargetIdentifier((i,), [], [name])], "std", "label", None, None))
        elif ty == "f":
            out.append(n.Paragraph((i,), [n.FootnoteReference((i,), [], "id1", name or None)]))
    return out


def collect(ast):
    hs, ts, fs = [], [], []
    for node in pp.walk(ast):
        if isinstance(node, n.Heading):
            hs.append(node.id)
        elif isinstance(node, n.Directive) and node.name == "collapsible":
            hs.append(node.options.get("id", ""))
        elif isinstance(node, n.Target):
            if node.html_id is not None:
                ts.append(node.html_id)
        elif isinstance(node, n.FootnoteReference):
            fs.append(node.id)
    return hs, ts, fs


def collect_emitted(doc):
    """the same three id lists, read off the page AS EMITTED (Node.serialize()): everything a consumer of the page gets, the page-level
    options (the on-page table of contents built by `contents`) included"""
    hs, ts, fs = [], [], []

    def go(x):
        if isinstance(x, dict):
            t = x.get("type")
            if t == "heading":
                hs.append(x.get("id"))
            elif t == "directive" and x.get("name") == "collapsible":
                hs.append((x.get("options") or {}).get("id", ""))
            elif t in ("target", "inline_target") and x.get("html_id") is not None:
                ts.append(x["html_id"])
            elif t == "footnote_reference":
                fs.append(x.get("id"))
            for v in x.values():
                go(v)
        elif isinstance(x, list):
            for v in x:
                go(v)
    go(doc)
    return hs, ts, fs


ID_BEARING = ["_`thing`", "[#]_", "_`gadget`", "[#]_", "plain", "*em*", ":ref:`lab`"]


def rich_text(case):
    """a page whose directive arguments / glossary terms / headings hold inline nodes that carry ids (inline targets, footnote
    references): the parser and the postprocessor make COPIES of such titles (a step's heading, a term's target name, the on-page
    table of contents), and a copy must not repeat an id"""
    lines = ["Title", "=====", "", ".. _lab:", "", "Intro", "-----", "", "Text.", ""]
    if case.get("contents"):
        lines += [".. contents::", ""]
    for i, sec in enumerate(case["secs"]):
        title = f"Sec{i} " + " ".join(sec["title"])
        lines += [title, "~" * (len(title) + 2), "", "Body.", ""]
        if sec["kind"] == "steps":
            lines += [".. procedure::", ""]
            for j, st in enumerate(sec["items"]):
                lines += [f"   .. step:: Step{i}{j} " + " ".join(st), "", "      Do it.", ""]
        elif sec["kind"] == "glossary":
            lines += [".. glossary::", ""]
            for j, st in enumerate(sec["items"]):
                lines += [f"   term{i}{j} " + " ".join(st), "     A thing.", ""]
        elif sec["kind"] == "admonition":
            for j, st in enumerate(sec["items"]):
                lines += [f".. note:: Note{i}{j} " + " ".join(st), "", "   Content.", ""]
    lines += [".. [#] a note", ""]
    return "\n".join(lines) + "\n"


class C09(core.PropertyCheck):
    id = "C09"
    quick_budget = 1500
    thorough_budget = 20000
    rule = ("exhaustive: every sequence of <=5 names from {x,x-1,x-2,x-1-1,X,'x 1'} as headings, as labels, as footnote refs "
            "(synthetic pages through the real Postprocessor); random: headings+collapsibles+labels mixed, spread over up to 3 include files "
            "and 2 pages (page order exposes missing per-page reset); text: rst pages through parse_rst + Postprocessor; repl: an include whose "
            "`replacement` bodies carry labels / footnote references, referenced several times (block and inline) by the included file. "
            "non-trivial = at least two items sharing a base id or colliding with a generated suffix; distinct by case content")
    assumptions = [
        "Python's \\w / str.lower / str.strip are parameters of the model; the hypotheses the theorems need are checked over all 1,114,112 code points on every run",
        "set membership and f-string formatting of ints behave as Lean's List membership and Nat.repr",
    ]

    def static_obligations(self):
        pat = util.PAT_INVALID_ID_CHARACTERS
        bad_w, bad_lower = [], []
        for cp in range(sys.maxunicode + 1):
            if 0xD800 <= cp <= 0xDFFF:
                continue
            ch = chr(cp)
            valid = pat.sub("-", ch) == ch
            if valid and (ch.isspace() or ch in HTML_WS):
                bad_w.append(cp)
            if not ch.isspace():
                lo = ch.lower()
                if lo == "" or any(c.isspace() for c in lo):
                    bad_lower.append(cp)
        return [
            ("hd: no character kept by make_html5_id is whitespace (all code points)", not bad_w, str(bad_w[:5])),
            ("lower() of a non-space character is non-empty and holds no whitespace (all code points)", not bad_lower, str(bad_lower[:5])),
            ("hW: the letters of 'unnamed' are kept by make_html5_id", pat.sub("-", "unnamed") == "unnamed", ""),
        ]

    # ---- cases ----
    def generate(self, rng, budget, tier):
        if tier != "search":
            for kind, ty in (("headings", "h"), ("targets", "t"), ("footnotes", "f")):
                for k in range(0, 6):
                    for seq in itertools.product(ALPHABET, repeat=k):
                        yield {"kind": "seq", "pages": [{"items": [[ty, s] for s in seq], "inc": []}]}
        names = ALPHABET + ["y", "Y-1", "x.1", "é", "x_1", " x", "x\t1", "", "x--1", "-1", "x-10", "x-1-2"]
        for _ in range(budget):
            pages = []
            for _p in range(rng.choice([1, 1, 2, 3])):
                nitems = rng.randint(2, 8)
                pool = rng.sample(names, rng.randint(1, 4))
                items = [[rng.choice("hhctf"), rng.choice(pool)] for _ in range(nitems)]
                # an empty :heading: makes an unrelated handler raise (C02 finding), keep C09 about ids
                items = [[ty, nm or "z"] if ty == "c" else [ty, nm] for ty, nm in items]
                # which items live in include files (index of include 0..2, or -1 for the page itself)
                inc = [rng.choice([-1, -1, 0, 1, 2]) for _ in items]
                pages.append({"items": items, "inc": inc, "dup": rng.random() < 0.35})
            yield {"kind": "rand", "pages": pages}
        for _ in range(budget // 10):
            # include parameters: `replacement` bodies that carry ids (labels, footnote references), referenced several times -
            # as a block of their own and inline - by the included file; the same label may also sit on the page itself
            reps = []
            for nm in rng.sample(["caveat", "extra", "third"], rng.randint(1, 2)):
                body = [rng.choice(["label", "label", "footref", "both", "plain"]) for _ in range(rng.randint(1, 2))]
                reps.append({"name": nm, "body": body, "label": rng.choice(["rep-a", "rep-a", "rep-b"])})
            uses = [[rng.choice([r["name"] for r in reps]), rng.choice(["block", "block", "inline"])] for _ in range(rng.randint(1, 4))]
            yield {"kind": "repl", "reps": reps, "uses": uses, "page_label": rng.choice([None, "rep-a", "rep-b"]),
                   "page_footrefs": rng.randint(0, 2), "twice": rng.random() < 0.3}
        for _ in range(budget // 8):
            # headings that carry id-bearing inline nodes (footnote references, inline targets), with and without a label in front,
            # and references to those labels from the page itself and from another page: every copy of such a title that ends up in
            # built output (the label's title, the text of a link) must not repeat an id
            secs = []
            for k in range(rng.randint(1, 3)):
                parts = [rng.choice(["txt", "txt", "foot", "itgt", "foot", "itgt"]) for _ in range(rng.randint(1, 3))]
                secs.append({"label": rng.choice([None, f"lab{k}", f"lab{k}"]), "parts": parts})
            labels = [s_["label"] for s_ in secs if s_["label"]]
            # collapsible sections as the parser builds them: with a heading (repeated headings collide), or - a mistake that is
            # reported but still emitted - without one
            colls = [rng.choice([None, None, "More", "More", "Sec0 Part0"]) for _ in range(rng.choice([0, 0, 1, 2, 3]))]
            yield {"kind": "titled", "secs": secs, "colls": colls, "refs": [rng.choice(labels) for _ in range(rng.randint(0, 2))] if labels else [],
                   "other_refs": [rng.choice(labels) for _ in range(rng.randint(0, 2))] if labels else [], "other_footrefs": rng.randint(0, 2)}
        for _ in range(budget // 6):
            secs = []
            for k in range(rng.randint(1, 3)):
                secs.append({"kind": rng.choice(["steps", "glossary", "admonition", "plain"]),
                             "title": [rng.choice(ID_BEARING) for _ in range(rng.randint(0, 2))],
                             "items": [[rng.choice(ID_BEARING) for _ in range(rng.randint(0, 2))] for _ in range(rng.randint(1, 2))]})
            yield {"kind": "rich", "secs": secs, "contents": rng.random() < 0.5}
        for _ in range(budget // 5):
            tnames = [x for x in names if x.strip() and "\t" not in x and not x.startswith("-")]
            titles = [rng.choice(tnames) for _ in range(rng.randint(2, 6))]
            yield {"kind": "text", "titles": titles, "labels": [rng.choice(["a", "a", "b", "a-1"]) for _ in range(rng.randint(0, 4))]}

    def shrink_candidates(self, case):
        if case["kind"] == "giza":
            for i in range(len(case["titles"])):
                if len(case["titles"]) > 1:
                    yield {**case, "titles": case["titles"][:i] + case["titles"][i + 1:]}
            return
        if case["kind"] == "rich":
            secs = case["secs"]
            for i in range(len(secs)):
                if len(secs) > 1:
                    yield {**case, "secs": secs[:i] + secs[i + 1:]}
            if case["contents"]:
                yield {**case, "contents": False}
            for i, sec in enumerate(secs):
                if sec["title"]:
                    yield {**case, "secs": secs[:i] + [{**sec, "title": sec["title"][1:]}] + secs[i + 1:]}
                if sec["kind"] != "plain":
                    yield {**case, "secs": secs[:i] + [{**sec, "kind": "plain"}] + secs[i + 1:]}
                for j, it in enumerate(sec["items"]):
                    if len(sec["items"]) > 1:
                        yield {**case, "secs": secs[:i] + [{**sec, "items": sec["items"][:j] + sec["items"][j + 1:]}] + secs[i + 1:]}
                    if it:
                        yield {**case, "secs": secs[:i] + [{**sec, "items": sec["items"][:j] + [it[1:]] + sec["items"][j + 1:]}] + secs[i + 1:]}
            return
        if case["kind"] == "titled":
            for i in range(len(case["secs"])):
                if len(case["secs"]) > 1:
                    keep = case["secs"][:i] + case["secs"][i + 1:]
                    labs = {x["label"] for x in keep}
                    yield {**case, "secs": keep, "refs": [r for r in case["refs"] if r in labs], "other_refs": [r for r in case["other_refs"] if r in labs]}
            for i in range(len(case.get("colls", []))):
                yield {**case, "colls": case["colls"][:i] + case["colls"][i + 1:]}
            for key in ("refs", "other_refs"):
                for i in range(len(case[key])):
                    yield {**case, key: case[key][:i] + case[key][i + 1:]}
            if case["other_footrefs"]:
                yield {**case, "other_footrefs": 0}
            return
        if case["kind"] == "repl":
            for i in range(len(case["uses"])):
                yield {**case, "uses": case["uses"][:i] + case["uses"][i + 1:]}
            for i in range(len(case["reps"])):
                if len(case["reps"]) > 1:
                    keep = case["reps"][:i] + case["reps"][i + 1:]
                    yield {**case, "reps": keep, "uses": [u for u in case["uses"] if u[0] in {r["name"] for r in keep}]}
            if case.get("page_label"):
                yield {**case, "page_label": None}
            if case.get("page_footrefs"):
                yield {**case, "page_footrefs": 0}
            if case.get("twice"):
                yield {**case, "twice": False}
            return
        if case["kind"] == "text":
            for i in range(len(case["titles"])):
                yield {**case, "titles": case["titles"][:i] + case["titles"][i + 1:]}
            for i in range(len(case["labels"])):
                yield {**case, "labels": case["labels"][:i] + case["labels"][i + 1:]}
            return
        pages = case["pages"]
        for pi in range(len(pages)):
            if len(pages) > 1:
                yield {**case, "pages": pages[:pi] + pages[pi + 1:]}
            its, inc = pages[pi]["items"], pages[pi]["inc"]
            for i in range(len(its)):
                np_ = {**pages[pi], "items": its[:i] + its[i + 1:], "inc": (inc[:i] + inc[i + 1:]) if inc else []}
                yield {**case, "pages": pages[:pi] + [np_] + pages[pi + 1:]}
            if inc and any(x >= 0 for x in inc):
                yield {**case, "pages": pages[:pi] + [{"items": its, "inc": [-1] * len(its), "dup": False}] + pages[pi + 1:]}

    # ---- implementation ----
    def build_pages(self, case):
        """returns (pages, [fileid of each page])"""
        if case["kind"] == "repl":
            idx = ["Guide", "=====", ""]
            idx += ["Intro" + "".join(" [#]_" for _ in range(case["page_footrefs"])) + ".", ""]
            if case.get("page_label"):
                idx += [f".. _{case['page_label']}:", "", "Labelled paragraph on the page.", ""]
            for _rep in range(2 if case.get("twice") else 1):
                idx += [".. include:: /includes/steps.rst", ""]
                for r in case["reps"]:
                    idx += [f"   .. replacement:: {r['name']}", ""]
                    for b in r["body"]:
                        if b in ("label", "both"):
                            idx += [f"      .. _{r['label']}:", ""]
                        idx += ["      Mind the " + r["name"] + (" [#]_" if b in ("footref", "both") else "") + " here.", ""]
            idx += ["Outro.", ""] + [f".. [#] note {i}" for i in range(12)] + [""]
            inc = ["Shared steps.", ""]
            for nm, how in case["uses"]:
                inc += ([f"|{nm}|", ""] if how == "block" else [f"Inline use of |{nm}| in a sentence.", ""])
            p1, _ = rst.parse("\n".join(idx) + "\n", "index.txt")
            p2, _ = rst.parse("\n".join(inc) + "\n", "includes/steps.rst")
            return [p1, p2], ["index.txt"]
        if case["kind"] == "titled":
            lines = ["Top", "===", "", "Intro.", ""]
            nt = 0
            for k, sec in enumerate(case["secs"]):
                if sec["label"]:
                    lines += [f".. _{sec['label']}:", ""]
                words = []
                for part in sec["parts"]:
                    if part == "txt":
                        words.append(f"Part{k}")
                    elif part == "foot":
                        words.append("note [#]_")
                    else:
                        nt += 1
                        words.append(f"_`tgt {nt}`")
                title = f"Sec{k} " + " ".join(words)
                lines += [title, "-" * (len(title) + 2), "", "Body.", ""]
            for h in case.get("colls", []):
                lines += [".. collapsible::"] + ([f"   :heading: {h}"] if h else []) + ["", "   Hidden text.", ""]
            for r in case["refs"]:
                lines += [f"See :ref:`{r}` here.", ""]
            lines += [f".. [#] note {i}" for i in range(12)] + [""]
            other = ["Other", "=====", "", "Own note" + "".join(" [#]_" for _ in range(case["other_footrefs"])) + ".", ""]
            for r in case["other_refs"]:
                other += [f"Elsewhere :ref:`{r}`.", ""]
            other += [f".. [#] other note {i}" for i in range(4)] + [""]
            p1, _ = rst.parse("\n".join(lines) + "\n", "index.txt")
            p2, _ = rst.parse("\n".join(other) + "\n", "other.txt")
            return [p1, p2], ["index.txt", "other.txt"]
        if case["kind"] == "text":
            lines = []
            for i, t in enumerate(case["titles"]):
                t = t.strip() or "z"
                lines += [t, "=" * max(3, len(t) + 2) if i == 0 else "-" * max(3, len(t) + 2), ""]
                if i < len(case["labels"]):
                    lines += [f".. _{case['labels'][i]}:", "", "para", ""]
            page, _ = rst.parse("\n".join(lines) + "\n", "index.txt")
            return [page], ["index.txt"]
        pages, ids = [], []
        for pi, pg in enumerate(case["pages"]):
            items, inc = pg["items"], pg["inc"] or [-1] * len(pg["items"])
            top = []
            groups = []  # consecutive runs by include index
            for it, ix in zip(items, inc):
                if groups and groups[-1][0] == ix:
                    groups[-1][1].append(it)
                else:
                    groups.append([ix, [it]])
            ninc = 0
            for ix, its in groups:
                if ix < 0:
                    top.extend(build_nodes(None, its))
                else:
                    fid = f"includes/p{pi}-{ninc}.rst"
                    ninc += 1
                    if pg.get("dup"):
                        # the same bounded excerpt of one file, included twice on the page
                        body = [n.Comment((0,), [pp.text("begin-x")])] + build_nodes(None, its) + [n.Comment((0,), [pp.text("end-x")])]
                        pages.append(pp.page(fid, body))
                        for _rep in range(2):
                            top.append(n.Directive((0,), [], "", "include", [pp.text("/" + fid)],
                                                   {"start-after": "begin-x", "end-before": "end-x"}))
                    else:
                        pages.append(pp.page(fid, build_nodes(None, its)))
                        top.append(n.Directive((0,), [], "", "include", [pp.text("/" + fid)], {}))
            name = "index.txt" if pi == 0 else f"page{pi}.txt"
            pages.append(pp.page(name, top))
            ids.append(name)
        return pages, ids

    def run_giza(self, case):
        """a real project: index.txt includes the page generated from a steps YAML file with the given titles"""
        from pathlib import Path
        from snooty.util_test import make_test
        docs = []
        for i, t in enumerate(case["titles"]):
            docs.append(f"title: {json.dumps(t, ensure_ascii=False)}\nref: r{i}\ncontent: |\n  Body {i}.\n")
        files = {Path("snooty.toml"): 'name = "c09"\n',
                 Path("source/index.txt"): "Title\n=====\n\n.. include:: /includes/steps/test.rst\n",
                 Path("source/includes/steps-test.yaml"): "---\n".join(docs) + "...\n"}
        try:
            with make_test(files) as result:
                hs, ts, fs = collect(result.pages[n.FileId("index.txt")].ast)
        except Exception as e:
            return {"exc": type(e).__name__, "msg": str(e)[:200]}
        return {"exc": None, "pages": [{"page": "index.txt", "headings": hs, "targets": ts, "footnotes": fs}],
                "bases": [{"headings": [], "targets": [], "footnotes": 0}]}

    def run_impl(self, case):
        if case["kind"] == "giza":
            return self.run_giza(case)
        if case["kind"] == "rich":
            try:
                page, _ = rst.parse(rich_text(case), "index.txt")
                res = pp.run([page])
                hs, ts, fs = collect_emitted(res.pages[n.FileId("index.txt")].ast.serialize())
            except Exception as e:
                return {"exc": type(e).__name__, "msg": str(e)[:200]}
            return {"exc": None, "pages": [{"page": "index.txt", "headings": hs, "targets": ts, "footnotes": fs}],
                    "bases": [{"headings": [], "targets": [], "footnotes": 0}]}
        pages, ids = self.build_pages(case)
        by = {str(p.fileid): p for p in pages}
        # base ids as the handlers will see them (after include expansion the order is document order)
        try:
            res = pp.run(pages)
        except Exception as e:
            return {"exc": type(e).__name__, "msg": str(e)[:200]}
        out = []
        for fid in ids:
            hs, ts, fs = collect(res.pages[n.FileId(fid)].ast)
            out.append({"page": fid, "headings": hs, "targets": ts, "footnotes": fs})
        return {"exc": None, "pages": out, "bases": self.bases(case)}

    def bases(self, case):
        """base ids per page in document order, computed from the *inputs* (sanitiser = real glue)"""
        if case["kind"] == "titled":
            return [{"headings": [], "targets": [], "footnotes": 0}, {"headings": [], "targets": [], "footnotes": 0}]   # direct oracle only
        if case["kind"] == "repl":
            return [{"headings": [], "targets": [], "footnotes": 0}]   # no model counterpart: the direct oracle (uniqueness) decides
        if case["kind"] == "text":
            hs = [heading_id(t.strip() or "z") for t in case["titles"]]
            ts = ["std-label-" + util.make_html5_id(l) for l in case["labels"][: len(case["titles"])]]
            return [{"headings": hs, "targets": ts, "footnotes": 0}]
        out = []
        for pg in case["pages"]:
            hs, ts, nf = [], [], 0
            for ty, name in expand_dup(pg):
                if ty == "h":
                    hs.append(heading_id(name))
                elif ty == "c":
                    hs.append(util.make_html5_id(name).lower())
                elif ty == "t":
                    ts.append("std-label-" + util.make_html5_id(name))
                else:
                    nf += 1
            out.append({"headings": hs, "targets": ts, "footnotes": nf})
        return out

    # ---- model ----
    def model_request(self, case):
        if case["kind"] in ("repl", "titled", "giza", "rich"):
            return None
        b = self.bases(case)
        words = sorted({c for pg in b for s in pg["headings"] + pg["targets"] for c in s})
        raw = []
        if case["kind"] != "text":
            for pg in case["pages"]:
                for ty, name in pg["items"]:
                    if ty in "ct":
                        raw.append(name)
        chars = sorted({c for s in raw for c in s})
        return {"op": "c09.page", "pages": b, "raw": raw,
                "wordchars": "".join(c for c in chars if util.PAT_INVALID_ID_CHARACTERS.sub("-", c) == c and c not in "_.-")}

    def compare(self, case, model, impl):
        if impl["exc"]:
            return f"implementation raised {impl['exc']}"
        want = model["pages"]
        got = [{"headings": p["headings"], "targets": p["targets"], "footnotes": p["footnotes"]} for p in impl["pages"]]
        if want != got:
            return f"ids differ: model {want} impl {got}"
        raw_impl = [util.make_html5_id(r) for r in model_raw(case)]
        if model.get("html5") != raw_impl:
            return f"make_html5_id differs: model {model.get('html5')} impl {raw_impl}"
        return None

    # ---- direct oracle (the property itself) ----
    def oracle(self, case, impl):
        if impl["exc"]:
            return None  # totality is C02's business
        for p, b in zip(impl["pages"], impl["bases"]):
            for cat in ("headings", "targets", "footnotes"):
                ids = p[cat]
                if len(set(ids)) != len(ids):
                    return f"duplicate {cat} ids on {p['page']}: {ids}"
                for i in ids:
                    if not i or any(c in HTML_WS or c.isspace() for c in i):
                        return f"invalid id {i!r} in {cat} on {p['page']}"
            for cat in ("headings", "targets"):
                seen = set()
                if len(b[cat]) == len(p[cat]):
                    for base, got in zip(b[cat], p[cat]):
                        if base not in seen and got != base:
                            return f"first occurrence of {base!r} in {cat} got {got!r} on {p['page']}: {p[cat]}"
                        seen.add(base)
        return None

    def extra_checks(self, tier, rng):
        """headings generated from giza YAML (steps): titles without any ASCII letter, titles starting with digits, repeated
        titles - through a real Project build (which starts its own process pool, so these run here and not in the case pool)"""
        pool = ["123", "2024", "???", "日本語", "2.0 release", "Intro", "intro", "Step one", "1", "é"]
        viol, n_ = [], 0
        for _ in range(8 if tier == "quick" else 60):
            case = {"kind": "giza", "titles": [rng.choice(pool) for _ in range(rng.randint(1, 4))]}
            impl = self.run_giza(case)
            n_ += 1
            if impl["exc"]:
                continue   # totality is C02's / C18's business
            d = self.oracle(case, impl)
            if d:
                viol.append({"case": case, "impl": impl, "desc": d, "key": self.finding_key(case, impl, d)})
                break
        return viol, {"giza_heading_projects": n_}

    def finding_key(self, case, impl, desc):
        return re.sub(r" on .*", "", desc).split(":")[0]

    def nontrivial_key(self, case, impl):
        if impl.get("exc"):
            return None
        if case["kind"] in ("repl", "rich"):
            pg = impl["pages"][0]
            return core.json.dumps(case, sort_keys=True) if (len(pg["targets"]) >= 2 or len(pg["footnotes"]) >= 2) else None
        for b in impl["bases"]:
            for cat in ("headings", "targets"):
                xs = b[cat]
                if len(set(xs)) != len(xs) or any(re.search(r"-\d+$", x) for x in xs):
                    return core.json.dumps(case, sort_keys=True)
            if b["footnotes"] >= 2:
                return core.json.dumps(case, sort_keys=True)
        return None

    def branch_tags(self, case, model, impl):
        tags = [case["kind"]]
        if impl.get("exc"):
            tags.append("exc:" + impl["exc"])
            return tags
        for p, b in zip(impl["pages"], impl["bases"]):
            for cat in ("headings", "targets"):
                if any(g != base for g, base in zip(p[cat], b[cat])):
                    tags.append(f"suffixed:{cat}")
                if any(re.search(r"-[2-9]$", g) and g != base for g, base in zip(p[cat], b[cat])):
                    tags.append(f"suffix>=2:{cat}")
        if case["kind"] == "repl":
            blocks = sum(1 for _, how in case["uses"] if how == "block")
            tags.append("repl:block-uses>=2" if blocks >= 2 else "repl:block-uses<2")
            if len(impl["pages"][0]["targets"]) >= 2:
                tags.append("repl:targets>=2")
            if len(impl["pages"][0]["footnotes"]) >= 2:
                tags.append("repl:footrefs>=2")
        if case["kind"] == "rand" and any(x >= 0 for pg in case["pages"] for x in pg["inc"]):
            tags.append("via-include")
        return tags


def expand_dup(pg):
    """items in document order after include expansion (a duplicated bounded include repeats its run)"""
    items, inc = pg["items"], pg.get("inc") or [-1] * len(pg["items"])
    if not pg.get("dup"):
        return list(items)
    out, run, cur = [], [], None
    for it, ix in list(zip(items, inc)) + [(None, None)]:
        if ix != cur and run:
            out.extend(run if cur is None or cur < 0 else run + run)
            run = []
        cur = ix
        if it is not None:
            run.append(it)
    return out


def model_raw(case):
    raw = []
    if case["kind"] not in ("text", "repl"):
        for pg in case["pages"]:
            for ty, name in pg["items"]:
                if ty in "ct":
                    raw.append(name)
    return raw


PROP = C09()
