"""C15 — the intersphinx inventory round-trips and matches the build."""
import functools
import json
import re
import sys
import zlib

import core
from impl import pp
from snooty import intersphinx, n
from snooty.intersphinx import Inventory, TargetDefinition
from snooty.target_database import TargetDatabase
import urllib.parse

# the aliasing documented in Inventory.parse (the oracle's own copy: an edit of the table in the code
# is a change of the documented behaviour and must be noticed)
ALIASES = {
    "std:cmdoption": "std:option",
    "std:doc": "std:ext-doc",
    "py:attribute": "py:attr",
    "py:exception": "py:exc",
    "py:function": "py:func",
    "py:method": "py:meth",
    "py:module": "py:mod",
}
HEADER = "# Sphinx inventory version 2\n# Project: {}\n# Version: {}\n# The remainder of this file is compressed using zlib.\n"
BASE = "https://example.com/docs/"
MAXQ = 24
RE_S = re.compile(r"\s")
RE_D = re.compile(r"\d")
RE_DOT = re.compile(r".")

LETTERS = list("abcxyzABZ") + ["é", "ü", "λ", "Ж", "中", "ß"]
WORDCH = LETTERS + list("..--$$_019")
INNER_WS = [" "] * 12 + ["  ", "\t", " ", " ", " \t "]
ROLES = [("std", "label")] * 6 + [("std", "option"), ("std", "doc"), ("std", "cmdoption"), ("std", "term"), ("py", "method"),
         ("py", "function"), ("py", "module"), ("py", "attribute"), ("py", "exception"), ("py", "class"), ("py", "data"),
         ("mongodb", "setting"), ("mongodb", "dbcommand"), ("std", "lab:el"), ("std", ""), ("", "x"), ("é", "rôle")]
# only .txt files are pages for the postprocessor; the .rst one is there to be ignored
FILEIDS = ["index.txt", "a.txt", "b.txt", "ref/index.txt", "ref/x.y.txt", "ref/deep/er/page.txt", "é/pägé.txt", "ref/c.txt",
           "tutorial/index.txt", "d.txt", "ref/e.txt.txt", "ref/r.rst", "index/index.txt"]
COLLIDING = ["a b", "a-b", "a$b", "a.b", "A b", "a_b", "x", "é x", "prog.--opt", "--opt", "-o", "-O", "Ünicode", "ünicode", "X"]


COLONED = ["faq:sharding", "MongoDB\\Client::listDatabases()", "faq: sharding", "a:b", "x::y:z", ":lead"]


def is_space(c):
    return RE_S.match(c) is not None


# ---- the property's alphabet, in Python (mirror of Lean `wfEntry`, compared with it on every entry) ----
def edge_ok(s):
    return not s or (not s[0].isspace() and not s[-1].isspace())


def wf_entry(e):
    nm, d, r, ub, disp = e["name"], e["domain"], e["role"], e["uri_base"], e["display"]
    if not nm or "\n" in nm or ":" in nm or not edge_ok(nm):
        return False
    if any(c.isspace() for c in d) or ":" in d:
        return False
    if any(c.isspace() for c in r) or any(c.isspace() for c in ub):
        return False
    if disp is not None and (disp == "" or disp == "-" or "\n" in disp or not edge_ok(disp)):
        return False
    return True


def expected_entry(e):
    """what a reader must get back for a written entry: documented aliasing and '$' expansion only"""
    dr = f"{e['domain']}:{e['role']}"
    dr = ALIASES.get(dr, dr)
    d2, r2 = dr.split(":", 1)
    ub = e["uri_base"]
    uri = ub[:-1] + e["name"] if ub.endswith("$") else ub
    return {"key": f"{dr}:{e['name']}", "name": e["name"], "domain": d2, "role": r2, "prio": e["prio"],
            "uri_base": ub, "uri": uri, "display": e["display"]}


def td_to_json(key, t):
    return {"key": key, "name": t.name, "domain": t.role[0], "role": t.role[1], "prio": t.priority,
            "uri_base": t.uri_base, "uri": t.uri, "display": t.display_name}


def json_to_td(e):
    return TargetDefinition(e["name"], (e["domain"], e["role"]), e["prio"], e["uri_base"], e["uri"], e["display"])


def dirhtml_py(fileid):
    """the dirhtml convention, stated independently of FileId.as_dirhtml"""
    if fileid == "index.txt":
        return ""
    return re.sub(r"\.(txt|rst|yaml|ast)$", "", fileid) + "/"


def kept_entries(case):
    """the dict Inventory holds for an `inv` case: a repeated key keeps its first position and its last value"""
    es = list({e["key"]: e for e in case["entries"]}.values())
    pos = {}
    for e in case["entries"]:
        pos.setdefault(e["key"], len(pos))
    es.sort(key=lambda e: pos[e["key"]])
    return es


def case_variants(key):
    out = []
    for v in (key.lower(), key.upper(), key.swapcase(), key.replace(" ", "  ", 1), key.replace(" ", "\t ", 1)):
        if v != key and v not in out:
            out.append(v)
    return out


def queries_for(keys):
    """raw keys a consuming project looks up: the written (canonical) keys themselves, then spelling variants of them"""
    keys = list(dict.fromkeys(keys))[:MAXQ]
    qs = list(keys)
    for k in keys:
        for v in case_variants(k):
            if v not in qs and len(qs) < 3 * MAXQ:
                qs.append(v)
    return qs


def inv_queries(kept):
    return queries_for([expected_entry(e)["key"] for e in kept])


def defs_queries(defs):
    keys = []
    for kd in defs:
        if kd["defs"] and kd["key"].count(":") >= 2:
            d, r, _ = kd["key"].split(":", 2)
            keys.append(f"{ALIASES.get(d + ':' + r, d + ':' + r)}:{kd['defs'][0]['canonical']}")
    return queries_for(keys)


def lower_of_normalised(q):
    return re.sub(r"\s+", " ", q).lower()


BASE2 = "https://other.example.org/docs/"  # same path as BASE: relative URIs (also `..`) join alike


def rebase_diff(data, back, queries, resolved):
    """the same bytes read under another base URL (two versions of one manual publish byte-identical inventories): each
    reading belongs to the URL it was read under, and neither changes the other"""
    other = Inventory.parse(BASE2, data)
    if back.base_url != BASE or other.base_url != BASE2:
        return f"base_url of the parsed inventories: {back.base_url!r} / {other.base_url!r}, read under {BASE!r} / {BASE2!r}"
    if other.targets != back.targets or other.targets is back.targets:
        return "the same bytes read under two base URLs give different (or shared) target tables"
    got = consume(other, queries)
    want = json.loads(json.dumps(resolved).replace("https://example.com/", "https://other.example.org/"))
    if got != want:
        i = next(i for i, (g, w) in enumerate(zip(got, want)) if g != w)
        return f"{queries[i]!r} read under {BASE2!r} resolves to {got[i]}, under {BASE!r} to {resolved[i]}"
    again = consume(Inventory.parse(BASE, data), queries)
    if again != resolved:
        return f"reading the inventory under {BASE!r} a second time resolves differently"
    return fetch_diff(data)


FETCH_URL = "https://Docs.Example.org/Manual/V1.0/objects.inv"


def fetch_diff(data):
    """the loader a consuming project uses (`fetch_inventory`, the HTTP cache replaced by a stub that serves exactly FETCH_URL): the
    inventory is asked for under the URL as configured, and its entries belong to the directory of that URL - capitals and all"""
    from snooty import intersphinx
    asked = []

    class Stub:
        def __init__(self, *a, **k):
            pass

        def get(self, url, *a, **k):
            asked.append(url)
            if url != FETCH_URL:
                raise OSError(f"404 for {url}")
            return data

    orig = intersphinx.HTTPCache
    intersphinx.HTTPCache = Stub
    try:
        inv = intersphinx.fetch_inventory(FETCH_URL, None)
    except Exception as e:
        return f"fetching {FETCH_URL!r} (served under exactly that URL) raised {type(e).__name__}; requested {asked}"
    finally:
        intersphinx.HTTPCache = orig
    want = FETCH_URL.rsplit("/", 1)[0] + "/"
    if inv.base_url != want:
        return f"an inventory fetched from {FETCH_URL!r} is joined to {inv.base_url!r}, not to {want!r}"
    return None


def consume(back, queries):
    """what another project's TargetDatabase answers for each key once it has loaded the inventory"""
    db = TargetDatabase(intersphinx_inventories={"exported": back})
    out = []
    for q in queries:
        try:
            rs = db[q]
        except Exception as e:
            out.append({"exc": type(e).__name__})
            continue
        out.append({"n": len(rs), "hits": [{"name": r.canonical_target_name, "url": getattr(r, "url", None)}
                                           for r in rs[:2]]})
    return out


def classes_for(texts):
    chars = sorted({c for t in texts for c in t} | set(" \n:-0123456789"))
    space = "".join(c for c in chars if RE_S.match(c))
    digits = [[c, int(c)] for c in chars if RE_D.match(c)]
    return space, digits


def inline(rng, title):
    """title text -> inline nodes (with markup) whose concatenated text is `title`"""
    if not title:
        return []
    cut = sorted(rng.sample(range(len(title) + 1), min(2, len(title) + 1)))
    parts = [title[: cut[0]], title[cut[0]: cut[-1]], title[cut[-1]:]]
    out = []
    for i, p in enumerate(parts):
        if not p:
            continue
        if i == 1:
            out.append(rng.choice([n.Emphasis, n.Strong, n.Literal])((0,), [n.Text((0,), p)]))
        else:
            out.append(n.Text((0,), p))
    return out


def title_nodes(spec):
    """[[kind, text]…] -> nodes (kind: t text, e emphasis, s strong, l literal)"""
    out = []
    for k, t in spec:
        if k == "t":
            out.append(n.Text((0,), t))
        elif k == "r":
            # a role written without text of its own (``:ref:`reftarget```): its text is the title of what it refers to, filled
            # in by the last pass of the postprocessor
            out.append(n.RefRole((0,), [], "std", "label", t, "", None, None))
        else:
            out.append({"e": n.Emphasis, "s": n.Strong, "l": n.Literal}[k]((0,), [n.Text((0,), t)]))
    return out


def title_text(spec):
    return "".join(t for k, t in spec if k != "r")


class C15(core.PropertyCheck):
    id = "C15"
    quick_budget = 2500
    thorough_budget = 12000
    rule = ("random inventories (1..200 entries; names of 1-4 words over letters incl. non-ASCII, '.', '-', '$', '_', digits, joined by "
            "space / double space / tab / NBSP / EM SPACE; 23 roles incl. every aliased one, empty domain/role, role with ':'; priorities "
            "-1,0,small,10^6,10^20 both signs; uri_base empty, '$'-abbreviated or plain; display None or words, never '-') through the real "
            "Inventory.dumps/parse with real zlib; a malformed stream (names with ':', edge whitespace, newline, display '-' / '' / padded, "
            "uri with space, newline in project name); raw payload lines (token soup + near-misses of valid lines, non-ASCII digits and "
            "whitespace) through Inventory.parse; FileId.as_dirhtml on relative paths; synthetic projects (1-4 pages in nested dirs, labels / "
            "rstobject targets with id collisions after make_html5_id, headings, titles with inline markup) through the real Postprocessor "
            "-> generate_inventory -> dumps -> parse; in both streams about half the cases hold same-role names differing only in letter "
            "case, and every written key (first 24) plus its lower/upper/swapcase/whitespace-run variants is looked up through a fresh "
            "TargetDatabase that loaded the parsed inventory (model: resolveIn). non-trivial = inventory with >= 2 entries one of which has inner whitespace or '$' or "
            "an aliased role / a raw line that matches / a project with >= 2 targets; distinct by case content")
    assumptions = [
        "Python's \\s (= str.isspace = what strip/rstrip remove), \\d and int() per digit are parameters of the model; the hypotheses PyReOk "
        "needs, and the disjointness facts that make the regular expression deterministic after the name group, are checked over all "
        "1,114,112 code points on every run",
        "zlib.decompress(zlib.compress(b)) == b and UTF-8 never emits byte 10 except for '\\n' (hypotheses hC, hE of inventory_roundtrip; "
        "hE checked over all code points, hC on every generated case implicitly)",
        "file ids are relative paths without whitespace and without '.'/'' components; page paths with whitespace give URIs outside WFEntry",
        "target ids reaching the postprocessor are whitespace-normalised (docutils normalises label names); two ids that differ only in "
        "whitespace runs are one key in the target database",
        "titles have no leading/trailing whitespace and are not exactly '-' (docutils strips titles; '-' is the format's marker for 'same as name')",
    ]

    # ------------------------------------------------------------------ static obligations
    def static_obligations(self):
        bad_s, bad_d, bad_dot, bad_u = [], [], [], []
        for cp in range(sys.maxunicode + 1):
            if 0xD800 <= cp <= 0xDFFF:
                continue
            ch = chr(cp)
            s = RE_S.match(ch) is not None
            if s != ch.isspace() or s != (ch.strip() == "") or s != (("x" + ch).rstrip() == "x"):
                bad_s.append(cp)
            d = RE_D.match(ch) is not None
            if d:
                try:
                    v = int(ch)
                    ok = 0 <= v <= 9 and int("-" + ch + ch) == -(10 * v + v)
                except ValueError:
                    ok = False
                if s or not ok:
                    bad_d.append(cp)
            if (RE_DOT.match(ch) is not None) != (ch != "\n"):
                bad_dot.append(cp)
            if (10 in ch.encode("utf-8")) != (ch == "\n"):
                bad_u.append(cp)
        ascii_ok = all(RE_D.match(c) and int(c) == ord(c) - 48 for c in "0123456789")
        fixed = (is_space(" ") and is_space("\n") and not is_space(":") and not is_space("-") and not RE_D.match("-")
                 and not RE_D.match(":") and not is_space("/") and not is_space("#") and not is_space("$"))
        ints = [0, 1, -1, 9, 10, -10, 12345678901234567890, -(10 ** 30)]
        str_ok = all(re.fullmatch(r"-?[0-9]+", str(i)) and int(str(i)) == i for i in ints)
        blob = ("x é\n" * 50).encode("utf-8")
        return [
            ("\\s == str.isspace == removed by strip()/rstrip() (all code points)", not bad_s, str(bad_s[:5])),
            ("\\d characters are not \\s, int(c) in 0..9 and int() is positional on them (all code points)", not bad_d, str(bad_d[:5])),
            ("dig_ascii: ASCII digits are \\d with int(c) = ord(c)-48", bool(ascii_ok), ""),
            ("sp_space, sp_nl, sp_colon, sp_dash; '-' ':' not \\d; '/' '#' '$' not \\s", bool(fixed), ""),
            ("'.' matches every character but '\\n' (all code points)", not bad_dot, str(bad_dot[:5])),
            ("hE: UTF-8 emits byte 10 only for '\\n' (all code points)", not bad_u, str(bad_u[:5])),
            ("str(int) is '-'? + ASCII digits and int() inverts it (samples)", bool(str_ok), ""),
            ("hC: zlib.decompress(zlib.compress(b, 9)) == b (sample)", zlib.decompress(zlib.compress(blob, 9)) == blob, ""),
        ]

    # ------------------------------------------------------------------ generation
    def g_word(self, rng):
        return "".join(rng.choice(WORDCH) for _ in range(rng.randint(1, 6)))

    def g_name(self, rng):
        words = [self.g_word(rng) for _ in range(rng.choice([1, 1, 2, 2, 3, 4]))]
        out = words[0]
        for w in words[1:]:
            out += rng.choice(INNER_WS) + w
        return out

    def g_prio(self, rng):
        return rng.choice([-1, -1, -1, 0, 1, 2, 3, 10, -2, rng.randint(-10 ** 6, 10 ** 6), rng.randint(-10 ** 20, 10 ** 20)])

    def g_uri(self, rng):
        k = rng.randint(0, 9)
        page = rng.choice(["", "ref/", "a/b/", "é/p/", "x.y/"])
        if k == 0:
            return ""
        if k == 1:
            return "$"
        if k <= 4:
            return page + "#" + rng.choice(["std-label-", "", "id-"]) + "$"
        if k == 5:
            return page + "$" + "/"
        return page + "#" + self.g_word(rng)

    def g_display(self, rng):
        k = rng.randint(0, 5)
        if k <= 1:
            return None
        ws = [rng.choice([self.g_word(rng), "-", "--x", "a:b", "3"]) for _ in range(rng.randint(1, 4))]
        d = " ".join(ws) if k < 5 else "  ".join(ws)
        return d if d != "-" else "- -"

    def g_entry(self, rng, pool=None):
        name = rng.choice(pool) if pool and rng.random() < 0.5 else self.g_name(rng)
        d, r = rng.choice(ROLES)
        ub = self.g_uri(rng)
        uri = ub[:-1] + name if ub.endswith("$") else ub
        return {"key": f"{d}:{r}:{name}", "name": name, "domain": d, "role": r, "prio": self.g_prio(rng),
                "uri_base": ub, "uri": uri, "display": self.g_display(rng)}

    def g_bad_entry(self, rng):
        e = self.g_entry(rng)
        k = rng.randint(0, 11)
        if k == 0:
            e["name"] = rng.choice(["a b:c 3 d", "x:y", "a :1 b", "n std:label -1 u -", "a b:c -7 d e"])
        elif k == 1:
            e["name"] = rng.choice([" a", "a ", "\ta", "a "])
        elif k == 2:
            e["name"] = ""
        elif k == 3:
            e["name"] = "a\nb"
        elif k == 4:
            e["display"] = rng.choice(["-", "", " x", "x ", "a\nb"])
        elif k == 5:
            e["uri_base"] = rng.choice(["a b", " ", "a\t#b", "x "])
        elif k == 6:
            e["role"] = rng.choice(["la bel", " "])
        elif k == 7:
            e["domain"] = rng.choice(["s:d", "s d"])
        elif k == 8:
            e["uri"] = e["uri"] + "x"
        elif k == 9:
            e["name"] = "x  std:label 1 u d"
        elif k == 10:
            e["name"] = rng.choice(["a :b", ": 1", "a : 2 b"])
        else:
            e["display"] = "- "
        return e

    def g_inventory(self, rng, bad=False):
        size = rng.choice([1, 2, 3, 3, 4, 5, 6, 8, 12, rng.randint(20, 200)])
        pool = [self.g_name(rng) for _ in range(3)]
        es = [self.g_entry(rng, pool) for _ in range(size)]
        if rng.random() < 0.5:
            # same role, names differing only in letter case (options -o / -O of one program), at different locations
            for i in range(rng.randint(1, 3)):
                e = rng.choice(es)
                for nm in rng.sample([e["name"].lower(), e["name"].upper(), e["name"].swapcase(), e["name"].title()], 4):
                    if nm != e["name"] and nm.strip() == nm and nm:
                        ub = rng.choice([f"twin/#t{i}", f"twin/#t{i}-$", self.g_uri(rng)])
                        es.insert(rng.randrange(len(es) + 1), {**e, "key": f"{e['domain']}:{e['role']}:{nm}", "name": nm, "uri_base": ub,
                                                               "uri": ub[:-1] + nm if ub.endswith("$") else ub})
                        break
        if bad:
            for _ in range(rng.randint(1, 2)):
                es[rng.randrange(len(es))] = self.g_bad_entry(rng)
        pn = rng.choice(["proj", "", "é docs", "a  b", "# x"])
        ver = rng.choice(["", "1.0", "v é"])
        if bad and rng.random() < 0.15:
            if rng.random() < 0.5:
                pn += "\n"
            else:
                ver = "1\n2"
        return {"kind": "inv", "project": pn, "version": ver, "entries": es}

    def g_lines(self, rng):
        toks = ["a", "b", ":", " ", "  ", "\t", "-", "1", "23", "$", " ", "٣", "é", "x:y", "std:label", "-1", "#", "\x1c", "　",
                "\r", "std:doc", "py:method", "--", "-٣", "x/#$", "-", "T"]
        lines = []
        for _ in range(rng.randint(1, 6)):
            k = rng.randint(0, 3)
            if k == 0:
                lines.append("".join(rng.choice(toks) for _ in range(rng.randint(0, 12))))
            else:
                e = self.g_entry(rng) if k == 1 else self.g_bad_entry(rng)
                fields = [e["name"].replace("\n", " "), f"{e['domain']}:{e['role']}", str(e["prio"]), e["uri_base"],
                          "-" if e["display"] is None else e["display"].replace("\n", " ")]
                m = rng.randint(0, 9)
                seps = [" ", " ", " ", " "]
                if m == 0:
                    seps[rng.randrange(4)] = rng.choice(["  ", "\t", " \t", " ", ""])
                elif m == 1:
                    fields[2] = rng.choice(["٣", "-٣٤", "--1", "-", "1x", "+1", "1_0", "٣3"])
                elif m == 2:
                    del fields[rng.randrange(5)]
                    seps = seps[:3]
                elif m == 3:
                    fields[-1] += rng.choice([" ", "\t", "\r", " \x1c"])
                elif m == 4:
                    fields[0] = rng.choice([" ", "\t"]) + fields[0]
                line = fields[0]
                for s, f in zip(seps, fields[1:]):
                    line += s + f
                lines.append(line)
        return {"kind": "lines", "text": "\n".join(lines) + rng.choice(["", "\n", "\n\n"])}

    def g_dirhtml(self, rng):
        names = ["index.txt", "a.txt", "b.rst", "c.yaml", "d.ast", "e", "f.txt.txt", ".txt", "..txt", "x.y.rst", "index.rst", "é.txt",
                 "txt", "a.TXT", "g.md", "h.txt.bak", "a b.txt", ".hidden.rst", "..", "x.yaml.rst"]
        dirs = ["ref", "a", "é", "index.txt", "x.txt", ".."]
        paths = []
        for _ in range(rng.randint(1, 6)):
            paths.append([rng.choice(dirs) for _ in range(rng.choice([0, 0, 1, 1, 2, 3]))] + [rng.choice(names)])
        return {"kind": "dirhtml", "paths": paths}

    def g_title(self, rng):
        if rng.random() < 0.25:
            return []
        words = [rng.choice(["Title", "é", "a-b", "x", "--opt", "3", "The", "$v", "-"]) for _ in range(rng.randint(1, 3))]
        text = " ".join(words)
        if text == "-":
            text = "- x"
        cut = rng.randint(0, len(text))
        kinds = rng.choice([["t"], ["t", "e"], ["e", "t"], ["t", "l"], ["s"], ["t", "e"]])
        if len(kinds) == 1 or cut in (0, len(text)):
            out = [[kinds[0], text]]
        else:
            out = [[kinds[0], text[:cut]], [kinds[1], text[cut:]]]
        if rng.random() < 0.15:
            out = out[:1] + [["t", " "], ["r", "reftarget"]] + ([["t", " "]] + out[1:] if out[1:] else [])
        return out

    def g_project(self, rng):
        fids = rng.sample(FILEIDS, rng.randint(1, 4))
        # target ids are whitespace-normalised, as docutils delivers them
        pool = rng.sample(COLLIDING, rng.randint(2, 5)) + [re.sub(r"\s+", " ", self.g_name(rng))]
        if rng.random() < 0.3:
            # a name may hold ':' (`faq:sharding`, a PHP method `Client::listDatabases()`): the key is 'domain:role:name' and only its
            # first two colons delimit
            pool += rng.sample(COLONED, rng.randint(1, 2))
        pages = []
        for fid in fids:
            items = []
            for _ in range(rng.randint(0, 6)):
                k = rng.randint(0, 9)
                if k <= 4:
                    items.append({"t": "label", "ids": [rng.choice(pool)], "title": self.g_title(rng)})
                elif k <= 6:
                    short = rng.choice(["--opt", "-v", "x y", "-o", "-O", "-o", "-O"])
                    dom, nm = rng.choice([("std", "option"), ("mongodb", "setting"), ("mongodb", "dbcommand"), ("py", "method")])
                    ids = [short, rng.choice(["prog", "a.b"]) + "." + short] if rng.random() < 0.5 else [rng.choice(pool)]
                    if rng.random() < 0.25:
                        # a directive argument is taken as the author wrote it: runs of blanks, a line break in a long signature
                        ids = [rng.choice(["foo  bar", "foo\n   bar", "write  concern", "a \t b", "db.coll.find(\n  q)"])]
                    title = self.g_title(rng)
                    if any("\n" in i or "  " in i or "\t" in i for i in ids) and rng.random() < 0.7:
                        # the title of such a target IS its argument, line break and all
                        title = [["t", ids[0]]]
                    items.append({"t": "obj", "domain": dom, "name": nm, "ids": ids, "title": title})
                else:
                    t = self.g_title(rng) or [["t", "H"]]
                    items.append({"t": "heading", "id": rng.choice(["h", "top", "a-b", "std-label-a-b"]), "title": t})
            pages.append({"fileid": fid, "items": items})
        pages.append({"fileid": "zz-reftarget.txt", "items": [{"t": "label", "ids": ["reftarget"], "title": [["t", "Target Title"]]}]})
        return {"kind": "project", "pages": pages}

    def generate(self, rng, budget, tier):
        if tier != "search":
            yield {"kind": "inv", "project": "p", "version": "", "entries": [
                {"key": "std:label:a b:c 3 d", "name": "a b:c 3 d", "domain": "std", "role": "label", "prio": -1,
                 "uri_base": "x/#a", "uri": "x/#a", "display": None}], "origin": "roundtrip_refuted_colon"}
            yield {"kind": "lines", "text": "index std:doc -1  Title\nn std:label -1 u \na b:c 3 d std:label -1 x/#a -\n"}
            yield {"kind": "dirhtml", "paths": [["index.txt"], ["ref", "index.txt"], [".txt"], ["..txt"], ["a", "b.c.rst"]]}
        for i in range(budget):
            k = i % 10
            if k <= 3:
                yield self.g_inventory(rng)
            elif k == 4:
                yield self.g_inventory(rng, bad=True) if tier != "search" else self.g_inventory(rng)
            elif k <= 6:
                yield self.g_project(rng)
            elif k == 7:
                yield self.g_lines(rng) if tier != "search" else self.g_project(rng)
            elif k == 8:
                yield self.g_project(rng)
            else:
                yield self.g_dirhtml(rng) if tier != "search" else self.g_inventory(rng)

    def shrink_candidates(self, case):
        k = case["kind"]
        if k == "inv":
            es = case["entries"]
            if len(es) > 8:
                yield {**case, "entries": es[: len(es) // 2]}
                yield {**case, "entries": es[len(es) // 2:]}
            for i in range(len(es)):
                if len(es) > 1:
                    yield {**case, "entries": es[:i] + es[i + 1:]}
            for i, e in enumerate(es):
                for f, v in (("display", None), ("prio", -1), ("uri_base", "u"), ("uri", "u")):
                    if e[f] != v and not (f == "uri" and e["uri_base"] != "u"):
                        yield {**case, "entries": es[:i] + [{**e, f: v}] + es[i + 1:]}
                if len(e["name"]) > 1:
                    for j in range(len(e["name"])):
                        nm = e["name"][:j] + e["name"][j + 1:]
                        ub = e["uri_base"]
                        yield {**case, "entries": es[:i] + [{**e, "name": nm, "key": f"{e['domain']}:{e['role']}:{nm}",
                                                             "uri": ub[:-1] + nm if ub.endswith("$") else ub}] + es[i + 1:]}
        elif k == "lines":
            ls = case["text"].split("\n")
            for i in range(len(ls)):
                if len(ls) > 1:
                    yield {**case, "text": "\n".join(ls[:i] + ls[i + 1:])}
        elif k == "dirhtml":
            ps = case["paths"]
            for i in range(len(ps)):
                if len(ps) > 1:
                    yield {**case, "paths": ps[:i] + ps[i + 1:]}
        elif k == "project":
            pages = case["pages"]
            for i in range(len(pages)):
                if len(pages) > 1:
                    yield {**case, "pages": pages[:i] + pages[i + 1:]}
            for i, pg in enumerate(pages):
                for j in range(len(pg["items"])):
                    yield {**case, "pages": pages[:i] + [{**pg, "items": pg["items"][:j] + pg["items"][j + 1:]}] + pages[i + 1:]}

    # ------------------------------------------------------------------ implementation
    def build_pages(self, case):
        pages = []
        for pg in case["pages"]:
            nodes = []
            for i, it in enumerate(pg["items"]):
                if it["t"] == "heading":
                    nodes.append(n.Section((i,), [n.Heading((i,), title_nodes(it["title"]), it["id"])]))
                else:
                    dom, nm = ("std", "label") if it["t"] == "label" else (it["domain"], it["name"])
                    nodes.append(n.Target((i,), [n.TargetIdentifier((i,), title_nodes(it["title"]), list(it["ids"]))], dom, nm, None, None))
            pages.append(pp.page(pg["fileid"], nodes))
        return pages

    def run_project(self, case):
        res = pp.run(self.build_pages(case))
        defs = []
        for key, ds in res.targets.local_definitions.items():
            defs.append({"key": key, "defs": [
                {"canonical": d.canonical_name, "fileid": list(d.fileid.parts),
                 "title": "".join(x.get_text() for x in d.title), "html_id": d.html5_id} for d in ds]})
        return res, defs

    def run_impl(self, case):
        k = case["kind"]
        if k == "inv":
            inv = Inventory("", {e["key"]: json_to_td(e) for e in case["entries"]})
            # duplicate keys inside the case collapse in the dict: keep what the dict kept
            kept = [td_to_json(key, t) for key, t in inv.targets.items()]
            try:
                data = inv.dumps(case["project"], case["version"])
            except ValueError:
                return {"exc": "ValueError", "kept": kept}
            parts = data.split(b"\n", 4)
            header = b"\n".join(parts[:4]) + b"\n"
            body = zlib.decompress(parts[4]).decode("utf-8")
            try:
                back = Inventory.parse(BASE, data)
            except Exception as e:
                return {"exc": "parse:" + type(e).__name__, "kept": kept, "file": header.decode("utf-8") + body}
            resolved = consume(back, inv_queries(kept))
            return {"exc": None, "kept": kept, "file": header.decode("utf-8") + body,
                    "parsed": [td_to_json(key, t) for key, t in back.targets.items()],
                    "resolved": resolved, "rebase": rebase_diff(data, back, inv_queries(kept), resolved)}
        if k == "lines":
            data = HEADER.format("p", "").encode("utf-8") + zlib.compress(case["text"].encode("utf-8"), 9)
            try:
                back = Inventory.parse("", data)
            except Exception as e:
                return {"exc": type(e).__name__}
            return {"exc": None, "parsed": [td_to_json(key, t) for key, t in back.targets.items()]}
        if k == "dirhtml":
            out, slug = [], []
            for parts in case["paths"]:
                fid = n.FileId("/".join(parts))
                try:
                    out.append(fid.as_dirhtml())
                except ValueError:
                    out.append(None)
                try:
                    slug.append(fid.without_known_suffix)
                except ValueError:
                    slug.append(None)
            return {"exc": None, "dirhtml": out, "slug": slug}
        # project
        try:
            res, defs = self.run_project(case)
            gen = res.targets.generate_inventory("")
            data = gen.dumps("verif", "")
            back = Inventory.parse(BASE, data)
        except Exception as e:
            return {"exc": type(e).__name__, "msg": str(e)[:200]}
        pages = {}
        for fid, page in res.pages.items():
            anchors, first_heading = [], None
            for node in pp.walk(page.ast):
                if isinstance(node, n.Target) and node.html_id is not None:
                    ids = [i for t in node.get_child_of_type(n.TargetIdentifier) for i in t.ids]
                    shown = "".join(c.get_text() for t in node.get_child_of_type(n.TargetIdentifier) for c in t.children)
                    anchors.append({"id": node.html_id, "names": ids, "domain": node.domain, "name": node.name, "title": shown})
                elif isinstance(node, n.Heading) and first_heading is None:
                    first_heading = "".join(c.get_text() for c in node.children)
            pages[fid.as_posix()] = {"anchors": anchors, "first_heading": first_heading}
        return {"exc": None, "defs": defs,
                "generated": [td_to_json(key, t) for key, t in gen.targets.items()],
                "parsed": [td_to_json(key, t) for key, t in back.targets.items()], "pages": pages,
                "resolved": (resolved := consume(back, defs_queries(defs))),
                "rebase": rebase_diff(data, back, defs_queries(defs), resolved)}

    # ------------------------------------------------------------------ model
    @functools.lru_cache(maxsize=4096)
    def _defs(self, blob):
        try:
            return self.run_project(json.loads(blob))[1]
        except Exception:
            return None

    def model_request(self, case):
        k = case["kind"]
        if k == "inv":
            es = kept_entries(case)  # the dict the implementation holds
            qs = inv_queries(es)
            texts = [case["project"], case["version"]] + [str(v) for e in es for v in e.values() if v is not None] + qs
            sp, dg = classes_for(texts)
            return {"op": "c15.inv", "space": sp, "digits": dg, "project": case["project"], "version": case["version"], "entries": es,
                    "queries": [[q, lower_of_normalised(q)] for q in qs]}
        if k == "lines":
            sp, dg = classes_for([case["text"]])
            return {"op": "c15.lines", "space": sp, "digits": dg, "text": case["text"]}
        if k == "dirhtml":
            return {"op": "c15.dirhtml", "paths": case["paths"]}
        defs = self._defs(json.dumps(case, sort_keys=True))
        if defs is None:
            return None
        texts = [str(v) for kd in defs for d in kd["defs"] for v in (d["canonical"], d["title"], d["html_id"], "/".join(d["fileid"]))]
        qs = defs_queries(defs)
        sp, dg = classes_for(texts + [kd["key"] for kd in defs] + qs)
        return {"op": "c15.gen", "space": sp, "digits": dg, "defs": defs, "queries": [[q, lower_of_normalised(q)] for q in qs]}

    def compare(self, case, model, impl):
        k = case["kind"]
        if k == "inv":
            if model["raised"] != (impl["exc"] == "ValueError"):
                return f"dumps raising differs: model raised={model['raised']} impl exc={impl['exc']}"
            if model["raised"]:
                return None
            if impl["exc"]:
                if model["parsed"] is not None:
                    return f"implementation raised {impl['exc']}, model parsed"
                return None
            if model["file"] != impl["file"]:
                return f"dumped file differs: model {model['file']!r} impl {impl['file']!r}"
            if model["parsed"] != impl["parsed"]:
                return f"parsed inventory differs: model {model['parsed']} impl {impl['parsed']}"
            r = self.compare_resolved(model, impl, inv_queries(impl["kept"]))
            if r:
                return r
            for e, per in zip(impl["kept"], model["per"]):
                if per["wf"] != wf_entry(e):
                    return f"WFEntry (Lean) and wf_entry (harness oracle) disagree on {e}"
                if per["wf"] and per["canon"] != expected_entry(e):
                    return f"canon (Lean) and the documented aliasing (harness oracle) disagree on {e}: {per['canon']}"
            return None
        if k == "lines":
            got = None if impl["exc"] else impl["parsed"]
            if model["parsed"] != got:
                return f"parse of raw lines differs: model {model['parsed']} impl {impl}"
            return None
        if k == "dirhtml":
            if model["dirhtml"] != impl["dirhtml"] or model["slug"] != impl["slug"]:
                return f"as_dirhtml differs: model {model} impl {impl}"
            return None
        if impl["exc"]:
            if model["inventory"] is not None:
                return f"implementation raised {impl['exc']}, model generated an inventory"
            return None
        if model["inventory"] != impl["generated"]:
            return f"generate_inventory differs: model {model['inventory']} impl {impl['generated']}"
        if model["parsed"] != impl["parsed"]:
            return f"parse(dumps(generated)) differs: model {model['parsed']} impl {impl['parsed']}"
        return self.compare_resolved(model, impl, defs_queries(impl["defs"]))

    def compare_resolved(self, model, impl, queries):
        """TargetDatabase.__getitem__ on the loaded inventory vs. `resolveIn` (exact key, lower-cased key, un-escaped php key)"""
        for q, m, i in zip(queries, model.get("resolved") or [], impl.get("resolved") or []):
            want = [] if m["hit"] is None else [{"name": m["hit"]["name"], "url": urllib.parse.urljoin(BASE, m["hit"]["uri"])}]
            if "exc" in i:
                return f"lookup of {q!r} in the loaded inventory raised {i['exc']}; model: {want}"
            if i["n"] != len(want) or i["hits"][:1] != want:
                return f"lookup of {q!r} in the loaded inventory differs: model {want} (normalised key {m['nk']!r}) impl {i}"
        return None

    # ------------------------------------------------------------------ direct oracle
    def roundtrip_oracle(self, written, parsed, what):
        """written entries (dict order) all in the property's alphabet => parsed == {expected(e)}"""
        if not all(wf_entry(e) for e in written):
            return None
        want = {}
        for e in written:
            x = expected_entry(e)
            want[x["key"]] = x
        got = {e["key"]: e for e in parsed}
        for key, x in want.items():
            if key not in got:
                return f"{what}: entry lost in parse(dumps(inv)): {x}"
            if got[key] != x:
                return f"{what}: entry changed in parse(dumps(inv)): wrote {x} read {got[key]}"
        for key in got:
            if key not in want:
                return f"{what}: entry invented by parse(dumps(inv)): {got[key]}"
        return None

    def resolve_oracle(self, written, queries, resolved, what):
        """"another project loading it resolves the same names to the same locations": every written entry of the
        alphabet whose key is whitespace-normalised (lookups normalise whitespace runs) is found under its own key, once,
        at base + its uri, under its own name."""
        if not all(wf_entry(e) for e in written):
            return None
        want = {}
        for e in written:
            x = expected_entry(e)
            want[x["key"]] = x
        for q, r in zip(queries, resolved):
            x = want.get(q)
            if x is None or re.sub(r"\s+", " ", q) != q:
                continue
            loc = urllib.parse.urljoin(BASE, x["uri"])
            if "exc" in r:
                return f"{what}: resolving {q!r} through a project that loaded the inventory raised {r['exc']}"
            if r["n"] != 1:
                return f"{what}: resolving {q!r} through a project that loaded the inventory gave {r['n']} results, expected the one at {loc!r}"
            h = r["hits"][0]
            if h["url"] != loc or h["name"] != x["name"]:
                return (f"{what}: resolving {q!r} through a project that loaded the inventory gave name {h['name']!r} at {h['url']!r}; "
                        f"the inventory lists it as {x['name']!r} at {loc!r}")
        return None

    def oracle(self, case, impl):
        k = case["kind"]
        if k == "inv":
            nl = "\n" in case["project"] or "\n" in case["version"]
            if impl["exc"] == "ValueError":
                return None if nl else "dumps raised ValueError without a newline in project name/version"
            if nl:
                return "dumps accepted a newline in project name/version"
            if impl["exc"]:
                return f"parse(dumps(inv)) raised {impl['exc']}" if all(wf_entry(e) for e in impl["kept"]) else None
            return (self.roundtrip_oracle(impl["kept"], impl["parsed"], "inventory")
                    or self.resolve_oracle(impl["kept"], inv_queries(impl["kept"]), impl["resolved"], "inventory")
                    or (impl.get("rebase") and "resolving: " + impl["rebase"]))
        if k != "project":
            return None
        if impl["exc"]:
            return f"building the inventory raised {impl['exc']}: {impl.get('msg')}"
        for e in impl["generated"]:
            # what the build exports must be something the line format can carry: one line per entry
            if e["display"] is not None and ("\n" in e["display"] or not edge_ok(e["display"])):
                back = next((x["display"] for x in impl["parsed"] if x["key"] == e["key"]), "<entry lost>")
                return (f"entry changed: the generated entry {e['key']!r} has the display title {e['display']!r}, which one line of the inventory "
                        f"cannot carry (read back as {back!r})")
        r = (self.roundtrip_oracle(impl["generated"], impl["parsed"], "generated inventory")
             or self.resolve_oracle(impl["generated"], defs_queries(impl["defs"]), impl["resolved"], "generated inventory")
             or (impl.get("rebase") and "resolving: " + impl["rebase"]))
        if r:
            return r
        by_dir = {dirhtml_py(fid): (fid, pg) for fid, pg in impl["pages"].items()}
        parsed = {e["key"]: e for e in impl["parsed"]}
        for e in impl["parsed"]:
            role = f"{e['domain']}:{e['role']}"
            d, sep, anchor = e["uri"].partition("#")
            if d not in by_dir:
                return f"entry {e['key']} has uri {e['uri']!r}: no built page has dirhtml uri {d!r}"
            fid, pg = by_dir[d]
            if e["prio"] != -1 or e["uri_base"] != e["uri"]:
                return f"entry {e['key']}: priority/uri_base not as generated: {e}"
            if role == "std:ext-doc":
                if sep or re.sub(r"\.(txt|rst|yaml|ast)$", "", fid) != e["name"] or re.sub(r"\s+", " ", pg["first_heading"] or "").strip() != (e["display"] or ""):
                    return f"doc entry {e} does not describe page {fid} (first heading {pg['first_heading']!r})"
                continue
            hit = [a for a in pg["anchors"] if a["id"] == anchor]
            if not sep or not hit:
                return f"entry {e['key']} points to {e['uri']!r} but page {fid} carries no target with html id {anchor!r}"
            a = hit[0]
            shown = re.sub(r"\s+", " ", a.get("title") or "").strip()
            if "title" in a and (e["display"] or "") != shown:
                return (f"entry {e['key']} has the display title {e['display']!r}; the built page shows the target's title as {shown!r}")
            if e["name"] not in [re.sub(r"\s+", " ", x) for x in a["names"]] or ALIASES.get(f"{a['domain']}:{a['name']}", f"{a['domain']}:{a['name']}") != role:
                return f"entry {e['key']} points to {e['uri']!r}, which is the anchor of {a} on {fid}"
        # every target of the project is listed under its canonical name. When one key is defined more than once
        # (a duplicate target; also `--opt` of one program vs. `prog.--opt`/`--opt` of another) the database keeps the first
        # definition per key, so the demand is made for the anchor that holds the first definition of its own canonical key.
        first = {kd["key"]: ("/".join(kd["defs"][0]["fileid"]), kd["defs"][0]["html_id"]) for kd in impl["defs"] if kd["defs"]}
        for fid, pg in impl["pages"].items():
            for a in pg["anchors"]:
                canonical = max(a["names"], key=lambda x: x.count("."))
                role = f"{a['domain']}:{a['name']}"
                # keys are whitespace-normalised (that is how the project keeps them and how consumers look names up)
                canonical = re.sub(r"\s+", " ", canonical)
                if first.get(f"{role}:{canonical}") != (fid, a["id"]):
                    continue
                key = f"{ALIASES.get(role, role)}:{canonical}"
                # a name holding ':' is outside the round-trip alphabet only because of names like 'a b:c 3 d'; without blanks
                # in it the line format reads it back, so it is demanded too
                colon_ok = ":" in canonical and not any(c.isspace() for c in canonical)
                if (colon_ok or wf_entry({"name": canonical, "domain": a["domain"], "role": a["name"], "uri_base": "", "display": None})) and key not in parsed:
                    return f"target {a} of {fid} is not listed in the inventory (expected key {key!r})"
        return None

    def finding_key(self, case, impl, desc):
        m = re.match(r"([^:]*: )?(entry (lost|changed|invented)|doc entry|entry|target|dumps|parse|building|resolving)", desc)
        return f"{case['kind']}:{m.group(0) if m else desc[:40]}"

    # ------------------------------------------------------------------ evidence
    def nontrivial_key(self, case, impl):
        k = case["kind"]
        if k == "inv":
            es = case["entries"]
            if len(es) >= 2 and any(any(c.isspace() for c in e["name"]) or "$" in e["uri_base"] or f"{e['domain']}:{e['role']}" in ALIASES for e in es):
                return json.dumps(case, sort_keys=True)
            return None
        if k == "lines":
            return json.dumps(case, sort_keys=True) if impl.get("parsed") else None
        if k == "project":
            return json.dumps(case, sort_keys=True) if len(impl.get("parsed") or []) >= 2 else None
        return json.dumps(case, sort_keys=True)

    def branch_tags(self, case, model, impl):
        k = case["kind"]
        tags = [k]
        if impl.get("exc"):
            tags.append(f"{k}:exc:{impl['exc']}")
            return tags
        if k == "inv":
            es = impl["kept"]
            allwf = all(wf_entry(e) for e in es)
            tags.append("inv:all-wf" if allwf else "inv:malformed")
            if len(es) >= 50:
                tags.append("inv:>=50 entries")
            if any(re.search(r"\s", e["name"]) for e in es):
                tags.append("inv:name with whitespace")
            if any(re.search(r"[^\x00-\x7f]", e["name"]) for e in es):
                tags.append("inv:non-ascii name")
            if any(e["uri_base"].endswith("$") for e in es):
                tags.append("inv:$ uri")
            if any(e["uri_base"] == "" for e in es):
                tags.append("inv:empty uri")
            if any(f"{e['domain']}:{e['role']}" in ALIASES for e in es):
                tags.append("inv:aliased role")
            if any(abs(e["prio"]) > 10 ** 9 for e in es):
                tags.append("inv:big priority")
            if len(impl["parsed"]) < len(es):
                tags.append("inv:keys merged or lines skipped")
            keys = [e["key"] for e in impl["parsed"]]
            if len({x.lower() for x in keys}) < len(keys):
                tags.append("inv:names differing only in case")
        elif k == "lines":
            tags.append(f"lines:{len(impl['parsed'])} matched")
        elif k == "dirhtml":
            if None in impl["dirhtml"]:
                tags.append("dirhtml:ValueError")
        else:
            if any(a["id"].rsplit("-", 1)[-1].isdigit() for pg in impl["pages"].values() for a in pg["anchors"]):
                tags.append("project:disambiguated html id")
            if len(impl["parsed"]) < len(impl["generated"]):
                tags.append("project:alias keys merged")
            if any("/" in f for f in impl["pages"]):
                tags.append("project:nested dir")
            keys = [e["key"] for e in impl["parsed"]]
            if len({x.lower() for x in keys}) < len(keys):
                tags.append("project:names differing only in case")
        return tags

    def sample(self, case, impl):
        c = dict(case)
        if c["kind"] == "inv" and len(c["entries"]) > 3:
            c["entries"] = c["entries"][:3] + [f"... {len(case['entries']) - 3} more"]
        return {"case": c, "parsed": (impl.get("parsed") or impl.get("dirhtml") or [])[:3]}


PROP = C15()
