"""C04 — every emitted AST is well-formed and serialisable.

Three kinds of cases:
* "synth": a synthetic n.* AST described as a JSON value tree (built from the schema table, with deliberately
  ill-typed values in a third of the cases) -> REAL `serialize()` + `json.dumps` vs. the Lean model of
  `Node.serialize` (ok / NotImplementedError / IndexError / TypeError / EncodeError and JSON equality),
  REAL `verify()` vs. the model's strict `wf`.
* "rst": one rst text -> REAL parser -> page.ast.serialize() + bson.encode (after parse alone), then the REAL
  Postprocessor on that page -> the same again.
* "project": a small multi-file project -> REAL Project.build() with a recording backend -> every delivered page.
For "rst"/"project" the verified definition `wfJson Gen.schema` (compiled driver, op c04.wfjson) is the ORACLE
for the implementation's output; a page it rejects, or a `serialize()`/`bson.encode` exception, is a violation.

RELAXATIONS of the literal dataclass hints (calibrated on the unchanged tree; the property text does not demand more):
* Reference.refuri / Reference.refname are declared `str` but the parser passes None for the one the docutils
  node lacks (parser.py:407-415) -> treated as Optional[str] (impl/c04schema.py RELAX).
* Directive.argument is declared MutableSequence[Text]; the parser stores arbitrary INLINE nodes there
  (roles, literals, substitution references) -> bound relaxed to InlineNode (the property only demands that
  inline containers hold inline nodes).
* Directive.options / Target.options are declared Dict[str, str]; flag options are stored as True (e.g. glossary :sorted:) -> values
  may be any JSON scalar/structure.
* the RefRole destination rule is applied to `.txt` pages only: the postprocessor's passes visit only those
  (postprocess.py run_event_parser: `k.suffix == EXT_FOR_PAGE`); include fragments (.rst/.yaml-derived) are
  delivered as parsed and are resolved inside the pages that include them.
* a ref_role without destination is excused when an error-level diagnostic sits on its line in ANY file of
  the build (the diagnostic is filed under the include file that holds the role, not under the page).
* only "known type / start line / required fields & types / containment / no bookkeeping node / RefRole
  destination" are judged; an *unexpected extra key* cannot occur (serialize iterates dataclasses.fields) and is
  rejected only because it means the node is not an instance of the class its tag names.
"""
import json
import re
from pathlib import Path

import core
from impl import c04schema

LEAN_SCHEMA = core.LEAN / "SnootyVerif" / "Gen" / "Schema.lean"
ERROR_LEVELS = ("error",)


def _gen():
    from impl import c04gen
    return c04gen


# --------------------------------------------------------------------------------------
# synthetic ASTs
# --------------------------------------------------------------------------------------

STRS = ["", "x", "a b", "é", "雪", "a\nb", "-", "std", "label", "0"]
INTS = [0, 1, -1, 3, 42, 2 ** 31, 2 ** 63 - 1, -(2 ** 40)]


def V(t, v=None, **kw):
    d = {"t": t}
    if v is not None:
        d["v"] = v
    d.update(kw)
    return d


def gen_ser(rng, depth=2):
    k = rng.randrange(9 if depth > 0 else 6)
    if k == 0:
        return V("none")
    if k == 1:
        return V("bool", rng.random() < 0.5)
    if k == 2:
        return V("int", rng.choice(INTS))
    if k == 3:
        return V("str", rng.choice(STRS))
    if k == 4:
        return {"t": "float", "m": rng.choice([15, -25, 5, 125]), "e": rng.choice([1, 2, 3])}
    if k == 5:
        return V("str", rng.choice(STRS))
    if k == 6:
        return V(rng.choice(["list", "tuple"]), [gen_ser(rng, depth - 1) for _ in range(rng.randrange(3))])
    return V("dict", [[rng.choice(["a", "b", "k"]) + str(i), gen_ser(rng, depth - 1)] for i in range(rng.randrange(3))])


def gen_shape(rng, sh):
    k = sh[0]
    if k == "str":
        return V("str", rng.choice(STRS))
    if k == "int":
        return V("int", rng.choice(INTS))
    if k == "bool":
        return V("bool", rng.random() < 0.5)
    if k == "ser":
        return gen_ser(rng)
    if k == "list":
        return V(rng.choice(["list", "list", "tuple"]), [gen_shape(rng, sh[1]) for _ in range(rng.randrange(3))])
    if k == "dict":
        return V("dict", [[f"k{i}", gen_shape(rng, sh[1])] for i in range(rng.randrange(3))])
    if k == "pair":
        return V(rng.choice(["tuple", "tuple", "list"]), [gen_shape(rng, sh[1]), gen_shape(rng, sh[2])])
    raise ValueError(sh)


class Synth:
    def __init__(self, rows):
        self.rows = {r["name"]: r for r in rows}
        self.order = [r["name"] for r in rows]
        self.abstract = {"Node", "InlineNode", "Parent", "InlineParent"}

    def candidates(self, bound, leaf):
        out = []
        for nm in self.order:
            r = self.rows[nm]
            if bound in r["mro"] and not r["internal"] and nm not in self.abstract:
                has_nodes = any(k[0] in ("nodes", "node") for _, k in r["fields"])
                if leaf and has_nodes and any(
                        self.candidates_exist_leaf(k[1]) is False for _, k in r["fields"] if k[0] == "node"):
                    continue
                out.append(nm)
        return out

    def candidates_exist_leaf(self, bound):
        return True

    def node(self, rng, bound="Node", depth=3, cls=None):
        cands = self.candidates(bound, depth <= 0)
        cls = cls or rng.choice(cands)
        r = self.rows[cls]
        fields = []
        for fname, kind in r["fields"]:
            fields.append([fname, self.value(rng, kind, depth)])
        line = rng.choice([0, 1, 2, 7, 100])
        return {"t": "node", "cls": cls, "tag": r["tag"], "span": V("tuple", [V("int", line)]), "fields": fields}

    def value(self, rng, kind, depth):
        k = kind[0]
        if k == "req":
            return gen_shape(rng, kind[1])
        if k == "opt":
            return V("none") if rng.random() < 0.4 else gen_shape(rng, kind[1])
        if k == "fileid":
            return V("fileid", rng.choice(["index.txt", "a/b.rst", "includes/x.yaml"]))
        if k == "enum":
            return V("enum", rng.choice(list(kind[1])))
        if k == "entries":
            return V("list", [V("entry", [rng.choice([None, "", "t"]), rng.choice([None, "http://x"]),
                                          rng.choice([None, "/p"]), rng.choice([None, "", "proj"])])
                              for _ in range(rng.randrange(3))])
        if k == "nodes":
            nkids = 0 if depth <= 0 else rng.choice([0, 1, 1, 2, 3])
            return V("list", [self.node(rng, kind[1], depth - 1) for _ in range(nkids)])
        if k == "node":
            return self.node(rng, kind[1], depth - 1)
        if k == "unknown":
            return V("none")
        raise ValueError(kind)

    # ---- faults ----
    def all_nodes(self, v, acc):
        if isinstance(v, dict) and v.get("t") == "node":
            acc.append(v)
            for _, fv in v["fields"]:
                self.all_nodes(fv, acc)
        elif isinstance(v, dict) and v.get("t") in ("list", "tuple"):
            for x in v["v"]:
                self.all_nodes(x, acc)
        return acc

    def inject(self, rng, tree):
        """mutates tree in place; returns the fault tag"""
        nodes = self.all_nodes(tree, [])
        nd = rng.choice(nodes)
        r = self.rows[nd["cls"]]
        kinds = dict((f, k) for f, k in r["fields"])
        fault = rng.choice(["other-field", "other-in-dict", "span-empty", "span-none", "block-in-inline", "term-escapes",
                            "para-in-list", "wrong-plain", "str-in-children", "node-in-plain", "fileid-in-dict",
                            "ref-undestined", "enum-in-list", "other-in-children", "bytes-field", "unknown-class-tag"])
        fl = nd["fields"]

        def setf(name, val):
            for p in fl:
                if p[0] == name:
                    p[1] = val
                    return True
            return False

        def pick(pred):
            c = [f for f, k in r["fields"] if pred(k)]
            return rng.choice(c) if c else None

        if fault in ("other-field", "bytes-field"):
            f = pick(lambda k: True)
            if f is None:
                return None
            setf(f, V("other", "set" if fault == "other-field" else rng.choice(["bytes", "object", "frozenset", "complex"])))
        elif fault == "other-in-dict":
            f = pick(lambda k: k[0] in ("req", "opt") and k[1][0] == "dict")
            if f is None:
                return None
            setf(f, V("dict", [["k", V("other", "set")]]))
        elif fault == "fileid-in-dict":
            f = pick(lambda k: k[0] in ("req", "opt") and k[1][0] == "dict")
            if f is None:
                return None
            setf(f, V("dict", [["k", V("fileid", "a.txt")]]))
        elif fault == "enum-in-list":
            f = pick(lambda k: k[0] == "req" and k[1][0] == "list")
            if f is None:
                return None
            setf(f, V("list", [V("enum", "arabic")]))
        elif fault == "span-empty":
            nd["span"] = V("tuple", [])
        elif fault == "span-none":
            nd["span"] = rng.choice([V("none"), V("int", 3), V("list", [])])
        elif fault in ("block-in-inline", "term-escapes", "para-in-list", "str-in-children", "other-in-children"):
            f = pick(lambda k: k[0] == "nodes")
            if f is None:
                return None
            if fault == "str-in-children":
                bad = V("str", "loose")
            elif fault == "other-in-children":
                bad = V("other", "set")
            elif fault == "term-escapes":
                bad = {"t": "node", "cls": "_DefinitionListTerm", "tag": "definition_list_term",
                       "span": V("tuple", [V("int", 1)]), "fields": [["children", V("list", [])]]}
            else:
                bad = self.node(rng, "Node", 1, cls="Paragraph")
            for p in fl:
                if p[0] == f:
                    p[1] = V(p[1]["t"] if p[1].get("t") in ("list", "tuple") else "list",
                             (p[1].get("v") if isinstance(p[1].get("v"), list) else []) + [bad])
        elif fault == "wrong-plain":
            f = pick(lambda k: k[0] == "req" and k[1][0] in ("str", "int", "bool"))
            if f is None:
                return None
            k = kinds[f][1][0]
            setf(f, {"str": V("int", 5), "int": V("str", "5"), "bool": V("none")}[k])
        elif fault == "node-in-plain":
            f = pick(lambda k: k[0] in ("req", "opt"))
            if f is None:
                return None
            setf(f, self.node(rng, "Node", 0, cls="Text"))
        elif fault == "ref-undestined":
            ref = self.node(rng, "Node", 1, cls="RefRole")
            for p in ref["fields"]:
                if p[0] in ("fileid", "url"):
                    p[1] = V("none")
            f = pick(lambda k: k[0] == "nodes")
            if f is None:
                return None
            for p in fl:
                if p[0] == f and p[1].get("t") in ("list", "tuple"):
                    p[1]["v"].append(ref)
        elif fault == "unknown-class-tag":
            nd["tag"] = "no_such_type"
        return fault


_PY = {}


def py_classes():
    if not _PY:
        n, classes = c04schema.load_classes()
        _PY["n"] = n
        _PY["cls"] = {c.__name__: c for c in classes}
    return _PY["n"], _PY["cls"]


class _Odd:
    pass


def build(v):
    """JSON value tree -> Python objects of the REAL classes"""
    n, classes = py_classes()
    t = v["t"]
    if t == "none":
        return None
    if t in ("bool", "int", "str"):
        return v["v"]
    if t == "float":
        return v["m"] / (10 ** v["e"])
    if t == "fileid":
        return n.FileId(v["v"])
    if t == "enum":
        return n.ListEnumType[v["v"]]
    if t == "list":
        return [build(x) for x in v["v"]]
    if t == "tuple":
        return tuple(build(x) for x in v["v"])
    if t == "dict":
        return {k: build(x) for k, x in v["v"]}
    if t == "entry":
        return n.TocTreeDirectiveEntry(*v["v"])
    if t == "other":
        return {"set": {1}, "bytes": b"x", "object": _Odd(), "frozenset": frozenset([1]), "complex": 1j}[v["v"]]
    if t == "node":
        cls = classes[v["cls"]]
        kw = {"span": build(v["span"])}
        for k, x in v["fields"]:
            kw[k] = build(x)
        obj = cls(**kw)
        if v["tag"] != cls.type:
            # a per-instance tag cannot be set on a slotted dataclass: use a throw-away subclass
            obj.__class__ = type(cls.__name__, (cls,), {"type": v["tag"], "__slots__": ()})
        return obj
    raise ValueError(t)


# --------------------------------------------------------------------------------------

class C04(core.PropertyCheck):
    id = "C04"
    quick_budget = 900
    thorough_budget = 9000
    rule = ("synth: random ASTs generated from the schema table (depth <= 3, every concrete class as root at least once per run), "
            "one third with one injected fault out of 16 kinds; rst: random documents from a fragment grammar covering every "
            "block/inline construct + directives/roles sampled from rstspec.toml + 25% line/byte mutations, judged after parse "
            "and after postprocess; project: 2-6 file projects (includes, replacement, substitutions before/after use, refs, "
            "giza YAML, snooty.toml substitutions/banners) through Project.build(). non-trivial = distinct case content "
            "whose output holds at least 3 node types")
    assumptions = [
        "span is a tuple/list or a non-subscriptable value (a str span is not modelled)",
        "dict keys of verbatim values are str; dataclass field names are distinct and differ from 'type'/'position' "
        "(the latter is theorem schema_names_ok on the generated table)",
        "error precedence between a serialize-stage exception and an encoder exception is compared only for "
        "ASTs with a single injected fault",
        "datetime values (allowed by SerializableType, encodable by bson only) are not generated",
        "the JSON judgement is applied to json.loads(json.dumps(doc)) of the serialize() result: tuples and lists are "
        "identified, as both encoders do",
    ]
    extra_trusted = [
        "harness/impl/c04schema.py (translator n.py -> Gen/Schema.lean) incl. its documented RELAX table",
        "harness/impl/c04gen.py (input generators, runners around parse_rst / Postprocessor / Project.build)",
        "Drv/C04.lean JSON codecs and the `firstBad`/`whyNode` explanation helpers (the verdict itself is the verified wfJson)",
    ]

    # ---- translator ----
    def gen_tables(self):
        problems = []
        try:
            c04schema.write(LEAN_SCHEMA)
        except c04schema.Unsupported as e:
            problems.append(f"schema: unsupported {e}")
        return problems

    def static_obligations(self):
        n, classes = py_classes()
        rows = c04schema.extract()
        # the ladder of Node.serialize as the model has it: probe one value per branch on the running code
        node = n.Text((1,), "x")
        probes = []

        def ser_field(val):
            t = n.Code((1,), None, None, True, None, "v", False, None, None)
            t.caption = val  # any slot
            try:
                return t.serialize().get("caption", "<absent>")
            except NotImplementedError:
                return "<NIE>"

        want = [
            ("nested node -> serialize()", ser_field(node), node.serialize()),
            ("str verbatim", ser_field("s"), "s"),
            ("bool verbatim", ser_field(True), True),
            ("int verbatim", ser_field(5), 5),
            ("float verbatim", ser_field(1.5), 1.5),
            ("empty dict omitted", ser_field({}), "<absent>"),
            ("non-empty dict verbatim", ser_field({"a": {1}}), {"a": {1}}),
            ("enum -> name", ser_field(n.ListEnumType.arabic), "arabic"),
            ("list: serialize() where available", ser_field([node, 3, n.TocTreeDirectiveEntry("t", None, "", None)]),
             [node.serialize(), 3, {"title": "t"}]),
            ("tuple like list", ser_field((1, 2)), [1, 2]),
            ("NamedTuple field value is a tuple of its members", ser_field(n.TocTreeDirectiveEntry("t", None, None, None)),
             ["t", None, None, None]),
            ("FileId -> as_posix", ser_field(n.FileId("a/b.txt")), "a/b.txt"),
            ("None omitted", ser_field(None), "<absent>"),
            ("set -> NotImplementedError", ser_field({1}), "<NIE>"),
            ("bytes -> NotImplementedError", ser_field(b"x"), "<NIE>"),
        ]
        for name, got, exp in want:
            probes.append((f"serialize ladder: {name}", got == exp, f"got {got!r}"))
        keys = list(node.serialize().keys())
        probes.append(("serialize writes type, position.start.line and drops span",
                       keys[:2] == ["type", "position"] and "span" not in keys and node.serialize()["position"] == {"start": {"line": 1}}, str(keys)))
        names = [r["name"] for r in rows]
        probes.append(("translator saw every Node subclass exactly once", len(set(names)) == len(names) == len(classes), str(len(names))))
        return probes

    # ---- cases ----
    def generate(self, rng, budget, tier):
        g = _gen()
        rows = c04schema.extract()
        sy = Synth(rows)
        if tier != "search":
            for nm in sy.order:
                if nm not in sy.abstract and not sy.rows[nm]["internal"]:
                    yield {"kind": "synth", "ast": sy.node(rng, "Node", 2, cls=nm), "faults": []}
        n_synth = budget if tier != "search" else budget // 4
        for _ in range(n_synth):
            tree = sy.node(rng, "Node", rng.choice([1, 2, 3]), cls=rng.choice(["Root", "Root", None]))
            faults = []
            if rng.random() < 0.4:
                for _k in range(rng.choice([1, 1, 1, 2])):
                    f = sy.inject(rng, tree)
                    if f:
                        faults.append(f)
            yield {"kind": "synth", "ast": tree, "faults": faults}
        for _ in range(budget * 2):
            yield g.gen_rst_case(rng)
        for _ in range(max(8, budget // 10)):
            c = g.gen_project_case(rng)
            if any(k.endswith(".ast") for k in c["files"]):
                # hand-written .ast inputs are outside the input space of the property (rst, giza YAML,
                # snooty.toml): util.NodeDeserializer copies their fields through unchecked, by design
                c = dict(c, files={k: v for k, v in c["files"].items() if not k.endswith(".ast")},
                         tags=[t for t in c["tags"] if not t.startswith("ast-file")])
            yield c

    def shrink_candidates(self, case):
        g = _gen()
        if case["kind"] == "rst":
            yield from g.shrink_rst(case)
        elif case["kind"] == "project":
            yield from g.shrink_project(case)

    # ---- model ----
    def model_request(self, case):
        if case["kind"] == "synth":
            return {"op": "c04.serialize", "ast": case["ast"], "bound": "Node"}
        return None

    # ---- implementation ----
    def run_impl(self, case):
        if case["kind"] == "synth":
            return self.run_synth(case)
        g = _gen()
        res = g.run_rst(case) if case["kind"] == "rst" else g.run_project(case)
        pages = list(res.get("pages") or []) + list(res.get("then_postprocessed") or []) + list(res.get("parsed") or [])
        all_diags = []
        for p in pages:
            for d in p.get("diagnostics") or []:
                all_diags.append(d)
        reqs, idx = [], []
        unenc = set()
        for i, p in enumerate(pages):
            if p.get("ast") is not None:
                try:
                    json.dumps(p["ast"], ensure_ascii=False, allow_nan=False).encode("utf-8")
                except (UnicodeEncodeError, ValueError) as e:
                    unenc.add(i)  # lone surrogate / NaN: no JSON document at all
                    continue
                reqs.append({"op": "c04.wfjson", "doc": p["ast"], "bound": "Root"})
                idx.append(i)
        resp = core.run_driver(reqs) if reqs else []
        verdicts = []
        by = dict(zip(idx, resp))
        types = set()
        for i, p in enumerate(pages):
            v = {"fileid": p.get("fileid"), "stage": p.get("stage"), "ser_exc": p.get("ser_exc"), "bson_exc": p.get("bson_exc")}
            r = by.get(i)
            if i in unenc:
                v["driver_error"] = "document holds a lone surrogate or a non-finite float"
            if r is not None:
                if "error" in r:
                    v["driver_error"] = r["error"]
                else:
                    v.update(ok=r["ok"], ok_strict=r["ok_strict"], path=r["path"], why=r["why"],
                             undestined=r["undestined"], undestined_body=r.get("undestined_body", r["undestined"]), unpinned=r["unpinned"])
                collect_types(p["ast"], types)
            verdicts.append(v)
        err_lines = sorted({d[2] for d in all_diags if str(d[1]).lower() in ERROR_LEVELS and isinstance(d[2], int)})
        err_count = {}
        for d in all_diags:
            if str(d[1]).lower() in ERROR_LEVELS and isinstance(d[2], int):
                err_count[str(d[2])] = err_count.get(str(d[2]), 0) + 1
        return {"exc": res.get("exc"), "exc_post": res.get("exc_post"), "verdicts": verdicts, "error_lines": err_lines, "error_count": err_count,
                "types": sorted(types), "metadata_bson_exc": res.get("metadata_bson_exc")}

    def run_synth(self, case):
        out = {"exc": None, "json": None, "verify": None}
        try:
            obj = build(case["ast"])
        except Exception as e:  # the real constructors refuse the value tree: not a serialize() question
            return {"exc": "build:" + type(e).__name__, "json": None, "verify": None}
        try:
            doc = obj.serialize()
        except (NotImplementedError, IndexError, TypeError) as e:
            out["exc"] = type(e).__name__
            return out
        try:
            out["json"] = json.loads(json.dumps(doc, allow_nan=False))
        except TypeError:
            out["exc"] = "EncodeError"
            return out
        try:
            obj.verify()
            out["verify"] = "ok"
        except AssertionError:
            out["verify"] = "AssertionError"
        except Exception as e:
            out["verify"] = type(e).__name__
        return out

    def compare(self, case, model, impl):
        if case["kind"] != "synth":
            return None
        if (impl["exc"] or "").startswith("build:"):
            return None
        if "err" in model:
            if impl["exc"] is None:
                return f"model raises {model['err']}, implementation returned a document"
            if len(case["faults"]) <= 1 and impl["exc"] != model["err"]:
                return f"model raises {model['err']}, implementation raised {impl['exc']}"
            if model["wf"]:
                return "model: wf AST raises (contradicts serialize_total)"
            return None
        if impl["exc"] is not None:
            return f"implementation raised {impl['exc']}, model returned a document"
        if model["ok"] != impl["json"]:
            return f"documents differ: model {json.dumps(model['ok'])[:300]} impl {json.dumps(impl['json'])[:300]}"
        if model["wf"] and not model["wfjson"]:
            return "model: wf AST with ill-formed document (contradicts serialize_wfJson)"
        if impl["verify"] == "AssertionError" and model["wf_strict"]:
            return "real verify() rejects an AST the model's strict wf accepts"
        if not case["faults"] and not model["wf"]:
            return "generator bug or schema drift: fault-free synthetic AST is not wf"
        return None

    # ---- the property itself on the implementation's output ----
    def oracle(self, case, impl):
        if case["kind"] == "synth":
            return None
        und_total = {}
        for v in impl["verdicts"]:
            where = f"{v['fileid']}@{v['stage']}"
            if v.get("ser_exc"):
                return f"serialize() raised {v['ser_exc']} [{where}]"
            if v.get("bson_exc"):
                return f"bson.encode raised {v['bson_exc']} [{where}]"
            if v.get("driver_error"):
                return f"serialized page is no JSON document: {v['driver_error']} [{where}]"
            if "ok" not in v:
                continue
            if not v["ok"]:
                return f"ill-formed page: {v['why']} at {v['path']} [{where}]"
            if v["unpinned"]:
                return f"node type not in the published contract: {v['unpinned']} [{where}]"
            if v["stage"] == "post" and str(v["fileid"]).endswith(".txt"):
                for line in v["undestined"]:
                    if line not in impl["error_lines"]:
                        return f"ref_role without destination and without error diagnostic on its line {line} [{where}]"
                # every unresolved reference of a page BODY needs its OWN error diagnostic: one reported for another page
                # (or another inclusion of the same file) at the same line number does not excuse this one. Copies of a
                # heading in the root's options (ia / toc titles) share the diagnostic of the heading they were copied from.
                for line in v.get("undestined_body", v["undestined"]):
                    und_total[line] = und_total.get(line, 0) + 1
                    if und_total[line] > impl.get("error_count", {}).get(str(line), 0):
                        return f"more ref_roles without destination on line {line} than error diagnostics on that line in the whole build [{where}]"
        if impl.get("metadata_bson_exc"):
            return f"bson.encode(metadata) raised {impl['metadata_bson_exc']}"
        return None

    def finding_key(self, case, impl, desc):
        d = re.sub(r" \[[^\]]*\]$", "", desc)
        m = re.search(r"(\w+)\.(\w+): holds \[([^\]]*)\] where only (\w+) is allowed", d)
        if m:
            tags = sorted(set(t.strip() for t in m.group(3).split(",")))
            return f"containment: {'+'.join(tags)} under {m.group(1)}.{m.group(2)}"
        d = re.sub(r" at /.*$", "", d)
        d = re.sub(r"0x[0-9a-fA-F]+", "0x..", d)
        d = re.sub(r"line \d+", "line N", d)
        d = re.sub(r"\d{3,}", "N", d)
        d = re.sub(r"position \d+", "position N", d)
        return d[:160]

    def nontrivial_key(self, case, impl):
        if case["kind"] == "synth":
            return json.dumps(case["ast"], sort_keys=True) if impl.get("exc") is None or case["faults"] else None
        if len(impl.get("types") or []) >= 3:
            return json.dumps({k: v for k, v in case.items() if k != "origin"}, sort_keys=True)
        return None

    def branch_tags(self, case, model, impl):
        tags = [case["kind"]]
        if case["kind"] == "synth":
            tags += ["fault:" + f for f in case["faults"]] or ["fault-free"]
            if model:
                tags.append("model:" + (model.get("err") or "ok"))
                tags.append("wf" if model.get("wf") else "not-wf")
            if impl.get("verify"):
                tags.append("verify:" + impl["verify"])
            return tags
        if impl.get("exc"):
            tags.append("exc:" + str(impl["exc"]).split(":")[0])
        if impl.get("exc_post"):
            tags.append("exc_post:" + str(impl["exc_post"]).split(":")[0])
        tags += ["type:" + t for t in impl.get("types") or []]
        for v in impl["verdicts"]:
            tags.append("page@" + str(v["stage"]))
            if v.get("undestined"):
                tags.append("undestined@" + str(v["stage"]))
        try:
            tags += [t for t in _gen().CONSTRUCT_TAGS(case, None) if not t.startswith("type:")]
        except Exception:
            pass
        return sorted(set(tags))

    def sample(self, case, impl):
        c = dict(case)
        if case["kind"] == "synth":
            return {"case": c, "impl": impl}
        return {"case": c, "verdicts": impl["verdicts"][:4], "types": impl.get("types")}


def collect_types(doc, acc):
    if isinstance(doc, dict):
        t = doc.get("type")
        if isinstance(t, str) and "position" in doc:
            acc.add(t)
            if t == "directive" and isinstance(doc.get("name"), str):
                pass
        for v in doc.values():
            collect_types(v, acc)
    elif isinstance(doc, list):
        for v in doc:
            collect_types(v, acc)


PROP = C04()
