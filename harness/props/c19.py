"""C19 — man page rendering keeps all text and never lets text become a troff request."""
import copy
import json
import logging
import re
import sys

import core
from impl import pp
from snooty import n
from snooty.builders import man
from snooty.diagnostics import CannotOpenFile, UnsupportedFormat
from snooty.types import BundleConfig, ManPageConfig

logging.getLogger("snooty.builders.man").disabled = True

# ----------------------------------------------------------------------------------------
# case AST (JSON) -> n.* nodes.  kinds = constructors of SnootyVerif.Man.Ast; "cls" picks the
# concrete Python class where several classes share one behaviour in SnootyToTroffTree.
# ----------------------------------------------------------------------------------------
S = (0,)
PASS_CLS = ["Directive", "Role", "FootnoteReference", "SubstitutionReference", "BlockSubstitutionReference",
            "DefinitionList", "Root"]
DROP_CLS = ["Footnote", "SubstitutionDefinition", "Line", "LineBlock", "TocTreeDirective", "InlineTarget",
            "NamedReference", "Field", "FieldList", "Transition", "Table", "Comment", "Label"]
DROP_NO_CHILDREN = {"NamedReference", "Transition"}
STRONG_CLS = ["Strong", "RefRole"]


def build(j):
    t = j["t"]
    kids = [build(c) for c in j.get("c", [])]
    if t == "text":
        return n.Text(S, j["v"])
    if t == "code":
        return n.Code(S, None, None, False, None, j["v"], False, None, None)
    if t == "heading":
        return n.Heading(S, kids, "hid")
    if t == "section":
        return n.Section(S, kids)
    if t == "paragraph":
        return n.Paragraph(S, kids)
    if t == "pass":
        cls = j.get("cls", "Directive")
        if cls == "Directive":
            return n.Directive(S, kids, "", "note", [], {})
        if cls == "Role":
            return n.Role(S, kids, "", "guilabel", "", "")
        if cls == "FootnoteReference":
            return n.FootnoteReference(S, kids, "id1", None)
        if cls == "SubstitutionReference":
            return n.SubstitutionReference(S, kids, "sub")
        if cls == "BlockSubstitutionReference":
            return n.BlockSubstitutionReference(S, kids, "sub")
        if cls == "DefinitionList":
            return n.DefinitionList(S, kids)
        if cls == "Root":
            return n.Root(S, kids, n.FileId("inner.txt"), {})
        raise ValueError(cls)
    if t == "drop":
        cls = j.get("cls", "Comment")
        if cls == "Footnote":
            return n.Footnote(S, kids, "f1", None)
        if cls == "SubstitutionDefinition":
            return n.SubstitutionDefinition(S, kids, "sub")
        if cls == "Line":
            return n.Line(S, kids)
        if cls == "LineBlock":
            return n.LineBlock(S, kids)
        if cls == "TocTreeDirective":
            return n.TocTreeDirective(S, kids, "", "toctree", [], {}, [])
        if cls == "InlineTarget":
            return n.InlineTarget(S, kids, "std", "term", None, None)
        if cls == "NamedReference":
            return n.NamedReference(S, "name", "http://example.com/.x")
        if cls == "Field":
            return n.Field(S, kids, "f", "F")
        if cls == "FieldList":
            return n.FieldList(S, kids)
        if cls == "Transition":
            return n.Transition(S)
        if cls == "Table":
            return n.Table(S, kids)
        if cls == "Comment":
            return n.Comment(S, kids)
        if cls == "Label":  # no handle_Label: "Unknown node type", dropped
            return n.Label(S, kids)
        raise ValueError(cls)
    if t == "defItem":
        return n.DefinitionListItem(S, kids, [build(c) for c in j.get("term", [])])
    if t == "listItem":
        return n.ListNodeItem(S, kids)
    if t == "list":
        return n.ListNode(S, kids, n.ListEnumType.arabic if j["ordered"] else n.ListEnumType.unordered, None)
    if t == "target":
        return n.Target(S, kids, "std", "option", None, None)
    if t == "targetId":
        return n.TargetIdentifier(S, kids, ["id"])
    if t == "dirArg":
        return n.DirectiveArgument(S, kids)
    if t == "reference":
        return n.Reference(S, kids, j["uri"], "ref")
    if t == "strong":
        if j.get("cls", "Strong") == "RefRole":
            return n.RefRole(S, kids, "std", "ref", "tgt", "", ("index", ""), None)
        return n.Strong(S, kids)
    if t == "literal":
        return n.Literal(S, kids)
    if t == "emphasis":
        return n.Emphasis(S, kids)
    raise ValueError(t)


def render_real(case_ast, name, section):
    page = pp.page("index.txt", [build(c) for c in case_ast.get("c", [])])
    try:
        res = man.render(page, name, "title", section)
    except Exception as e:  # noqa
        return {"exc": type(e).__name__, "out": None}
    (fid, body), = res.items()
    return {"exc": None, "out": body, "fileid": fid.as_posix()}


def walk(j):
    yield j
    for k in ("term", "c"):
        for c in j.get(k, []):
            yield from walk(c)


def strings_of(j):
    """every document string of the case, in a fixed order: (node, key)"""
    out = []
    for node in walk(j):
        if node["t"] in ("text", "code"):
            out.append((node, "v"))
        elif node["t"] == "reference":
            out.append((node, "uri"))
    return out


def token(i):
    return "x" + "".join("abcdefghij"[int(d)] for d in f"{i:04d}")


TOKEN_RE = re.compile(r"x[a-j]{4}")


def benign(ast):
    """same structure, every document string replaced by a unique letters-only token"""
    b = copy.deepcopy(ast)
    originals = []
    for i, (node, key) in enumerate(strings_of(b)):
        originals.append(node[key])
        node[key] = token(i)
    return b, originals


# ----------------------------------------------------------------------------------------
# oracle pieces: macro grammar and escape grammar, both read off man.py
# ----------------------------------------------------------------------------------------
MACRO_RE = re.compile(r"\.(TH [^\n]*|S[HS]( [^\n]*)?|PP|IP( \\\(bu [0-9]+)?|RS|RE|EX|EE)\Z")
ESCAPES = {"e": "\\", "-": "-", "'": "´", "&": ""}
NAMED = {"aq": "'", "ga": "`", "bu": "•", "dq": "\""}   # dq: how a double quote is written inside a macro argument
BARE_SPECIAL = "-'´`"


def tokenise(s):
    """-> (list of ('c', char) | ('font', x), None) or (None, error description)"""
    out = []
    i, ln = 0, len(s)
    while i < ln:
        ch = s[i]
        if ch == "\\":
            nx = s[i + 1] if i + 1 < ln else ""
            if nx in ESCAPES and nx:
                out.append(("c", ESCAPES[nx]))
                i += 2
            elif nx == "(" and s[i + 2:i + 4] in NAMED:
                out.append(("c", NAMED[s[i + 2:i + 4]]))
                i += 4
            elif nx == "f" and s[i + 2:i + 3] in ("B", "I", "1") and s[i + 2:i + 3]:
                out.append(("font", s[i + 2]))
                i += 3
            else:
                return None, f"stray-backslash: {s[max(0, i - 10):i + 6]!r}"
        elif ch in BARE_SPECIAL:
            return None, f"unescaped-char {ch!r}: {s[max(0, i - 10):i + 6]!r}"
        else:
            out.append(("c", ch))
            i += 1
    return out, None


def control_lines(out):
    return [l for l in out.split("\n") if l[:1] in (".", "'")]


def body_text(out):
    """the output without its control lines, unescaped, fonts dropped -> (text, fonts, err)"""
    rest = "\n".join(l for l in out.split("\n") if l[:1] not in (".", "'"))
    toks, err = tokenise(rest)
    if err:
        return None, None, err
    return "".join(v for k, v in toks if k == "c"), [v for k, v in toks if k == "font"], None


def squeeze(s):
    return s.replace(" ", "").replace("\n", "")


def expected_strings(ast):
    """indices (into strings_of(ast)) of the document strings a man page must show in its body, in
    document order -- the oracle's own reading of "text taken from the document": text and code
    leaves, link targets after their link text, names of described targets before the description;
    not: headings (they go to .SH/.SS), comments/tables/footnotes/..., bare labels."""
    index = {id(node): i for i, (node, key) in enumerate(strings_of(ast))}
    out = []

    def get_text(j):  # n.Node.get_text
        t = j["t"]
        if t == "text":
            return [index[id(j)]]
        if t == "code":
            return []
        if t == "literal":
            return [index[id(c)] for c in j.get("c", []) if c["t"] in ("text", "code")]
        return [i for c in j.get("c", []) for i in get_text(c)]

    def go(j):
        t = j["t"]
        kids = j.get("c", [])
        if t in ("text", "code"):
            out.append(index[id(j)])
        elif t in ("heading", "drop", "dirArg", "targetId"):
            return
        elif t == "reference":
            for c in kids:
                go(c)
            out.append(index[id(j)])
        elif t == "target":
            if not kids or all(c["t"] in ("targetId", "dirArg") for c in kids):
                return
            for c in kids:
                if c["t"] == "targetId":
                    out.extend(get_text(c))
            for c in kids:
                go(c)
        elif t == "defItem":
            for c in j.get("term", []):
                go(c)
            for c in kids:
                go(c)
        else:
            for c in kids:
                go(c)
    go(ast)
    return out


def scoped_py(ast):
    """restatement of Ast.scoped (Model/ManScoped.lean): a list item only below a list; dropped nodes are not looked into"""
    def go(j, in_list):
        t = j["t"]
        if t in ("text", "code", "heading", "drop", "targetId", "dirArg"):
            return True
        if t == "listItem" and not in_list:
            return False
        inl = True if t == "list" else in_list
        return all(go(c, inl) for c in j.get("term", [])) and all(go(c, inl) for c in j.get("c", []))
    return go(ast, False)


def wellformed(ast):
    """pages the parser can build: sections have a heading, list items sit in a list"""
    def go(j, in_list):
        t = j["t"]
        kids = j.get("c", [])
        if t == "section" and not any(c["t"] == "heading" for c in kids):
            return False
        if t == "listItem" and not in_list:
            return False
        # (a target with a description but no identifier IS built by the parser: `.. option:: =` + description)
        if t == "drop":
            return True  # never visited by the builder
        if t == "heading":
            return True
        inl = in_list or t == "list"
        return all(go(c, inl) for c in j.get("term", [])) and all(go(c, inl) for c in kids)
    return go(ast, False)


# ----------------------------------------------------------------------------------------
# generator
# ----------------------------------------------------------------------------------------
PIECES = ["foo", ".bar", "\n", "\n.", "'", "\n'", "\\", "\\\\", "-", "`", "´", ".", " ", "baz qux", "\\fB", "\\&",
          "é", "ß", "ǆ", ".PP", ".SH X", "\n.PP\n", "\"", "x", "..", "\n\n", ".\n.", "'\n'", "--opt", "a\\b", "\\e",
          "\n.IP \\(bu 2\n", "'br", ".EE", "\t", "ﬁ", "\\(aq", "\\n",
          # a carriage return is a character like another (a file shown verbatim may have been saved with old Mac line ends): what
          # follows it is still document text, whatever it starts with
          "\r.so /etc/passwd", "\r", "\r\n.TH x 1", "\r'"]


def gen_text(rng, lo=0, hi=4):
    return "".join(rng.choice(PIECES) for _ in range(rng.randint(lo, hi)))


def gen_inline(rng, depth):
    r = rng.random()
    if depth <= 0 or r < 0.45:
        return {"t": "text", "v": gen_text(rng, 0 if rng.random() < 0.1 else 1)}
    kids = [gen_inline(rng, depth - 1) for _ in range(rng.randint(0, 3))]
    k = rng.choice(["strong", "strong", "emphasis", "emphasis", "literal", "reference", "pass", "drop", "strong"])
    if k == "strong":
        return {"t": "strong", "cls": rng.choice(STRONG_CLS), "c": kids}
    if k == "reference":
        return {"t": "reference", "uri": rng.choice(["http://h/", "https://a.b/c-d?e=.f", gen_text(rng, 1, 3)]), "c": kids}
    if k == "pass":
        return {"t": "pass", "cls": rng.choice(["Role", "FootnoteReference", "SubstitutionReference"]), "c": kids}
    if k == "drop":
        cls = rng.choice(["InlineTarget", "NamedReference"])
        return {"t": "drop", "cls": cls, "c": [] if cls in DROP_NO_CHILDREN else kids}
    return {"t": k, "c": kids}


def gen_inlines(rng, depth, lo=1, hi=3):
    return [gen_inline(rng, depth) for _ in range(rng.randint(lo, hi))]


def gen_block(rng, depth, malformed):
    r = rng.random()
    if depth <= 0 or r < 0.3:
        kids = gen_inlines(rng, 2)
        if malformed and rng.random() < 0.3:
            kids.insert(rng.randint(0, len(kids)), gen_block(rng, depth - 1, malformed))
        return {"t": "paragraph", "c": kids}
    if r < 0.4:
        return {"t": "code", "v": gen_text(rng, 0, 5)}
    if r < 0.52:
        kids = [{"t": "heading", "c": gen_inlines(rng, 1)}] if (not malformed or rng.random() < 0.7) else []
        kids += gen_blocks(rng, depth - 1, malformed)
        if malformed and rng.random() < 0.2:
            rng.shuffle(kids)
        return {"t": "section", "c": kids}
    if r < 0.64:
        items = [{"t": "listItem", "c": gen_blocks(rng, depth - 1, malformed, 0, 2)} for _ in range(rng.randint(0, 3))]
        return {"t": "list", "ordered": rng.random() < 0.3, "c": items}
    if r < 0.74:
        items = [{"t": "defItem", "term": gen_inlines(rng, 1, 0, 2), "c": gen_blocks(rng, depth - 1, malformed, 0, 2)}
                 for _ in range(rng.randint(1, 2))]
        return {"t": "pass", "cls": "DefinitionList", "c": items}
    if r < 0.84:
        ids = [{"t": "targetId", "c": [{"t": "text", "v": gen_text(rng, 1, 2)}] if rng.random() < 0.8 else []}
               for _ in range(rng.randint(0 if malformed else 1, 3))]
        head = [{"t": "dirArg", "c": [{"t": "text", "v": gen_text(rng, 1, 2)}]}] if rng.random() < 0.5 else []
        desc = gen_blocks(rng, depth - 1, malformed, 0, 2)
        return {"t": "target", "c": head + ids + desc}
    if r < 0.92:
        return {"t": "pass", "cls": rng.choice(["Directive", "BlockSubstitutionReference", "Root"] if malformed else ["Directive", "BlockSubstitutionReference"]),
                "c": gen_blocks(rng, depth - 1, malformed, 0, 3)}
    if r < 0.97:
        cls = rng.choice([c for c in DROP_CLS if c not in ("InlineTarget", "NamedReference")])
        return {"t": "drop", "cls": cls, "c": [] if cls in DROP_NO_CHILDREN else gen_blocks(rng, depth - 1, malformed, 0, 2)}
    if not malformed and r < 0.985:
        return gen_inline(rng, 2)   # inline node directly in a block position (directive bodies allow it)
    if malformed:
        return rng.choice([
            {"t": "listItem", "c": gen_blocks(rng, depth - 1, malformed, 0, 2)},
            gen_inline(rng, 2),
            {"t": "heading", "c": gen_inlines(rng, 1)},
            {"t": "targetId", "c": gen_inlines(rng, 1)},
        ])
    return {"t": "paragraph", "c": gen_inlines(rng, 3)}


def gen_blocks(rng, depth, malformed, lo=1, hi=3):
    return [gen_block(rng, depth, malformed) for _ in range(rng.randint(lo, hi))]


NAMES = ["mongo", "x", "mongo-shell", "a.b", "db_1", "m-2.x"]


def fixed_cases():
    def para(*kids):
        return {"t": "paragraph", "c": list(kids)}

    def tx(v):
        return {"t": "text", "v": v}
    asts = [
        [para(tx("foo\n.bar baz"))],                                   # D17: the refutation witness
        [para(tx("a\\b"))],                                            # D17: single backslash
        [para(tx("foo\n"), tx(".bar"))],
        [para(tx("foo\n.PP\nbar"))],                                   # text that looks like one of the macros
        [para(tx("foo\n'br"))],
        [{"t": "section", "c": [{"t": "heading", "c": [tx("a\\b\n.c-d")]}, para(tx("'x"))]}],
        [{"t": "code", "v": ".foo\n.bar\n'baz"}],
        [para({"t": "reference", "uri": "http://h", "c": [tx("x")]},
              {"t": "strong", "c": [tx("y"), {"t": "emphasis", "c": [tx("z"), {"t": "strong", "c": [tx("w")]}]}]})],
        [{"t": "target", "c": [{"t": "targetId", "c": [tx("--opt")]}, {"t": "targetId", "c": [tx(".o")]}, para(tx(".desc"))]}],
        [{"t": "list", "ordered": False, "c": [{"t": "listItem", "c": [para(tx("a")), para(tx(".b")),
          {"t": "list", "ordered": True, "c": [{"t": "listItem", "c": [para(tx("c"))]}]}]}]}],
        [{"t": "pass", "cls": "DefinitionList", "c": [{"t": "defItem", "term": [tx(".term")], "c": [para(tx("def\n.x"))]}]}],
        [para({"t": "emphasis", "c": [tx("e")]}), para({"t": "strong", "c": [{"t": "strong", "c": [tx("s")]}]})],
        [{"t": "section", "c": [para(tx("no heading"))]}],                   # AssertionError
        [{"t": "listItem", "c": [para(tx("stray"))]}],                       # AssertionError
        [{"t": "target", "c": [para(tx("desc without id"))]}],               # IndexError
        [para(tx("")), para(tx("x")), {"t": "code", "v": ""}],
        [{"t": "reference", "uri": "http://last", "c": [tx("x")]}],           # pending " (href)" at the very end
        [para({"t": "reference", "uri": "u", "c": [tx("x")]}, {"t": "code", "v": "c"})],  # pending text when a macro starts
        [para({"t": "reference", "uri": "u", "c": [tx("x")]}, {"t": "list", "ordered": False, "c": []})],
    ]
    for a in asts:
        yield {"kind": "fixed", "name": "x", "section": 1, "ast": {"t": "pass", "cls": "Root", "c": a}}


class C19(core.PropertyCheck):
    id = "C19"
    quick_budget = 8000
    thorough_budget = 60000
    rule = ("random n.* page ASTs (sections with headings, paragraphs, code, nested lists, definition lists, targets with "
            "identifiers and descriptions, directives, dropped classes; inline: text/strong/RefRole/emphasis/literal/reference/role) "
            "whose strings are drawn from pieces containing newline+'.', newline+\"'\", backslashes, hyphens, quotes, backticks, acute, "
            "macro look-alikes (.PP, .SH X, .IP \\(bu 2), non-ASCII with expanding upper(); 15% malformed trees (section without heading, "
            "stray list item, target without identifier, inline in block position). Each AST is rendered by the real "
            "snooty.builders.man.render, byte-compared with the Lean model and judged by the oracle (macro grammar, macro sequence equal to "
            "that of the same tree with letters-only strings, escape grammar, unescaped text equal to the document text in order, last font = roman). "
            "non-trivial = the page holds a '.' or \"'\" at the start of a text line, or a backslash; distinct by case content")
    assumptions = [
        "str.upper() acts character by character (parameter `up` of the model; the table for the characters of each case is taken from the running Python)",
        "groff's interpretation of the emitted escapes (\\e, \\-, \\(aq, \\', \\(ga, \\&) is not modelled",
        "strings hold no lone surrogates",
    ]
    extra_trusted = ["the macro grammar and escape table in harness/props/c19.py (read off man.py: macro(), troff_escape)"]

    # ---- obligations checked on the running Python ----
    def static_obligations(self):
        bad = []
        for cp in range(sys.maxunicode + 1):
            if 0xD800 <= cp <= 0xDFFF:
                continue
            u = chr(cp).upper()
            if "\n" in u and cp != 10:
                bad.append(cp)
        pieces = "".join(PIECES)
        ctxfree = pieces.upper() == "".join(c.upper() for c in pieces)
        return [
            ("upper() of a non-newline character holds no newline (all code points)", not bad, str(bad[:5])),
            ("upper() is character-wise on the generator alphabet", ctxfree, ""),
            ("renderer macro names are those of the oracle grammar",
             set(re.findall(r'macro\(\s*"([A-Z]+)"', (core.REPO / "snooty/builders/man.py").read_text())
                 ) | {"SH", "SS"} == {"TH", "SH", "SS", "PP", "IP", "RS", "RE", "EX", "EE"}, ""),
        ]

    # ---- cases ----
    def generate(self, rng, budget, tier):
        if tier != "search":
            yield from fixed_cases()
            for p in PIECES:
                for q in ["", "\n", "a"]:
                    yield {"kind": "piece", "name": "x", "section": 1,
                           "ast": {"t": "pass", "cls": "Root", "c": [{"t": "paragraph", "c": [{"t": "text", "v": q + p}]},
                                                                        {"t": "code", "v": q + p}]}}
        for _ in range(budget):
            malformed = rng.random() < 0.15
            ast = {"t": "pass", "cls": "Root", "c": gen_blocks(rng, rng.choice([1, 2, 2, 3]), malformed, 1, 3)}
            yield {"kind": "malformed" if malformed else "rand", "name": rng.choice(NAMES), "section": rng.choice([1, 5, 8]), "ast": ast}

    def shrink_candidates(self, case):
        if "ast" not in case:
            return
        ast = case["ast"]
        nodes = list(walk(ast))
        for idx, node in enumerate(nodes):
            for key in ("c", "term"):
                kids = node.get(key, [])
                for i in range(len(kids)):
                    for repl in ([], kids[i].get("c", []) if kids[i]["t"] not in ("text", "code") else None):
                        if repl is None:
                            continue
                        new = copy.deepcopy(ast)
                        tgt = list(walk(new))[idx]
                        tgt[key] = tgt[key][:i] + copy.deepcopy(repl) + tgt[key][i + 1:]
                        yield {**case, "ast": new}
        for idx, node in enumerate(nodes):
            for key in ("v", "uri"):
                s = node.get(key)
                if isinstance(s, str) and s:
                    cuts = [(0, len(s) // 2), (len(s) // 2, len(s))] + [(i, i + 1) for i in range(len(s))]
                    for a, b in cuts:
                        if a == b:
                            continue
                        new = copy.deepcopy(ast)
                        tgt = list(walk(new))[idx]
                        tgt[key] = s[:a] + s[b:]
                        yield {**case, "ast": new}

    # ---- implementation ----
    def run_impl(self, case):
        if case.get("kind") == "config":
            return self.run_config(case)
        real = render_real(case["ast"], case["name"], case["section"])
        b_ast, originals = benign(case["ast"])
        ben = render_real(b_ast, case["name"], case["section"])
        return {"exc": real["exc"], "out": real["out"], "fileid": real.get("fileid"),
                "benign_exc": ben["exc"], "benign_out": ben["out"], "originals": originals,
                "expected": expected_strings(case["ast"]),
                "wellformed": wellformed(case["ast"])}

    # ---- model ----
    def model_request(self, case):
        chars = set(case["name"])
        for node, key in strings_of(case["ast"]):
            chars.update(node[key])
        up = [[c, c.upper()] for c in sorted(chars) if c.upper() != c]
        # strings escaped by the REAL troff_escape, to be read back by the model's `unesc` (theorem escape_roundtrip)
        from snooty.builders.man import troff_escape
        plain = sorted({node[key] for node, key in strings_of(case["ast"])})[:12]
        case["_plain"] = plain
        return {"op": "c19.render", "name": case["name"], "section": str(case["section"]), "up": up, "ast": case["ast"],
                "escaped": [troff_escape(v) for v in plain]}

    def compare(self, case, model, impl):
        if model.get("exc") != impl["exc"]:
            return f"exception differs: model {model.get('exc')} impl {impl['exc']}"
        if model.get("scoped") and impl["exc"] is not None:
            return f"render_total: the page is scoped (list items only below lists) but the implementation raised {impl['exc']}"
        if model.get("scoped") != scoped_py(case["ast"]):
            return f"Ast.scoped differs from its Python restatement: model {model.get('scoped')}"
        plain = case.get("_plain", [])
        if model.get("unesc") is not None and list(model["unesc"]) != list(plain):
            k = next(i for i, (a, b) in enumerate(zip(model["unesc"], plain)) if a != b) if len(model["unesc"]) == len(plain) else -1
            return (f"escape_roundtrip: the real troff_escape output is not read back to the text by the model's unesc: "
                    f"text {plain[k]!r} -> {model['unesc'][k]!r}")
        if impl["exc"] is None and model["out"] != impl["out"]:
            a, b = model["out"], impl["out"]
            i = next((k for k in range(min(len(a), len(b))) if a[k] != b[k]), min(len(a), len(b)))
            return f"output differs at {i}: model {a[max(0, i - 20):i + 20]!r} impl {b[max(0, i - 20):i + 20]!r}"
        return None

    # ---- direct oracle (the property itself, on the implementation's output only) ----
    def oracle(self, case, impl):
        if case.get("kind") == "config":
            return self.config_oracle(case, impl)
        if impl["exc"] is not None:
            if impl["wellformed"]:
                return f"exception-on-wellformed-page: {impl['exc']}"
            return None
        out, ben = impl["out"], impl["benign_out"]
        if impl.get("fileid") != f"{case['name']}.{case['section']}":
            return f"wrong-file-name: {impl.get('fileid')}"
        # (a) every control line is one of the renderer's macros
        for l in control_lines(out):
            if not MACRO_RE.match(l):
                return f"control-line-not-macro: {l!r}"
        # (a') ... and a macro argument holds its text as text: a bare double quote there is troff's argument quoting (the quote
        #      characters are not output, an unbalanced one swallows the rest of the line as one argument), not a character
        for l in control_lines(out):
            if l.split(" ")[0] in (".SH", ".SS", ".TH") and '"' in l:
                return f"macro-argument-quote: document text reaches the argument of {l.split(' ')[0]} with a bare double quote: {l!r}"
        # (b) ... and is not produced by document text: the same tree with letters-only strings
        #     (where text cannot start a line with a control character) has the same macro sequence
        if impl["benign_exc"] is not None:
            return f"benign-twin-raised: {impl['benign_exc']}"
        seq = [l.split(" ")[0] for l in control_lines(out)]
        bseq = [l.split(" ")[0] for l in control_lines(ben)]
        if seq != bseq:
            return f"text-originated-control-line: macros {seq} but structure gives {bseq}"
        # (c) macros sit on lines of their own (judged on the twin, whose text holds no '.')
        for l in ben.split("\n"):
            if l[:1] == ".":
                if not MACRO_RE.match(l):
                    return f"control-line-not-macro: twin {l!r}"
            elif "." in l:
                return f"macro-not-on-own-line: twin {l!r}"
        # (d) escape grammar on every line: no bare special character, no stray backslash
        for l in out.split("\n"):
            toks, err = tokenise(l[1:] if l[:1] == "." else l)
            if err:
                return err
        # (e) text kept, in order, escaped: unescaped body == twin body with the original strings put back
        body, fonts, err = body_text(out)
        bbody, _, berr = body_text(ben)
        if err or berr:
            return err or berr
        originals = impl["originals"]
        shown = [int("".join(str("abcdefghij".index(c)) for c in m[1:])) for m in TOKEN_RE.findall(bbody)]
        if shown != impl["expected"]:
            i = next((k for k in range(min(len(shown), len(impl["expected"]))) if shown[k] != impl["expected"][k]),
                     min(len(shown), len(impl["expected"])))
            return (f"text-lost-or-reordered: body shows document strings {shown[max(0, i - 3):i + 3]} where "
                    f"{impl['expected'][max(0, i - 3):i + 3]} are due (position {i})")
        expect = TOKEN_RE.sub(lambda m: originals[int("".join(str("abcdefghij".index(c)) for c in m.group(0)[1:]))], bbody)
        if squeeze(body) != squeeze(expect):
            a, b = squeeze(body), squeeze(expect)
            i = next((k for k in range(min(len(a), len(b))) if a[k] != b[k]), min(len(a), len(b)))
            return f"text-mismatch: at {i} got {a[max(0, i - 15):i + 15]!r} want {b[max(0, i - 15):i + 15]!r}"
        # (f) fonts closed
        if fonts and fonts[-1] != "1":
            return f"font-not-closed: font escapes {fonts[-6:]}"
        return None

    def finding_key(self, case, impl, desc):
        return desc.split(":")[0].split(" ")[0]

    def nontrivial_key(self, case, impl):
        for node, key in strings_of(case["ast"]):
            s = node[key]
            if "\\" in s or s[:1] in (".", "'") or "\n." in s or "\n'" in s:
                return json.dumps(case, sort_keys=True)
        return None

    def branch_tags(self, case, model, impl):
        tags = [case["kind"]]
        if impl["exc"]:
            return tags + ["exc:" + impl["exc"]]
        out = impl["out"]
        for m in ("SH", "SS", "PP", "IP", "RS", "EX"):
            if f"\n.{m}" in out:
                tags.append("macro:" + m)
        if "\\&." in out:
            tags.append("guarded-dot")
        if "\n\\&." in out:
            tags.append("guarded-dot-after-newline")
        if "\\e" in out:
            tags.append("backslash")
        if "\\fI" in out and "\\fB" in out:
            tags.append("both-fonts")
        if model and any(c[0] == "r" and c[1] == "\n" for c in model.get("chunks", [])):
            tags.append("newline-before-macro")
        return tags

    def sample(self, case, impl):
        return {"case": case, "out": impl.get("out"), "exc": impl.get("exc")}

    # ---- build_manpages: missing pages / bundle formats ----
    GOOD_BUNDLES = ["m.tar", "m.tar.gz", "dir/m.tar.gz", "a.b.tar"]
    BAD_BUNDLES = ["m.goofy", "m", "m.gz", "m.tar.bz2", "tar", "m.tgz", "m.tar.gz.asc"]
    EITHER_BUNDLES = [".tar", "m.TAR"]   # naming conventions on which the property takes no side

    def run_config(self, case):
        b, missing, have = case["bundle"], case["missing"], case["have"]
        mp = {}
        if have:
            mp["mongo"] = ManPageConfig("index.txt", "T", 1)
            mp["m2"] = ManPageConfig("index.txt", "T", 8)
        if missing:
            mp["gone"] = ManPageConfig("gone.txt", "T", 1)
        cfg = pp.config(manpages=mp, bundle=BundleConfig(b))
        page = pp.page("index.txt", [n.Paragraph(S, [pp.text("hi\n.there")])])
        want_body = list(man.render(page, "mongo", "T", 1).values())[0]
        try:
            res = pp.run([page], cfg)
        except Exception as e:  # noqa
            return {"exc": type(e).__name__, "msg": str(e)[:200]}
        sf = res.metadata["static_files"]
        return {"exc": None,
                "on_toml": [type(d).__name__ for d in res.diagnostics.get(n.FileId("snooty.toml"), [])],
                "all_diags": [type(d).__name__ for v in res.diagnostics.values() for d in v],
                "files": sorted(sf), "body_ok": sf.get("mongo.1") == want_body,
                "bundle_bytes": isinstance(sf.get(b), bytes) if b else False}

    def config_oracle(self, case, impl):
        b, missing, have = case["bundle"], case["missing"], case["have"]
        if impl["exc"]:
            return f"build_manpages-raised: {impl['exc']} {impl.get('msg')}"
        on_toml = impl["on_toml"]
        if on_toml.count("CannotOpenFile") != (1 if missing else 0):
            return f"build_manpages-missing-page: diagnostics {on_toml} (missing={missing})"
        if "gone.1" in impl["files"]:
            return "build_manpages-missing-page: rendered a page that does not exist"
        if have and not (impl["body_ok"] and "m2.8" in impl["files"]):
            return f"build_manpages-files: {impl['files']}"
        unsupported = "UnsupportedFormat" in on_toml
        bundled = impl["bundle_bytes"]
        if not have or b is None:
            # nothing was rendered: nothing is bundled, but a bundle name of an unknown format is a mistake in the configuration
            # whether or not there is anything to put into it
            if bundled:
                return f"build_manpages-bundle: nothing to bundle but {on_toml} {impl['files']}"
            if b in self.BAD_BUNDLES and not unsupported:
                return f"build_manpages-bundle: unknown format {b!r} not reported (no man page rendered)"
            if (b is None or b in self.GOOD_BUNDLES) and unsupported:
                return f"build_manpages-bundle: {b!r} reported as unsupported"
        else:
            if unsupported == bundled:
                return f"build_manpages-bundle: bundle {b!r}: diagnostic={unsupported} bundled={bundled}"
            if b in self.GOOD_BUNDLES and not bundled:
                return f"build_manpages-bundle: {b!r} not bundled"
            if b in self.BAD_BUNDLES and not unsupported:
                return f"build_manpages-bundle: unknown format {b!r} not reported"
        if impl["all_diags"] != on_toml:
            return f"build_manpages-diagnostics-elsewhere: {impl['all_diags']}"
        return None

    def extra_checks(self, tier, rng):
        viol = []
        n_cfg = 0
        for b in [None] + self.GOOD_BUNDLES + self.BAD_BUNDLES + self.EITHER_BUNDLES:
            for missing in (False, True):
                for have in (True, False):
                    n_cfg += 1
                    case = {"kind": "config", "bundle": b, "missing": missing, "have": have}
                    impl = self.run_config(case)
                    d = self.config_oracle(case, impl)
                    if d:
                        viol.append({"case": case, "impl": impl, "desc": d, "key": self.finding_key(case, impl, d)})
        return viol, {"build_manpages_configurations": n_cfg}


PROP = C19()
