"""C06 — include expansion transcludes exactly the included content, and terminates."""
import json
import re

import core
from impl import pp
from snooty import n
from snooty.postprocess import IncludeHandler

S, E = "START-MARK", "END-MARK"


# ---------------------------------------------------------------------------------------------
# building real ASTs from a small spec; every node gets a unique id stored in span[0]
# spec node: [kind, children] kinds: sec para list item txt cS cE cX lS lE lX   (c = comment, l = label)
# ---------------------------------------------------------------------------------------------

def build(spec, counter):
    kind, cs = spec
    i = counter[0]
    counter[0] += 1
    kids = [build(c, counter) for c in cs]
    if kind == "sec":
        return n.Section((i,), kids)
    if kind == "para":
        return n.Paragraph((i,), kids)
    if kind == "list":
        return n.ListNode((i,), kids, n.ListEnumType.unordered, None)
    if kind == "item":
        return n.ListNodeItem((i,), kids)
    if kind == "txt":
        return n.Text((i,), f"t{i}")
    if kind == "leaf":
        return n.Transition((i,))  # a block-level node that is not a Parent
    if kind == "c0":
        return n.Comment((i,), [])  # an empty comment (".." alone on a line): no children at all
    if kind[0] == "c":
        txt = {"S": S, "E": E, "X": "other", "B": S}[kind[1]]
        j = counter[0]
        counter[0] += 1
        return n.Comment((i,), [n.Text((j,), txt)])
    if kind[0] == "l":
        ids = {"S": [S], "E": [E], "X": ["other"], "B": [S, E]}[kind[1]]
        j = counter[0]
        counter[0] += 1
        return n.Target((i,), [n.TargetIdentifier((j,), [], ids)], "std", "label", None, None)
    raise ValueError(kind)


def _is_bound(node, text):
    try:
        return bool(IncludeHandler.is_bound(node, text))
    except BaseException:  # the real predicate raised: the implementation's own run will show what that does
        return False


def to_model(node, start, end):
    return {
        "id": node.span[0],
        "s": bool(start) and _is_bound(node, start),
        "e": bool(end) and _is_bound(node, end),
        "c": [to_model(c, start, end) for c in node.children] if isinstance(node, n.Parent) else [],
    }


def nested_ids(node):
    return {"id": node.span[0], "c": [nested_ids(c) for c in node.children] if isinstance(node, n.Parent) else []}


def gen_tree(rng, depth, markers):
    """random block tree; `markers` is a list of marker kinds still to place (mutable)"""
    out = []
    for _ in range(rng.randint(1, 4)):
        r = rng.random()
        if markers and r < 0.3:
            out.append([markers.pop(rng.randrange(len(markers))), []])
        elif r < 0.36:
            out.append(["leaf", []])
        elif r < 0.42:
            out.append(["c0", []])
        elif r < 0.55 or depth >= 3:
            out.append(["para", [["txt", []] for _ in range(rng.randint(0, 2))]])
        elif r < 0.75:
            out.append(["sec", gen_tree(rng, depth + 1, markers)])
        else:
            out.append(["list", [["item", gen_tree(rng, depth + 1, markers)] for _ in range(rng.randint(1, 3))]])
    return out


def resolve_inc(pages, name):
    """which file an include argument names (independent restatement): the file of exactly that name if there is one; otherwise -
    the argument may leave the extension out - the file with that name less its extension (the last one in sorted order)"""
    if name in pages:
        return name
    stem = name.rsplit(".", 1)[0] if "." in name.rsplit("/", 1)[-1] else name
    cands = sorted(f for f in pages if f.rsplit(".", 1)[0] == stem)
    return cands[-1] if cands else name


class C06(core.PropertyCheck):
    id = "C06"
    quick_budget = 4000
    thorough_budget = 60000
    rule = ("cut: random include files (sections/lists/paragraphs, depth<=4) with start/end markers as comments or labels placed at random "
            "positions, missing, duplicated, reversed, identical node for both; through the real Postprocessor (IncludeHandler) and compared "
            "node-by-node (ids in span) with the Lean model of bound_included_AST; expand: random include graphs over <=6 files incl. self/mutual "
            "cycles, diamonds, missing files, same file twice; non-trivial = at least one marker present or include graph with >=2 edges")
    assumptions = [
        "IncludeHandler.is_bound is evaluated by the real code and handed to the model as two flags per node (the index arithmetic is what is proved)",
        "fast_deep_copy (pickle) is a structural copy; independence of copies is probed on the implementation (identity + mutation), not proved",
    ]

    # ------------------------------------------------------------------ cases
    def generate(self, rng, budget, tier):
        for _ in range(budget):
            r = rng.random()
            if r < 0.6:
                choice = rng.random()
                ms = []
                want_s, want_e = rng.random() < 0.8, rng.random() < 0.8
                if want_s and rng.random() < 0.9:
                    ms.append(rng.choice(["cS", "lS"]))
                if want_e and rng.random() < 0.9:
                    ms.append(rng.choice(["cE", "lE"]))
                if choice < 0.15:
                    ms.append(rng.choice(["cS", "lS", "cE", "lE"]))  # duplicate
                if choice > 0.9 and want_s and want_e:
                    ms = ["lB"]  # one label carrying both ids
                ms += ["cX"] * rng.randint(0, 1)
                placed = list(ms)
                tree = gen_tree(rng, 0, placed)
                # markers not placed by chance are appended at top level in random order
                for m in placed:
                    tree.insert(rng.randrange(len(tree) + 1), [m, []])
                yield {"kind": "cut", "tree": tree, "start": S if want_s else None, "end": E if want_e else None,
                       "replacement": rng.random() < 0.2, "twice": rng.random() < 0.3}
            else:
                nfiles = rng.randint(1, 6)
                files = [f"f{i}.rst" for i in range(nfiles)]
                if rng.random() < 0.25:
                    # two files that differ only in their extension: an include names ONE of them
                    files.append("f0.txt")
                pages = {}
                for f in ["index.txt"] + files:
                    body = []
                    for _ in range(rng.randint(0, 4)):
                        q = rng.random()
                        if q < 0.45:
                            body.append({"inc": rng.choice(files + ["index.txt", "missing.rst"]) if rng.random() < 0.9 else f})
                            if rng.random() < 0.12:
                                body[-1]["sp"] = rng.choice(["sub/../", "./", "a/b/../../"])
                        elif q < 0.6:
                            body.append({"c": [{"inc": rng.choice(files)}]})
                        else:
                            body.append({"c": []})
                    if f == "f0.txt":
                        # the twin is a page of its own (every .txt file is): it holds no include, so that the order in which pages
                        # are processed plays no role here
                        body = [{"c": []} for _ in range(rng.randint(0, 2))]
                    pages[f] = body
                case = {"kind": "expand", "pages": pages}
                if rng.random() < 0.3:
                    # one of the included files has the shape of a page generated from giza YAML: stored under steps/<name>, its Root
                    # names the YAML file (the include handler cannot see such a page on the file stack; it has its own guard for them)
                    case["gen"] = rng.choice([f for f in files if f.endswith(".rst")])   # giza output files are .rst
                yield case

    def shrink_candidates(self, case):
        if case["kind"] == "cut":
            def variants(tree):
                for i in range(len(tree)):
                    yield tree[:i] + tree[i + 1:]
                    k, cs = tree[i]
                    if cs:
                        for v in variants(cs):
                            yield tree[:i] + [[k, v]] + tree[i + 1:]
                        yield tree[:i] + cs + tree[i + 1:] if k == "sec" else tree
            for t in variants(case["tree"]):
                if t != case["tree"]:
                    yield {**case, "tree": t}
        else:
            pages = case["pages"]
            for f in list(pages):
                if f != "index.txt":
                    yield {**case, "pages": {k: v for k, v in pages.items() if k != f}}
                for i in range(len(pages[f])):
                    yield {**case, "pages": {**pages, f: pages[f][:i] + pages[f][i + 1:]}}

    # ------------------------------------------------------------------ implementation
    def _cut_pages(self, case):
        counter = [1]
        kids = [build(s, counter) for s in case["tree"]]
        inc = pp.page("inc.rst", kids)
        opts = {}
        if case["start"]:
            opts["start-after"] = case["start"]
        if case["end"]:
            opts["end-before"] = case["end"]
        dchildren = []
        if case.get("replacement"):
            dchildren = [n.Directive((900,), [n.Paragraph((901,), [n.Text((902,), "v")])], "", "replacement", [n.Text((900,), "nm")], {}),
                         n.Paragraph((903,), [n.Text((904,), "dropped")])]
        d = n.Directive((800,), dchildren, "", "include", [n.Text((800,), "/inc.rst")], opts)
        tops = [d]
        if case.get("twice"):
            # the same bounded excerpt a second time on the page: must be an independent copy
            tops.append(n.Directive((801,), [], "", "include", [n.Text((801,), "/inc.rst")], dict(opts)))
        index = pp.page("index.txt", tops)
        self._p2 = None
        if case.get("twice"):
            # ... and a third time from another page
            self._p2 = pp.page("p2.txt", [n.Directive((802,), [], "", "include", [n.Text((802,), "/inc.rst")], dict(opts))])
        return index, inc, d

    def run_impl(self, case):
        if case["kind"] == "cut":
            index, inc, d = self._cut_pages(case)
            model_in = [to_model(inc.ast, case["start"], case["end"])]
            before = json.dumps(nested_ids(inc.ast))
            try:
                res = pp.run([index, inc] + ([self._p2] if self._p2 is not None else []))
            except Exception as e:
                return {"exc": type(e).__name__, "msg": str(e)[:200], "model_in": model_in}
            page = res.pages[n.FileId("index.txt")]
            dd = page.ast.children[0]
            diags = [[type(x).__name__, x.message] for x in res.diagnostics.get(n.FileId("index.txt"), []) if x.start[0] != 801]
            shared = False
            if case.get("twice") and len(page.ast.children) == 2:
                a = {id(x) for c in page.ast.children[0].children for x in pp.walk(c)}
                shared = any(id(x) in a for c in page.ast.children[1].children for x in pp.walk(c))
            other = {str(k): [type(x).__name__ for x in v] for k, v in res.diagnostics.items() if str(k) not in ("index.txt", "p2.txt") and v}
            again = None
            if case.get("twice"):
                # the diagnostics of the second directive on the page and of the one on another page (same file, same markers)
                again = [[[type(x).__name__, x.message] for x in res.diagnostics.get(n.FileId("index.txt"), []) if x.start[0] == 801],
                         [[type(x).__name__, x.message] for x in res.diagnostics.get(n.FileId("p2.txt"), []) if x.start[0] == 802]]
            return {"exc": None, "model_in": model_in, "diags_again": again, "out": [nested_ids(c) for c in dd.children], "diags": diags, "other_diags": other, "shared": shared,
                    "source_untouched": json.dumps(nested_ids(inc.ast)) == before}
        # expand
        self._pages = case["pages"]
        pages = []
        counter = [1]

        gen = case.get("gen")

        def mk(spec):
            i = counter[0]
            counter[0] += 1
            if "inc" in spec:
                # the path may be spelled with segments that cancel out (`/x/../f0.rst`, `/./f0.rst`): it names the same file
                return n.Directive((i,), [], "", "include", [n.Text((i,), ("/steps/" if spec["inc"] == gen else "/" + spec.get("sp", "")) + spec["inc"])], {})
            return n.Section((i,), [mk(c) for c in spec["c"]])

        docs = {}
        gen_yaml = None
        for f, body in case["pages"].items():
            counter_before = counter[0]
            nodes = [mk(s) for s in body]
            if f == gen:
                from snooty.page import Page
                gen_yaml = "steps-" + f.replace(".", "-") + ".yaml"
                pg = Page.create(n.FileId(gen_yaml), f, "", n.Root((0,), nodes, n.FileId(gen_yaml), {}))
                pg.category = "steps"
                pages.append(pg)
            else:
                pages.append(pp.page(f, nodes))
            docs[f] = nodes
        model_pages = [{"file": f, "body": [self._doc(c) for c in p.ast.children]} for f, p in zip(case["pages"], pages)]
        try:
            res = pp.run(pages)
        except RecursionError:
            return {"exc": "RecursionError", "model_pages": model_pages}
        except Exception as e:
            return {"exc": type(e).__name__, "msg": str(e)[:200], "model_pages": model_pages}
        out = [self._out(c) for c in res.pages[n.FileId("index.txt")].ast.children]
        diags = sorted([gen if str(k) in (gen_yaml, "steps/" + str(gen)) else str(k), type(x).__name__, x.start[0]]
                       for k, v in res.diagnostics.items() for x in v if type(x).__name__ in ("CannotOpenFile", "InvalidInclude"))
        # aliasing probe: two expansions of the same file must be distinct objects
        roots = {}
        shared = False
        for node in pp.walk(res.pages[n.FileId("index.txt")].ast):
            if isinstance(node, n.Root) and node is not res.pages[n.FileId("index.txt")].ast:
                for other in roots.get(str(node.fileid), []):
                    if other is node or any(a is b for a, b in zip(other.children, node.children)):
                        shared = True
                roots.setdefault(str(node.fileid), []).append(node)
        return {"exc": None, "model_pages": model_pages, "out": out, "diags": diags, "shared": shared}

    def _arg(self, node):
        a = node.argument[0].value.strip("/")
        a = a[len("steps/"):] if a.startswith("steps/") else a
        parts = []
        for seg in a.split("/"):          # independent restatement of what a path with `.` / `..` segments names
            if seg == ".." and parts:
                parts.pop()
            elif seg not in (".", ""):
                parts.append(seg)
        a = "/".join(parts)
        return resolve_inc(self._pages, a)

    def _doc(self, node):
        if isinstance(node, n.Directive) and node.name == "include":
            return {"id": node.span[0], "inc": self._arg(node)}
        return {"id": node.span[0], "c": [self._doc(c) for c in node.children]}

    def _out(self, node):
        if isinstance(node, n.Directive) and node.name == "include":
            body = None
            if node.children:
                root = node.children[0]
                body = [self._out(c) for c in root.children]
            return {"id": node.span[0], "inc": self._arg(node), "body": body}
        return {"id": node.span[0], "c": [self._out(c) for c in node.children]}

    # ------------------------------------------------------------------ model
    def model_request(self, case):
        if case["kind"] == "cut":
            index, inc, d = self._cut_pages(case)
            return {"op": "c06.cut", "nodes": [to_model(inc.ast, case["start"], case["end"])],
                    "want_s": bool(case["start"]), "want_e": bool(case["end"])}
        # fileids: include argument "/f0.rst" -> slug f0 -> fileid f0.rst ; model keys are file names
        counter = [1]

        def mk(spec):
            i = counter[0]
            counter[0] += 1
            if "inc" in spec:
                return {"id": i, "inc": resolve_inc(case["pages"], spec["inc"])}
            return {"id": i, "c": [mk(c) for c in spec["c"]]}

        pages = [{"file": f, "body": [mk(s) for s in body]} for f, body in case["pages"].items()]
        return {"op": "c06.expand", "pages": pages, "page": "index.txt"}

    def expected_diags(self, case, model):
        """diagnostic kinds the include handler must emit for a cut: the model's `cutDiags` (theorems cut_diags_sound / _complete)"""
        if not (case["start"] or case["end"]):
            return []
        return list(model["diags"])

    @staticmethod
    def diag_kinds(diags):
        kinds = []
        for cls, msg in diags:
            if cls != "InvalidInclude":
                kinds.append(cls)
            elif "should precede" in msg:
                kinds.append("reversed")
            elif "start-after" in msg:
                kinds.append("nostart")
            elif "end-before" in msg:
                kinds.append("noend")
            else:
                kinds.append("InvalidInclude:" + msg[:30])
        return kinds

    def compare(self, case, model, impl):
        if impl["exc"]:
            return f"implementation raised {impl['exc']}"
        if case["kind"] == "cut":
            if not model.get("atomic", True):
                return "a real AST violates the hypothesis `atomicL` of theorem cut_spec (a marker node contains markers)"
            if model.get("spec_hyp") and (not model["ok"] or model["units_out"] != model["between"]):
                return "the model contradicts its own theorem cut_spec (driver/proof mismatch)"
            got_k = self.diag_kinds(impl["diags"])
            if sorted(got_k) != sorted(self.expected_diags(case, model)):
                return f"diagnostics differ: model {self.expected_diags(case, model)} impl {got_k}"
            for which, ds in zip(("second include directive on the page", "include directive on another page"), impl.get("diags_again") or []):
                if sorted(self.diag_kinds(ds)) != sorted(self.expected_diags(case, model)):
                    return f"diagnostics of the {which} (same file, same markers) differ: model {self.expected_diags(case, model)} impl {self.diag_kinds(ds)}"
            if model["ok"]:
                repl = [{"id": 900, "c": [{"id": 901, "c": [{"id": 902, "c": []}]}]}] if case.get("replacement") else []
                want = repl + (model["out"] if (case["start"] or case["end"]) else [impl["model_in"][0] and strip(impl["model_in"][0])])
                if want != impl["out"]:
                    return f"content differs: model {json.dumps(want)[:300]} impl {json.dumps(impl['out'])[:300]}"
            return None
        if not model["ok"]:
            return "model ran out of fuel (cannot happen: expand_terminates)"
        if model["out"] != impl["out"]:
            return f"expansion differs: model {json.dumps(model['out'])[:300]} impl {json.dumps(impl['out'])[:300]}"
        md = sorted([d["file"], d["kind"], d["id"]] for d in model["diags"])
        if any(f.endswith(".txt") and f != "index.txt" for f in case["pages"]):
            # a second page (the .txt twin of an include file) is processed on its own too: the model request covers the walk of
            # index.txt only, the diagnostics of the whole run are judged by the reference of the oracle
            return None
        if md != impl["diags"]:
            return f"diagnostics differ: model {md} impl {impl['diags']}"
        return None

    # ------------------------------------------------------------------ oracle (independent of the model)
    def oracle(self, case, impl):
        if impl["exc"]:
            return f"include expansion raised {impl['exc']}"
        if case["kind"] == "expand":
            if impl["shared"]:
                return "two expansions of the same file share node objects"
            # independent transclusion with an explicit path
            pages = case["pages"]
            counter = [1]
            ids = {}
            for f, body in pages.items():
                def number(spec):
                    i = counter[0]
                    counter[0] += 1
                    if "inc" in spec:
                        return {"id": i, "inc": resolve_inc(pages, spec["inc"])}
                    return {"id": i, "c": [number(c) for c in spec["c"]]}
                ids[f] = [number(s) for s in body]
            want_diags = []

            def trans(f, path, node):
                if "inc" in node:
                    t = node["inc"]
                    if t not in pages:
                        want_diags.append([f, "CannotOpenFile", node["id"]])
                        return {"id": node["id"], "inc": t, "body": None}
                    if t in path:
                        want_diags.append([f, "InvalidInclude", node["id"]])
                        return {"id": node["id"], "inc": t, "body": None}
                    return {"id": node["id"], "inc": t, "body": [trans(t, path + [t], c) for c in ids[t]]}
                return {"id": node["id"], "c": [trans(f, path, c) for c in node["c"]]}

            want = [trans("index.txt", ["index.txt"], c) for c in ids["index.txt"]]
            for other in pages:
                if other.endswith(".txt") and other != "index.txt":
                    for c in ids[other]:
                        trans(other, [other], c)   # every .txt file is a page of its own: its diagnostics count
            if want != impl["out"]:
                return "expanded page differs from recursive transclusion"
            if sorted(want_diags) != impl["diags"]:
                return f"diagnostics differ from reference: want {sorted(want_diags)} got {impl['diags']}"
            return None
        # cut: judged only when markers are unique (the property's "the named markers")
        if impl.get("shared"):
            return "two expansions of the same bounded include share node objects"
        if not impl["source_untouched"]:
            return "the included file's stored AST was modified by the cut (copies are not independent)"
        flat = []  # (id, kind, subtree_last_index)

        def walk(spec, counter, anc):
            kind, cs = spec
            i = counter[0]
            counter[0] += 1
            me = len(flat)
            flat.append([i, kind, None, list(anc)])
            if kind[0] in "cl" and kind not in ("list", "leaf", "c0"):
                j = counter[0]
                counter[0] += 1
                flat.append([j, "leaf", len(flat), list(anc) + [i]])
            for c in cs:
                walk(c, counter, anc + [i])
            flat[me][2] = len(flat) - 1

        counter = [1]
        for s in case["tree"]:
            walk(s, counter, [])
        starts = [k for k, x in enumerate(flat) if x[1] in ("cS", "lS", "lB", "cB")]
        ends = [k for k, x in enumerate(flat) if x[1] in ("cE", "lE", "lB")]
        if len(starts) > 1 or len(ends) > 1:
            return None
        kinds = self.diag_kinds(impl["diags"])
        s = starts[0] if (starts and case["start"]) else None
        e = ends[0] if (ends and case["end"]) else None
        for which, ks in [("", kinds)] + [(f" ({w})", self.diag_kinds(ds)) for w, ds in
                                           zip(("second directive on the page", "directive on another page"), impl.get("diags_again") or [])]:
            if case["start"] and not starts and "nostart" not in ks:
                return "missing start-after marker not reported" + which
            if case["end"] and not ends and "noend" not in ks:
                return "missing end-before marker not reported" + which
            if s is not None and e is not None and e < s and "reversed" not in ks:
                return "reversed markers not reported" + which
        if s is not None and e is not None and e < s:
            # both markers exist, in the wrong order: that is what is reported - not that either of them is missing
            if "nostart" in kinds or "noend" in kinds:
                return f"spurious diagnostics {kinds}: both markers exist (in the wrong order)"
            return None
        if any(k not in ("nostart", "noend") for k in kinds) or ("nostart" in kinds and starts and case["start"]) or ("noend" in kinds and ends and case["end"]):
            return f"spurious diagnostics {kinds}"
        lo = s if s is not None else 0
        hi = flat[e][2] if e is not None else len(flat) - 1
        keep = set()
        for k, x in enumerate(flat):
            if lo <= k <= hi:
                keep.add(x[0])
        for m in (s, e):
            if m is not None:
                keep.update(flat[m][3])
        got = []

        def ids_of(t):
            got.append(t["id"])
            for c in t["c"]:
                ids_of(c)

        out = impl["out"]
        if case.get("replacement"):
            if not out or out[0]["id"] != 900:
                return "replacement directive on the include was dropped"
            out = out[1:]
        if len(out) != 1:
            return f"include directive holds {len(out)} roots"
        for c in out[0]["c"]:
            ids_of(c)
        want = [x[0] for x in flat if x[0] in keep]
        if got != want:
            return f"included content is not exactly the part between the markers: want ids {want} got {got}"
        return None

    def finding_key(self, case, impl, desc):
        return case["kind"] + ":" + re.split(r"[:\[{]", desc)[0].strip()

    def nontrivial_key(self, case, impl):
        if case["kind"] == "cut":
            if not (case["start"] or case["end"]):
                return None
        elif sum(1 for b in case["pages"].values() for x in b if "inc" in x) < 2:
            return None
        return json.dumps(case, sort_keys=True)

    def branch_tags(self, case, model, impl):
        tags = [case["kind"]]
        if impl.get("exc"):
            return tags + ["exc:" + impl["exc"]]
        if case["kind"] == "cut":
            tags += ["diag:" + k for k in self.diag_kinds(impl["diags"])]
            if model and model.get("ok") and (case["start"] or case["end"]):
                tags.append("cut-ok")
            if model and model.get("spec_hyp"):
                tags.append("cut_spec-hypotheses-hold")
        else:
            tags += ["diag:" + d[1] for d in impl["diags"]]
        return tags


def strip(t):
    return {"id": t["id"], "c": [strip(c) for c in t["c"]]}


PROP = C06()
