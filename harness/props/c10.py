"""C10 — the table of contents and navigation metadata agree with the toctree directives."""
import json
import re
import signal
import urllib.parse
from collections import deque

import core
from impl import pp, rst
from snooty import n
from snooty.diagnostics import MissingTocTreeEntry, OrphanedPage
from snooty.postprocess import clean_slug

KNOWN = ("txt", "rst", "yaml", "ast")
WATCHDOG_S = 20


class _Timeout(BaseException):
    pass


def _alarm(signum, frame):
    raise _Timeout()


# --------------------------------------------------------------------------------------
# independent reference helpers (never call into snooty)
# --------------------------------------------------------------------------------------

def ref_clean(s: str) -> str:
    s = s.strip("/")
    head, sep, name = s.rpartition("/")
    stem, dot, ext = name.rpartition(".")
    if dot and stem.strip(".") != "" and ext in KNOWN:
        return head + sep + stem
    return s


def ref_slug_of(fid: str) -> str:
    return re.sub(r"\.(txt|rst|yaml|ast)$", "", fid)


def disp(slug: str) -> str:
    return "/" if slug == "index" else slug


def all_files(case):
    """every file of the build: [(fid, heading, orphan, flat entries)], includes generated for blocks"""
    out = []
    for f in case["files"]:
        fid = f["fid"]
        flat = []
        extra = []
        for bi, b in enumerate(f.get("blocks", [])):
            flat.extend(b["entries"])
            if b["wrap"] in ("include", "include2"):
                stem = ref_slug_of(fid).replace("/", "_")
                extra.append((f"includes/{stem}-{bi}.rst", None, False, list(b["entries"])))
                if b["wrap"] == "include2":
                    extra.append((f"includes/{stem}-{bi}-outer.rst", None, False, list(b["entries"])))
        heading = (f.get("heading") or None) if fid.endswith(".txt") else None
        me = (fid, heading, bool(f.get("orphan")), flat)
        if f.get("inc_first"):
            out.extend(extra)
            out.append(me)
        else:
            out.append(me)
            out.extend(extra)
    return out


def truthy(x):
    return x if x else None


WELL_TITLED = re.compile(r"^(?P<title>[^<>|\s](?:[^<>|]*[^<>|\s])?)\s*<(?P<target>[^<>|\s]+)>$")
WELL_BARE = re.compile(r"^[^<>|\s]+$")
HAS_SCHEME = re.compile(r"^[A-Za-z][A-Za-z0-9+.\-]*:")


def ref_parse_line(line):
    """independent reading of a *well-formed* toctree line -> [title, url, slug, None]; None = abstain"""
    m = WELL_TITLED.match(line)
    if m:
        t = m["target"]
        return [m["title"], t, None, None] if HAS_SCHEME.match(t) else [m["title"], None, t, None]
    if WELL_BARE.match(line) and not HAS_SCHEME.match(line):
        return [None, None, line, None]
    return None


class Ref:
    """independent reference traversal of the input graph"""

    def __init__(self, files):
        self.files = files
        self.by_slug = {}
        for fid, heading, orphan, flat in files:
            self.by_slug[ref_slug_of(fid)] = (fid, heading, orphan, flat)
        fids = [f[0] for f in files]
        self.start = "contents.txt" if "contents.txt" in fids else ("index.txt" if "index.txt" in fids else None)

    def resolve(self, entry):
        """-> ('url', url, title) | ('page', slug, title) | ('missing', cleaned) | ('project', name, title) | None"""
        title, url, slug, proj = entry
        if truthy(url):
            return ("url", url, truthy(title))
        if truthy(slug):
            c = ref_clean(slug)
            if c in self.by_slug:
                t = truthy(title)
                if t is None:
                    t = self.by_slug[c][1]
                return ("page", c, t)
            return ("missing", c)
        if truthy(proj):
            return ("project", proj, truthy(title))
        return None

    def succ(self, slug):
        out = []
        for e in self.by_slug[slug][3]:
            r = self.resolve(e)
            if r and r[0] == "page":
                out.append(r[1])
        return out

    def reach(self):
        if self.start is None:
            return set()
        s0 = ref_slug_of(self.start)
        seen = {s0}
        q = deque([s0])
        while q:
            x = q.popleft()
            for y in self.succ(x):
                if y not in seen:
                    seen.add(y)
                    q.append(y)
        return seen

    def expected_children(self, slug):
        out = []
        for e in self.by_slug[slug][3]:
            r = self.resolve(e)
            if not r or r[0] == "missing":
                continue
            if r[0] == "url":
                out.append((None, r[1], r[2]))
            elif r[0] == "page":
                out.append((disp(r[1]), None, r[2]))
            else:
                out.append((r[1], None, r[2]))
        return out


# --------------------------------------------------------------------------------------
# building the inputs of the real code
# --------------------------------------------------------------------------------------

def toc_node(entries, line):
    return n.TocTreeDirective((line,), [], "", "toctree", [], {}, [n.TocTreeDirectiveEntry(*e) for e in entries])


def build_graph_pages(case):
    pages = []
    for f in case["files"]:
        fid = f["fid"]
        body = []
        extra = []
        for bi, b in enumerate(f.get("blocks", [])):
            t = toc_node(b["entries"], bi + 2)
            w = b["wrap"]
            if w == "plain":
                body.append(t)
            elif w == "directive":
                body.append(n.Directive((bi + 2,), [n.Paragraph((bi + 2,), [pp.text("p")]), t], "", "note", [], {}))
            elif w == "nested":
                inner = n.Directive((bi + 2,), [t], "", "note", [], {})
                body.append(n.Directive((bi + 2,), [n.ListNode((bi + 2,), [n.ListNodeItem((bi + 2,), [inner])], n.ListEnumType.unordered, None)], "", "container", [], {}))
            elif w == "deflist":
                # the body of a definition (a toctree indented under a line of text)
                body.append(n.DefinitionList((bi + 2,), [n.DefinitionListItem((bi + 2,), [n.Paragraph((bi + 2,), [pp.text("d")]), t], [pp.text("term")])]))
            elif w == "footnote":
                body.append(n.Footnote((bi + 2,), [n.Paragraph((bi + 2,), [pp.text("f")]), t], f"id{bi + 1}", None))
            elif w == "field":
                body.append(n.FieldList((bi + 2,), [n.Field((bi + 2,), [t], "name", None)]))
            elif w == "blocksub":
                body.append(n.BlockSubstitutionReference((bi + 2,), [t], "sub"))
            elif w in ("include", "include2"):
                stem = ref_slug_of(fid).replace("/", "_")
                inc = f"includes/{stem}-{bi}.rst"
                extra.append(pp.page(inc, [n.Paragraph((1,), [pp.text("q")]), t]))
                target = inc
                if w == "include2":
                    outer = f"includes/{stem}-{bi}-outer.rst"
                    extra.append(pp.page(outer, [n.Directive((1,), [], "", "include", [pp.text("/" + inc)], {})]))
                    target = outer
                body.append(n.Directive((bi + 2,), [], "", "include", [pp.text("/" + target)], {}))
            else:
                raise ValueError(w)
        children = []
        if f.get("heading") is not None:
            sec = n.Section((1,), [n.Heading((1,), [pp.text(f["heading"], 1)] if f["heading"] != "" else [], "h")])
            if f.get("in_section"):
                sec.children.extend(body)
                children = [sec]
            else:
                children = [sec] + body
        else:
            children = body
        me = pp.page(fid, children, {"orphan": ""} if f.get("orphan") else {})
        if f.get("inc_first"):
            pages.extend(extra)
            pages.append(me)
        else:
            pages.append(me)
            pages.extend(extra)
    return pages


def content_lines(block):
    """docutils hands the directive its content without leading/trailing blank lines"""
    b = list(block)
    while b and b[0] == "":
        b.pop(0)
    while b and b[-1] == "":
        b.pop()
    return b


def text_of(f):
    lines = []
    if f.get("orphan"):
        lines += [":orphan:", ""]
    if f.get("heading"):
        lines += [f["heading"], "=" * (len(f["heading"]) + 2), ""]
    else:
        lines += ["para", ""]
    for b in f.get("tocs", []):
        lines += [".. toctree::", ""]
        lines += ["   " + l if l else "" for l in b]
        lines += ["", "para", ""]
    return "\n".join(lines) + "\n"


def title_text(t):
    if t is None:
        return None
    return "".join(x.get("value", "") if x.get("type") == "text" else json.dumps(x, sort_keys=True) for x in t)


def canon_tree(node, budget):
    """serialised toctree node -> canonical JSON-able node; iterative to survive deep trees"""
    root = {}
    stack = [(node, root)]
    count = 0
    while stack:
        src, dst = stack.pop()
        count += 1
        if count > budget:
            raise OverflowError("tree too large")
        dst["slug"] = src.get("slug")
        dst["url"] = src.get("url")
        dst["title"] = title_text(src.get("title"))
        dst["project"] = (src.get("options") or {}).get("project")
        dst["children"] = [{} for _ in src.get("children", [])]
        for c_src, c_dst in zip(src.get("children", []), dst["children"]):
            stack.append((c_src, c_dst))
    return root


def nodes_preorder(root):
    """iterative pre-order: yields (node, [ancestors])"""
    stack = [(root, [])]
    while stack:
        node, anc = stack.pop()
        yield node, anc
        for c in reversed(node["children"]):
            stack.append((c, anc + [node]))


# --------------------------------------------------------------------------------------
# generators
# --------------------------------------------------------------------------------------

NAMES = ["a", "b", "c", "d/index", "d/e", "f.g", "d/e/h", "x-1", "guide"]
HEADS = ["Alpha", "Beta", "Gamma", "Delta", None, None, "Index page", ""]
TITLES = [None, None, None, "Explicit", "Overview", "", "T2"]
# where a toctree directive may sit: every node that holds block content
WRAPS = ["plain", "plain", "plain", "directive", "nested", "include", "include2", "deflist", "footnote", "field", "blocksub"]


def entry_forms(rng, slug):
    forms = [slug, "/" + slug, "/" + slug + "/", slug + ".txt", "/" + slug + ".rst", slug + "/", "//" + slug]
    if slug == "index" and rng.random() < 0.3:
        return "/"
    return rng.choice(forms)


def gen_graph(rng, shape=None):
    npages = rng.choice([1, 2, 3, 3, 4, 4, 5, 6, 8])
    names = ["index"] + rng.sample(NAMES, min(npages - 1, len(NAMES)))
    r = rng.random()
    if r < 0.08:
        names[0] = "contents"
    elif r < 0.12:
        names.append("contents")
    elif r < 0.15:
        names = names[1:] or ["a"]
    shape = shape or rng.choice(["random", "random", "random", "tree", "dag", "cycle", "chain", "dense"])
    k = len(names)
    edges = {i: [] for i in range(k)}
    if shape == "tree":
        for i in range(1, k):
            edges[rng.randrange(0, i)].append(i)
    elif shape == "chain":
        for i in range(1, k):
            edges[i - 1].append(i)
        if rng.random() < 0.5:
            edges[k - 1].append(rng.randrange(0, k))
    elif shape == "dag":
        for i in range(1, k):
            for p in rng.sample(range(0, i), min(i, rng.choice([1, 2, 2]))):
                edges[p].append(i)
    elif shape == "cycle":
        for i in range(k):
            edges[i].append((i + 1) % k)
        for _ in range(rng.randint(0, 2)):
            edges[rng.randrange(k)].append(rng.randrange(k))
    elif shape == "dense":
        for i in range(k):
            edges[i] = [j for j in range(k) if rng.random() < 0.6]
    else:
        for i in range(k):
            edges[i] = [rng.randrange(k) for _ in range(rng.choice([0, 1, 1, 2, 3]))]
    files = []
    for i, nm in enumerate(names):
        ents = []
        for j in edges[i]:
            ents.append([rng.choice(TITLES), None, entry_forms(rng, names[j]), None])
        # extras: urls, missing, projects, malformed
        for _ in range(rng.choice([0, 0, 0, 1, 1, 2])):
            x = rng.random()
            if x < 0.35:
                ents.append([rng.choice(["Site", "Docs", None, ""]), rng.choice(["https://example.com/", "mailto:a@b"]), None, None])
            elif x < 0.6:
                ents.append([rng.choice(TITLES), None, rng.choice(["zz", "/a/zz", "d", "index.md", "/", "a.txt.txt", ".txt"]), None])
            elif x < 0.72:
                ents.append([rng.choice(["Proj", None]), None, None, rng.choice(["proj", "a"])])
            elif x < 0.8:
                ents.append([rng.choice(TITLES), "https://u/", rng.choice(names), rng.choice([None, "proj"])])
            elif x < 0.88:
                ents.append([rng.choice(TITLES), rng.choice([None, ""]), rng.choice([None, ""]), rng.choice([None, ""])])
            else:
                ents.append([rng.choice(TITLES), None, rng.choice(names), "proj"])
        rng.shuffle(ents)
        blocks = []
        while ents:
            take = rng.randint(1, len(ents))
            blocks.append({"wrap": rng.choice(WRAPS), "entries": ents[:take]})
            ents = ents[take:]
        if rng.random() < 0.1:
            blocks.append({"wrap": rng.choice(WRAPS), "entries": []})
        ext = ".txt"
        if i > 0 and rng.random() < 0.06:
            ext = ".rst"
            blocks = [{**b, "wrap": "plain" if b["wrap"] in ("include", "include2") else b["wrap"]} for b in blocks]
        files.append({"fid": nm + ext, "heading": rng.choice(HEADS), "orphan": rng.random() < 0.2,
                      "in_section": rng.random() < 0.5, "inc_first": rng.random() < 0.3, "blocks": blocks})
    if rng.random() < 0.3:
        rng.shuffle(files)
    return {"kind": "graph", "shape": shape, "files": files}


def directed_cases():
    def F(fid, ents, heading=None, orphan=False, wrap="plain"):
        return {"fid": fid, "heading": heading, "orphan": orphan, "blocks": [{"wrap": wrap, "entries": ents}] if ents is not None else []}
    S = lambda s, t=None: [t, None, s, None]
    U = lambda u, t="U": [t, u, None, None]
    yield {"kind": "graph", "shape": "url-only", "files": [F("index.txt", [S("/a")]), F("a.txt", [U("https://x/")], "A"), F("b.txt", None)]}
    yield {"kind": "graph", "shape": "url-only-nested", "files": [F("index.txt", [S("/x")]), F("x.txt", [S("a")], "X"), F("a.txt", [U("https://x/")], "A")]}
    yield {"kind": "graph", "shape": "url-then-page", "files": [F("index.txt", [S("/a")]), F("a.txt", [U("https://x/"), S("b")], "A"), F("b.txt", None)]}
    yield {"kind": "graph", "shape": "self", "files": [F("index.txt", [S("/a")]), F("a.txt", [S("a"), S("a", "Again")], "A")]}
    yield {"kind": "graph", "shape": "root-ref", "files": [F("index.txt", [S("/page1"), S("/index", "Overview"), S("/page2")]), F("page1.txt", None), F("page2.txt", None)]}
    yield {"kind": "graph", "shape": "cycle2", "files": [F("index.txt", [S("a")]), F("a.txt", [S("b")], "A"), F("b.txt", [S("a"), S("index")], "B")]}
    yield {"kind": "graph", "shape": "diamond", "files": [F("index.txt", [S("a"), S("b")]), F("a.txt", [S("c")], "A"), F("b.txt", [S("c")], "B"), F("c.txt", [S("d")], "C"), F("d.txt", None, "D")]}
    yield {"kind": "graph", "shape": "orphans", "files": [F("index.txt", [S("a")]), F("a.txt", None), F("o1.txt", [S("o2")]), F("o2.txt", None, None, True), F("o3.txt", None, None, True)]}
    yield {"kind": "graph", "shape": "visited-orphan-order", "files": [F("index.txt", [S("a"), S("b")]), F("a.txt", [S("b")], "A"), F("b.txt", [S("c")], "B"), F("c.txt", None, "C")]}
    yield {"kind": "graph", "shape": "missing", "files": [F("index.txt", [S("zz"), S("a"), S("zz")]), F("a.txt", [S("/nope/")], "A", False, "include")]}
    yield {"kind": "graph", "shape": "title-precedence", "files": [F("index.txt", [S("a", "Explicit"), S("a")]), F("a.txt", None, "Heading A")]}
    yield {"kind": "graph", "shape": "no-root", "files": [F("a.txt", [S("b")]), F("b.txt", None)]}
    yield {"kind": "graph", "shape": "contents", "files": [F("index.txt", [S("a")]), F("contents.txt", [S("b"), S("index")]), F("a.txt", None), F("b.txt", None)]}
    yield {"kind": "graph", "shape": "deep-chain", "files": [F("index.txt", [S("p0")])] + [F(f"p{i}.txt", [S(f"p{i+1}")], f"P{i}") for i in range(40)] + [F("p40.txt", [S("p0")])]}
    yield {"kind": "graph", "shape": "nested-dirs", "files": [F("index.txt", [S("/d/index"), S("d/e.txt")]), F("d/index.txt", [S("/d/e/")], "D"), F("d/e.txt", [S("/d/index.rst"), S("/index")], "E")]}


SPACES = [" ", " ", "  ", "", " ", " "]


def gen_line(rng, names):
    """(raw line) mostly well-formed toctree content lines"""
    x = rng.random()
    tgt = rng.choice(names + ["zz"]) if rng.random() < 0.85 else rng.choice(["https://example.com/x", "mailto:a@b", "a:b", "http:x", "ftp://h/"])
    form = rng.choice(["{}", "/{}", "/{}/", "{}.txt"]).format(tgt) if ":" not in tgt else tgt
    if x < 0.4:
        return form
    if x < 0.8:
        return rng.choice(["Title", "A title", "T", "t <x>", "a<b"]) + rng.choice(SPACES) + "<" + form + ">"
    if x < 0.84:
        return "<" + form + ">"
    if x < 0.88:
        return rng.choice(["P <|proj|>", "Q <|other|>", "T <|>", "P <|proj|>"])
    if x < 0.9:
        return ""
    if x < 0.93:
        return rng.choice(["T <a> b", "T <a", "a>", "<>", "x <>", "T < a >", "a <b> <c>", "T <<a>>", "|p|", "T <|p>"])
    return "".join(rng.choice(["a", "b", "/", "<", ">", " ", "|", ":", ".", "t", "x", " "]) for _ in range(rng.randint(1, 8))).strip() or "a"


def gen_text(rng):
    k = rng.choice([2, 3, 3, 4, 5])
    names = ["index"] + rng.sample(["a", "b", "c", "d/e", "guide"], k - 1)
    files = []
    for nm in names:
        tocs = []
        for _ in range(rng.choice([0, 1, 1, 1, 2])):
            tocs.append([gen_line(rng, names) for _ in range(rng.randint(1, 4))])
        files.append({"fid": nm + ".txt", "heading": rng.choice(["Alpha", "Beta page", None, "Gamma"]), "orphan": rng.random() < 0.2, "tocs": tocs})
    return {"kind": "text", "files": files}


class C10(core.PropertyCheck):
    id = "C10"
    quick_budget = 4000
    thorough_budget = 40000
    rule = ("synthetic page sets (1-9 pages + generated include files) with toctree graphs of shape random/tree/dag/cycle/chain/dense, "
            "entries in 7 spellings (leading/trailing slashes, extensions), explicit titles, URL/project/missing/empty/contradictory entries, "
            "toctrees plain, inside directives, nested directives, include files and includes of includes -> real Postprocessor.run -> metadata "
            "toctree/toctreeOrder/parentPaths + OrphanedPage/MissingTocTreeEntry diagnostics, compared with the Lean model and judged by an "
            "independent reference traversal; 15 directed shapes; text projects through parse_rst for make_toc_entry/validate_toc_entries; "
            "clean_slug on a string stream. non-trivial = at least one page->page edge; distinct by case content")
    assumptions = [
        "no two files of a generated build share a slug (a.txt + a.rst): slug_fileid_mapping is then injective and the model keys pages by slug",
        "toctree nesting depth stays below CPython's recursion limit (a chain of ~300 pages raises RecursionError in find_toctree_nodes; not part of the property)",
        "\\s of PAT_EXPLICIT_TITLE and urlparse(...).scheme are parameters of makeTocEntry, instantiated from the running Python per case",
        "toctree content lines hold no newline and no NUL (directive content lines never do)",
        "the `ia` (iatree) variant and toctree node options (drawer, tocicon, osiris_parent) are outside the model",
    ]

    def static_obligations(self):
        import sys
        from snooty import rstparser, util
        from snooty.n import FileId
        exts = set(util.SOURCE_FILE_EXTENSIONS) | {".ast"}
        return [
            ("knownExts of the model = SOURCE_FILE_EXTENSIONS + .ast", exts == {".txt", ".rst", ".yaml", ".ast"}, str(sorted(exts))),
            ("FileId.without_known_suffix strips the same extensions", FileId.PAT_FILE_EXTENSIONS.pattern == r"\.((txt)|(rst)|(yaml)|(ast))$", FileId.PAT_FILE_EXTENSIONS.pattern),
            ("EXT_FOR_PAGE is .txt (isTxt)", util.EXT_FOR_PAGE == ".txt", util.EXT_FOR_PAGE),
            ("PAT_EXPLICIT_TITLE is the pattern modelled by explicitTitle", rstparser.PAT_EXPLICIT_TITLE.pattern == r"^(?P<label>.*?)\s*(?<!\x00)<(?P<target>.*?)>$" and rstparser.PAT_EXPLICIT_TITLE.flags & re.DOTALL != 0, rstparser.PAT_EXPLICIT_TITLE.pattern),
            ("PAT_URI is the pattern modelled by isUri", util.PAT_URI.pattern == r"^(?P<schema>[a-z]+)://", util.PAT_URI.pattern),
            ("recursion limit leaves room for the generated nesting depths (<= 41 pages deep)", sys.getrecursionlimit() >= 1000, str(sys.getrecursionlimit())),
        ]

    # ---- generation ----
    def generate(self, rng, budget, tier):
        if tier != "search":
            yield from directed_cases()
            yield {"kind": "clean", "slugs": ["", "/", "//", "a", "/a/", "a.txt", "a.rst", "a.yaml", "a.ast", "a.md", "a.txt/", "/a/b.txt/", ".txt", "..txt", "a/.txt",
                                              "a/..txt", "a.b/c", "a.txt/b", "a.", "a..txt", "x.txt.rst", "/index", "index", "a/b.c.yaml", ".a.txt", "a/.b.rst", "./a.txt"]}
        alphabet = ["a", "b", "/", ".", "t", "x", "txt", "rst", ".txt", ".yaml", ".ast", "..", "index"]
        for i in range(budget):
            r = rng.random()
            if r < 0.86:
                yield gen_graph(rng)
            elif r < 0.96:
                yield gen_text(rng)
            else:
                yield {"kind": "clean", "slugs": ["".join(rng.choice(alphabet) for _ in range(rng.randint(0, 6))) for _ in range(20)]}

    def shrink_candidates(self, case):
        if case["kind"] == "clean":
            for i in range(len(case["slugs"])):
                yield {**case, "slugs": case["slugs"][:i] + case["slugs"][i + 1:]}
            return
        files = case["files"]
        for i in range(len(files)):
            if len(files) > 1:
                yield {**case, "files": files[:i] + files[i + 1:]}
        for i, f in enumerate(files):
            rep = lambda nf: {**case, "files": files[:i] + [nf] + files[i + 1:]}
            if case["kind"] == "text":
                for bi, b in enumerate(f["tocs"]):
                    yield rep({**f, "tocs": f["tocs"][:bi] + f["tocs"][bi + 1:]})
                    for li in range(len(b)):
                        yield rep({**f, "tocs": f["tocs"][:bi] + [b[:li] + b[li + 1:]] + f["tocs"][bi + 1:]})
                continue
            bl = f.get("blocks", [])
            for bi, b in enumerate(bl):
                if not b["entries"]:
                    yield rep({**f, "blocks": bl[:bi] + bl[bi + 1:]})
                for ei in range(len(b["entries"])):
                    nb = {**b, "entries": b["entries"][:ei] + b["entries"][ei + 1:]}
                    yield rep({**f, "blocks": bl[:bi] + [nb] + bl[bi + 1:]})
                if b["wrap"] != "plain":
                    yield rep({**f, "blocks": bl[:bi] + [{**b, "wrap": "plain"}] + bl[bi + 1:]})
                for ei, e in enumerate(b["entries"]):
                    if e[0] is not None:
                        nb = {**b, "entries": b["entries"][:ei] + [[None] + e[1:]] + b["entries"][ei + 1:]}
                        yield rep({**f, "blocks": bl[:bi] + [nb] + bl[bi + 1:]})
            if f.get("heading") is not None:
                yield rep({**f, "heading": None})
            if f.get("orphan"):
                yield rep({**f, "orphan": False})

    # ---- implementation ----
    def run_impl(self, case):
        if case["kind"] == "clean":
            return {"exc": None, "cleaned": [clean_slug(s) for s in case["slugs"]]}
        old = signal.signal(signal.SIGALRM, _alarm)
        signal.setitimer(signal.ITIMER_REAL, WATCHDOG_S)
        try:
            return self._run(case)
        except _Timeout:
            return {"exc": "Timeout", "msg": f"no result after {WATCHDOG_S}s"}
        except RecursionError:
            return {"exc": "RecursionError", "msg": ""}
        except Exception as e:
            return {"exc": type(e).__name__, "msg": str(e)[:200]}
        finally:
            signal.setitimer(signal.ITIMER_REAL, 0)
            signal.signal(signal.SIGALRM, old)

    def _run(self, case):
        parsed = None
        if case["kind"] == "text":
            pages, parsed = [], {}
            for f in case["files"]:
                page, _diags = rst.parse(text_of(f), f["fid"])
                pages.append(page)
                ents = []
                for node in pp.walk(page.ast):
                    if isinstance(node, n.TocTreeDirective):
                        ents.extend([list(e) for e in node.entries])
                parsed[f["fid"]] = ents
        else:
            pages = build_graph_pages(case)
        res = pp.run(pages)
        md = res.metadata
        toc = md["toctree"]
        out = {"exc": None, "parsed": parsed}
        if not toc:
            out["toctree"] = None
        else:
            out["toctree"] = canon_tree(toc, 200000)
        out["order"] = list(md["toctreeOrder"])
        out["parentPaths"] = {k: list(v) for k, v in md["parentPaths"].items()}
        missing, orphans = [], []
        for fid, ds in res.diagnostics.items():
            for d in ds:
                if isinstance(d, MissingTocTreeEntry):
                    missing.append([str(fid), d.entry])
                elif isinstance(d, OrphanedPage):
                    orphans.append(str(fid))
        out["missing"] = sorted(missing)
        out["orphans"] = sorted(orphans)
        return out

    # ---- model ----
    def model_request(self, case):
        if case["kind"] == "clean":
            return {"op": "c10.clean", "slugs": case["slugs"]}
        if case["kind"] == "text":
            files, space, scheme = [], set(), set()
            for f in case["files"]:
                lines = [l for b in f["tocs"] for l in b]
                tocs = [content_lines(b) for b in f["tocs"]]
                for l in lines:
                    space.update(c for c in l if re.match(r"\s", c))
                    cands = {l} | {l[j + 1:-1] for j, c in enumerate(l) if c == "<"}
                    for t in cands:
                        try:
                            if urllib.parse.urlparse(t).scheme:
                                scheme.add(t)
                        except ValueError:
                            pass
                files.append({"slug": ref_slug_of(f["fid"]), "txt": True, "heading": f.get("heading") or None, "orphan": bool(f.get("orphan")), "tocs": tocs})
            return {"op": "c10.text", "files": files, "space": "".join(sorted(space)), "scheme": sorted(scheme), "products": []}
        pages = []
        for fid, heading, orphan, flat in all_files(case):
            pages.append({"slug": str(n.FileId(fid).without_known_suffix), "txt": fid.endswith(".txt"), "heading": heading or None, "orphan": orphan,
                          "entries": [{"title": e[0], "url": e[1], "slug": e[2], "ref_project": e[3]} for e in flat]})
        return {"op": "c10.build", "pages": pages}

    def compare(self, case, model, impl):
        if case["kind"] == "clean":
            if model["cleaned"] != impl["cleaned"]:
                bad = [(s, m, i) for s, m, i in zip(case["slugs"], model["cleaned"], impl["cleaned"]) if m != i]
                return f"clean_slug differs (input, model, impl): {bad[:3]}"
            return None
        if model.get("exc") or impl.get("exc"):
            if model.get("exc") != impl.get("exc"):
                return f"exception differs: model {model.get('exc')} impl {impl.get('exc')} {impl.get('msg', '')}"
            return None
        if model.get("exhausted"):
            return "model ran out of fuel (buildToc_fuel says it cannot)"
        if case["kind"] == "text":
            want = {f["fid"]: e for f, e in zip(case["files"], model["entries"])}
            if want != impl["parsed"]:
                return f"parsed toctree entries differ: model {want} impl {impl['parsed']}"
        mt = None if model["tree"] is None else [model_canon(t) for t in model["tree"]]
        it = None if impl["toctree"] is None else impl["toctree"]["children"]
        if mt != it:
            return f"toctree differs: model {json.dumps(mt)[:600]} impl {json.dumps(it)[:600]}"
        if impl["toctree"] is not None and impl["toctree"].get("slug") != "/":
            return f"root slug {impl['toctree'].get('slug')!r}"
        if model["order"] != impl["order"]:
            return f"toctreeOrder differs: model {model['order']} impl {impl['order']}"
        mp = {k: v for k, v in model["parentPaths"]}
        if mp != impl["parentPaths"]:
            return f"parentPaths differs: model {mp} impl {impl['parentPaths']}"
        slug2fid = {ref_slug_of(f[0]): f[0] for f in (all_files(case) if case["kind"] == "graph" else [(f["fid"],) for f in case["files"]])}
        mm = sorted([slug2fid.get(o, o), s] for o, s in model["missing"])
        if mm != impl["missing"]:
            return f"MissingTocTreeEntry differs: model {mm} impl {impl['missing']}"
        mo = sorted(slug2fid.get(o, o) for o in model["orphans"])
        if mo != impl["orphans"]:
            return f"OrphanedPage differs: model {mo} impl {impl['orphans']}"
        return None

    # ---- direct oracle: independent reference traversal vs. the real metadata ----
    def oracle(self, case, impl):
        if case["kind"] == "clean":
            for s, got in zip(case["slugs"], impl["cleaned"]):
                if got != ref_clean(s):
                    return f"clean_slug({s!r}) = {got!r}, reference {ref_clean(s)!r}"
            return None
        if impl.get("exc") in ("RecursionError", "Timeout", "OverflowError"):
            return f"non-termination: the build did not return ({impl['exc']})"
        if impl.get("exc"):
            return None  # other crashes are C02's business (reported in branch tags)
        if case["kind"] == "text":
            for f in case["files"]:
                want = [ref_parse_line(l) for b in f["tocs"] for l in content_lines(b)]
                if all(w is not None for w in want) and want != impl["parsed"][f["fid"]]:
                    return f"entry-parse: toctree lines {[l for b in f['tocs'] for l in b]} of {f['fid']} parsed as {impl['parsed'][f['fid']]}, they read {want}"
            # the generated projects declare no associated product: an entry naming a project (`T <|proj|>`) is reported
            # and removed by validate_toc_entries, whatever precedes it
            for f in case["files"]:
                kept = [e for e in impl["parsed"][f["fid"]] if truthy(e[3])]
                if kept:
                    return f"unknown-project: toctree of {f['fid']} keeps {kept} although no associated product is declared"
            files = [(f["fid"], f.get("heading") or None, bool(f.get("orphan")), impl["parsed"][f["fid"]]) for f in case["files"]]
        else:
            files = all_files(case)
        ref = Ref(files)
        tree = impl["toctree"]
        if ref.start is None:
            if tree is not None or impl["order"] or impl["parentPaths"]:
                return "no-root: no contents.txt/index.txt but a toctree was emitted"
            return None
        if tree is None:
            return "no-tree: root page exists but the metadata toctree is empty"
        start_slug = ref_slug_of(ref.start)
        reach = ref.reach()
        # -- tree shape
        expanded = {}
        in_tree = {start_slug}
        for node, anc in nodes_preorder(tree):
            if node is tree:
                continue
            if node["url"] is not None:
                if node["slug"] is not None:
                    return f"url-node: node carries both url and slug {node['slug']!r}"
                if node["children"]:
                    return f"url-leaf: URL node {node['url']!r} has children"
                continue
            if node["slug"] is None:
                return "node without url and slug"
            if node["project"] is not None:
                if node["children"]:
                    return f"project-leaf: project node {node['slug']!r} has children"
                continue
            s = "index" if node["slug"] == "/" else node["slug"]
            if s not in ref.by_slug:
                return f"names-no-page: node {node['slug']!r} names no file of the build"
            in_tree.add(s)
            if node["children"]:
                expanded[s] = expanded.get(s, 0) + 1
                if expanded[s] > 1:
                    return f"expanded-twice: page {s!r} is expanded more than once"
                if s == start_slug:
                    return f"expanded-twice: root page {s!r} expanded again below the root"
        # children of every expanded node (and the root) are the page's entries, in order
        for node, anc in nodes_preorder(tree):
            if node["url"] is not None:
                continue
            if node is tree:
                s = start_slug
            else:
                if node["project"] is not None:
                    continue
                s = "index" if node["slug"] == "/" else node["slug"]
            want = ref.expected_children(s)
            got = [(c["slug"], c["url"], c["title"]) for c in node["children"]]
            if node["children"] or node is tree:
                if got != want:
                    kind = "title" if [(a, b) for a, b, _ in got] == [(a, b) for a, b, _ in want] else "children"
                    return f"{kind}-mismatch: children of {s!r} are {got}, the toctree entries give {want}"
            elif want and s not in expanded and s != start_slug:
                return f"never-expanded: page {s!r} has toctree entries {want} but no node expands it"
        if in_tree != reach:
            return f"reach-mismatch: pages in the tree {sorted(in_tree)} != pages reachable from the root {sorted(reach)}"
        # -- order
        pre = [node["slug"] for node, _ in nodes_preorder(tree) if node["slug"] is not None]
        if impl["order"] != pre:
            return f"order-mismatch: toctreeOrder {impl['order']} is not the pre-order {pre}"
        # -- parent paths
        chains = {}
        for node, anc in nodes_preorder(tree):
            if node is tree or node["slug"] is None:
                continue
            chains.setdefault(ref_clean(node["slug"]), []).append([ref_clean(a["slug"]) for a in anc[1:]])
        for k, v in impl["parentPaths"].items():
            if k not in chains:
                return f"parentpath-unknown: parentPaths has {k!r} which is no node of the tree"
            if v not in chains[k]:
                return f"parentpath-wrong: parentPaths[{k!r}] = {v} is not the ancestor chain of any occurrence {chains[k]}"
        for k in chains:
            if k not in impl["parentPaths"]:
                return f"parentpath-missing: page {k!r} is in the toctree (ancestors {chains[k][0]}) but has no parentPaths entry"
        # -- diagnostics
        want_orph = sorted(fid for fid, h, orphan, flat in files if fid.endswith(".txt") and ref_slug_of(fid) not in reach and not orphan)
        if impl["orphans"] != want_orph:
            return f"orphan-mismatch: OrphanedPage on {impl['orphans']}, unreachable and unmarked are {want_orph}"
        want_missing = []
        for s in reach:
            fid, h, o, flat = ref.by_slug[s]
            for e in flat:
                r = ref.resolve(e)
                if r and r[0] == "missing":
                    want_missing.append([fid, r[1]])
        if impl["missing"] != sorted(want_missing):
            return f"missing-mismatch: MissingTocTreeEntry {impl['missing']}, entries naming no page {sorted(want_missing)}"
        return None

    def finding_key(self, case, impl, desc):
        return desc.split(":")[0]

    def nontrivial_key(self, case, impl):
        if case["kind"] == "clean" or impl.get("exc"):
            return None
        t = impl.get("toctree")
        if not t or not any(c["slug"] for c in t["children"]):
            return None
        return json.dumps(case, sort_keys=True)

    def branch_tags(self, case, model, impl):
        tags = [case["kind"]]
        if case["kind"] == "clean":
            return tags
        if case.get("shape"):
            tags.append("shape:" + case["shape"])
        if impl.get("exc"):
            return tags + ["exc:" + impl["exc"]]
        t = impl["toctree"]
        if t is None:
            return tags + ["no-root"]
        seen, depth = {}, 0
        for node, anc in nodes_preorder(t):
            depth = max(depth, len(anc))
            if node["url"] is not None:
                tags.append("url-node")
            elif node["slug"] is not None and node is not t:
                seen[node["slug"]] = seen.get(node["slug"], 0) + 1
                if any(a["slug"] == node["slug"] for a in anc):
                    tags.append("back-edge" if anc[-1]["slug"] != node["slug"] else "self-ref")
                if node["slug"] == "/":
                    tags.append("root-ref")
                if node["project"]:
                    tags.append("project-node")
        if any(v > 1 for v in seen.values()):
            tags.append("shared-child")
        tags.append(f"depth:{min(depth, 6)}")
        if impl["missing"]:
            tags.append("missing-entry")
        if impl["orphans"]:
            tags.append("orphaned")
        if case["kind"] == "graph":
            for f in case["files"]:
                for b in f.get("blocks", []):
                    if b["entries"] and b["wrap"] != "plain":
                        tags.append("wrap:" + b["wrap"])
        return sorted(set(tags))

    def sample(self, case, impl):
        return {"case": case, "order": impl.get("order"), "parentPaths": impl.get("parentPaths"), "orphans": impl.get("orphans"), "missing": impl.get("missing")}


def model_canon(t):
    return {"slug": t["slug"], "url": t["label"] if t["kind"] == "url" else None, "title": t["title"],
            "project": t["label"] if t["kind"] == "project" else None, "children": [model_canon(c) for c in t["children"]]}


PROP = C10()
