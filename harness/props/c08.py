"""C08 — cross-references resolve to the right target; resolved links never dangle."""
import json
import re
import sys
import threading
import urllib.parse

import core
from impl import pp, rst
from snooty import intersphinx, n, rstparser, specparser, util
from snooty.n import FileId
from snooty.postprocess import Postprocessor
from snooty.target_database import TargetDatabase

_WS = re.compile(r"\s+")  # the harness's own copy of the normalisation (the oracle must not call the code under test)
DIAG_KINDS = {"TargetNotFound": "notfound", "AmbiguousTarget": "ambiguous", "ChildlessRef": "childless"}
WRAPS = {"literal": n.Literal, "emphasis": n.Emphasis, "strong": n.Strong}


def norm(s):
    return _WS.sub(" ", s)


# ---------------------------------------------------------------------------------------------
# case -> real ASTs
# ---------------------------------------------------------------------------------------------

def inl_nodes(spec, line):
    out = []
    for x in spec:
        if "text" in x:
            out.append(n.Text((line,), x["text"]))
        else:
            out.append(WRAPS[x["wrap"]]((line,), inl_nodes(x["kids"], line)))
    return out


def inl_spec(nodes):
    out = []
    for x in nodes:
        if isinstance(x, n.Text):
            out.append({"text": x.value})
        elif isinstance(x, n.Parent):
            out.append({"wrap": x.type, "kids": inl_spec(x.children)})
        else:
            out.append({"text": "\x01" + x.type})
    return out


def inl_text(spec):
    return "".join(x["text"] if "text" in x else inl_text(x["kids"]) for x in spec)


def has_text(spec):
    return any(("text" in x) or has_text(x["kids"]) for x in spec)


def build_file(name, items, incs):
    """items of one source file -> Page"""
    top = []
    stack = [(0, top)]
    for ln, it in enumerate(items):
        t = it["t"]
        if t == "heading":
            while len(stack) > 1 and stack[-1][0] >= it["depth"]:
                stack.pop()
            sec = n.Section((ln,), [n.Heading((ln,), inl_nodes(it["title"], ln), it["base"])])
            stack[-1][1].append(sec)
            stack.append((it["depth"], sec.children))
            continue
        if t == "target":
            node = n.Target((ln,), [n.TargetIdentifier((ln,), inl_nodes(i["title"], ln), list(i["ids"])) for i in it["idents"]],
                            it["domain"], it["role"], None, None)
        elif t == "ref":
            node = n.Paragraph((ln,), [n.RefRole((it["rid"],), inl_nodes(it["kids"], it["rid"]), it["domain"], it["role"],
                                                 it["target"], it["flag"], None, None)])
        elif t == "contents":
            node = n.Directive((ln,), [], "", "contents", [], {} if it["depth"] is None else {"depth": str(it["depth"])})
        elif t == "inc":
            node = n.Directive((ln,), [], "", "include", [n.Text((ln,), "/" + incs[it["file"]]["name"])], {})
        else:
            node = n.Paragraph((ln,), [n.Text((ln,), "p")])
        stack[-1][1].append(node)
    return pp.page(name, top)


def build_project(case):
    """-> (ordered list of Pages, inventories dict)"""
    if case["kind"] == "text":
        pages = [rst.parse(text, name)[0] for name, text in case["files"]]
    else:
        pages = [build_file(f["name"], f["items"], case["incs"]) for f in case["incs"]]
        pages += [build_file(f["name"], f["items"], case["incs"]) for f in case["pages"]]
    invs = {}
    for k, inv in enumerate(case.get("inv") or []):
        targets = {}
        for e in inv["entries"]:
            d, r = e["dr"].split(":", 1)
            targets[e["key"]] = intersphinx.TargetDefinition(e["name"], (d, r), -1, e["uri"], e["uri"], e["disp"])
        invs[f"inv{k}"] = intersphinx.Inventory(inv["base"], targets)
    return pages, invs


def root_pages(pages):
    return [p for p in pages if p.fileid.suffix == ".txt"]


# ---------------------------------------------------------------------------------------------
# AST -> document-order items (the input of the model, and the "before" picture for the oracle)
# ---------------------------------------------------------------------------------------------

def flatten(node, by_slug, src, depth, out, stack):
    """event order of EventParser._iterate; include directives are followed into the included file
    (plain includes only: the bounded variants are C06's business)"""
    if isinstance(node, n.Root):
        out.append({"t": "other"})
        for c in node.children:
            flatten(c, by_slug, node.fileid.as_posix(), depth, out, stack)
    elif isinstance(node, n.Section):
        for c in node.children:
            flatten(c, by_slug, src, depth + 1, out, stack)
    elif isinstance(node, n.Heading):
        out.append({"t": "heading", "depth": depth, "base": node.id, "title": inl_spec(node.children)})
    elif isinstance(node, n.RefRole):
        out.append({"t": "ref", "src": src, "rid": node.span[0], "domain": node.domain, "role": node.name,
                    "target": node.target, "flag": node.flag, "kids": inl_spec(node.children)})
    elif isinstance(node, n.Target):
        idents = [c for c in node.children if isinstance(c, n.TargetIdentifier)]
        out.append({"t": "target", "domain": node.domain, "role": node.name,
                    "idents": [{"ids": list(i.ids), "title": inl_spec(i.children)} for i in idents]})
        for c in node.children:
            if not isinstance(c, n.TargetIdentifier):
                flatten(c, by_slug, src, depth, out, stack)
    elif isinstance(node, n.Directive):
        if node.name == "contents":
            d = node.options.get("depth")
            out.append({"t": "contents", "depth": None if d is None else int(d)})
        else:
            out.append({"t": "other"})
        for a in node.argument:
            flatten(a, by_slug, src, depth, out, stack)
        if node.name in ("include", "sharedinclude"):
            arg = "".join(a.get_text() for a in node.argument)
            slug = arg.strip("/")
            for ext in (".txt", ".rst", ".yaml"):
                if slug.endswith(ext):
                    slug = slug[: -len(ext)]
                    break
            inc = by_slug.get(slug)
            if inc is not None and inc.fileid not in stack:
                flatten(inc.ast, by_slug, src, depth, out, stack + [inc.fileid])
        else:
            for c in node.children:
                flatten(c, by_slug, src, depth, out, stack)
    elif isinstance(node, n.Parent):
        out.append({"t": "other"})
        if isinstance(node, n.DefinitionListItem):
            for c in node.term:
                flatten(c, by_slug, src, depth, out, stack)
        for c in node.children:
            flatten(c, by_slug, src, depth, out, stack)
    else:
        out.append({"t": "other"})


def flat_pages(pages):
    by_slug = {p.fileid.without_known_suffix: p for p in pages}
    res = []
    for p in root_pages(pages):
        out = []
        flatten(p.ast, by_slug, p.fileid.as_posix(), 0, out, [p.fileid])
        res.append({"slug": p.fileid.without_known_suffix, "items": out[1:]})  # drop the page's own Root marker
    return res


def walk_src(node, src):
    """final AST in event order, with the file each node came from"""
    if isinstance(node, n.Root):
        src = node.fileid.as_posix()
    yield node, src
    if isinstance(node, n.Parent):
        if isinstance(node, n.DefinitionListItem):
            for t in node.term:
                yield from walk_src(t, src)
        if isinstance(node, n.Directive):
            for a in node.argument:
                yield from walk_src(a, src)
        for c in node.children:
            yield from walk_src(c, src)


def prefixes():
    spec = specparser.Spec.get()
    return [[k, v.prefix] for k, v in spec.rstobject.items()]


class C08(core.PropertyCheck):
    id = "C08"
    quick_budget = 6000
    thorough_budget = 30000
    rule = ("synthetic projects of 1-4 root pages + 0-2 shared include files (included from several pages / twice on a page): labels and "
            "rstobject-style targets (mongodb:method/setting/dbcommand, std:option) with one or two identifiers, duplicated within and across pages, "
            "labels with and without own titles followed or not by a heading, references with/without explicit text and formatting skeletons, "
            "flags ~ and !, whitespace / case variants, undefined names, 0-2 synthetic intersphinx inventories overlapping local names "
            "(incl. lower-cased keys), `contents` directives; run through the real Postprocessor.run and compared with the Lean model "
            "(whole local_definitions table, html ids, every reference outcome, per-file diagnostics, on-this-page lists); text-level projects "
            "through the real parser (roles with explicit titles, ~ / !, callable parentheses, prefixes, options). "
            "non-trivial = at least one reference with >= 2 candidates or a whitespace/case variant or an undefined name; distinct by content")
    assumptions = [
        "Python's \\s / str.isspace / str.strip whitespace set, \\w and str.lower are parameters of the model; "
        "`\\s` = str.isspace = strip set and isSpace(' ') are checked over all code points on every run",
        "pages are modelled after include expansion (C06 covers the expansion itself); the harness translator `flatten` follows plain includes",
        "urllib.parse.urljoin is opaque (computed by the harness); `std:doc` roles and the `mongodb:php` inventory fallback are outside the model",
        "generated strings hold no lone surrogates and no capital sigma (context-sensitive lower())",
    ]

    # ---- hypotheses of the theorems, checked on the running Python ----
    def static_obligations(self):
        bad = []
        pat = re.compile(r"\s")
        for cp in range(sys.maxunicode + 1):
            if 0xD800 <= cp <= 0xDFFF:
                continue
            ch = chr(cp)
            a = bool(pat.fullmatch(ch))
            b = ch.isspace()
            c = ("x" + ch + "x").strip() != ("x" + ch + "x") or (ch + "x").strip() == "x"
            if a != b or b != ((ch + "x").strip() == "x"):
                bad.append(cp)
        from snooty.types import normalize_target
        return [
            ("hS: `\\s`, str.isspace and the strip() set agree on every code point", not bad, str(bad[:5])),
            ("hB: the blank is whitespace (normalize_idempotent)", bool(pat.fullmatch(" ")), ""),
            ("normalize_target is re.sub(r'\\s+', ' ', .) on probes", all(normalize_target(s) == _WS.sub(" ", s) for s in ["a  b", " a\t\nb ", "", "a  b", "a\x1fb"]), ""),
        ]

    # ---- generation ----
    LABELS = ["a", "b", "a b", "A", "intro", "x.y", "A B", "a-b", "x/y"]   # "a b"/"a-b", "x.y"/"x/y": distinct names, one sanitised id
    OBJS = {
        ("mongodb", "method"): ["db.coll.find", "find", "db.coll.Find", "a"],
        ("mongodb", "setting"): ["net.port", "port", "a"],
        ("mongodb", "dbcommand"): ["dbcmd.find", "dbcmd.a", "dbcmd.dbcmd.x"],
        ("std", "option"): ["mongod.--port", "--port", "mongos.--port"],
    }
    TITLES = [[], [{"text": "Title"}], [{"text": "db.coll.find()"}], [{"wrap": "literal", "kids": [{"text": "net.port"}]}],
              [{"text": "a. b "}, {"text": "x"}], [{"text": "trailing."}], [{"text": " . "}], [{"text": "É.Ü x"}]]
    HEADS = ["h", "h", "sec", "h-1"]

    def variant(self, rng, name):
        r = rng.random()
        if r < 0.6:
            return name
        if r < 0.75 and " " in name:
            return name.replace(" ", rng.choice(["  ", "\t", "\n", " \t ", " "]))
        if r < 0.85:
            return name.swapcase()
        if r < 0.9:
            return name + " "
        if r < 0.95:
            return name.lower()
        return name + "x"

    def gen_items(self, rng, names, ninc, rid, allow_contents=True):
        items = []
        for _ in range(rng.randint(1, 7)):
            r = rng.random()
            if r < 0.22:
                nm = rng.choice(names["label"])
                title = rng.choice(self.TITLES) if rng.random() < 0.5 else []
                items.append({"t": "target", "domain": "std", "role": "label", "idents": [{"ids": [nm], "title": title}]})
            elif r < 0.40:
                dr = rng.choice(sorted(self.OBJS))
                pool = names[dr]
                idents = []
                for _k in range(rng.choice([1, 1, 1, 2])):
                    ids = [rng.choice(pool) for _j in range(rng.choice([1, 1, 1, 2]))]
                    idents.append({"ids": ids, "title": rng.choice(self.TITLES)})
                if rng.random() < 0.02:
                    idents.append({"ids": [], "title": []})
                items.append({"t": "target", "domain": dr[0], "role": dr[1], "idents": idents})
            elif r < 0.52:
                items.append({"t": "heading", "depth": rng.choice([1, 2, 2, 3]), "base": rng.choice(self.HEADS),
                              "title": rng.choice(self.TITLES[1:])})
            elif r < 0.85:
                dr = rng.choice([("std", "label")] * 3 + sorted(self.OBJS))
                pool = names["label"] if dr == ("std", "label") else names[dr]
                allp = self.LABELS if dr == ("std", "label") else self.OBJS[dr]
                tgt = self.variant(rng, rng.choice(pool)) if rng.random() < 0.85 else rng.choice(allp + ["nope"])
                kids = rng.choice([[], [], [], [{"wrap": "literal", "kids": []}], [{"text": "explicit"}], [{"text": "explicit"}],
                                   [{"wrap": "emphasis", "kids": [{"text": "fmt"}]}],
                                   [{"wrap": "literal", "kids": []}, {"wrap": "literal", "kids": []}],
                                   [{"wrap": "strong", "kids": [{"wrap": "literal", "kids": []}]}]])
                rid[0] += 1
                items.append({"t": "ref", "rid": rid[0], "domain": dr[0], "role": dr[1], "target": tgt,
                              "flag": rng.choice(["", "", "", "~", "~", "!"]), "kids": kids})
            elif r < 0.87:
                prog = rng.choice(["mongod", "mongod", "mongos"])
                idents = [{"ids": [prog], "title": [{"text": prog}]}] if rng.random() < 0.9 else rng.choice([[], [{"ids": [prog], "title": []}]])
                items.append({"t": "target", "domain": "std", "role": "program", "idents": idents})
            elif r < 0.91 and ninc > 0:
                items.append({"t": "inc", "file": rng.randrange(ninc)})
            elif r < 0.94 and allow_contents:
                items.append({"t": "contents", "depth": rng.choice([None, None, 1, 2, 0])})
            else:
                items.append({"t": "para"})
        return items

    def gen_project(self, rng):
        names = {"label": rng.sample(self.LABELS, rng.randint(1, 3))}
        for dr, pool in self.OBJS.items():
            names[dr] = rng.sample(pool, rng.randint(1, 2))
        ninc = rng.choice([0, 0, 1, 2])
        rid = [0]
        incs = []
        for i in range(ninc):
            # an include file may include an earlier one (no cycles)
            incs.append({"name": f"includes/i{i}.rst", "items": self.gen_items(rng, names, i, rid, allow_contents=False)})
        pnames = ["index.txt", "page1.txt", "dir/page2.txt", "page3.txt"]
        pages = [{"name": pnames[i], "items": self.gen_items(rng, names, ninc, rid)} for i in range(rng.choice([1, 2, 2, 3, 4]))]
        inv = []
        if rng.random() < 0.4:
            for k in range(rng.choice([1, 1, 2])):
                entries = []
                for _ in range(rng.randint(1, 3)):
                    dr = rng.choice([("std", "label")] * 2 + sorted(self.OBJS))
                    nm = rng.choice(names["label"] if dr == ("std", "label") else names[dr])
                    key = f"{dr[0]}:{dr[1]}:{nm}"
                    if rng.random() < 0.4:
                        key = key.lower()
                    entries.append({"key": key, "name": nm, "dr": f"{dr[0]}:{dr[1]}", "uri": f"ext{k}/#{dr[1]}-{len(entries)}",
                                    "disp": rng.choice([None, "Shown", "É.x"])})
                inv.append({"base": f"https://inv{k}.example/docs/", "entries": entries})
        return {"kind": "proj", "pages": pages, "incs": incs, "inv": inv}

    TEXT_ROLES = [
        (":ref:`{f}lbl`", None), (":ref:`Explicit text <{f}lbl>`", None), (":ref:`{f}other  lbl`", None), (":ref:`{f}missing`", None),
        (":method:`{f}db.coll.find()`", None), (":method:`{f}db.coll.find(query, projection)`", None), (":method:`the finder <{f}db.coll.find()>`", None),
        (":method:`{f}db.coll.nothing()`", None), (":setting:`{f}net.port`", None), (":dbcommand:`{f}find`", None), (":dbcommand:`{f}dbcmd.find`", None),
        (":option:`{f}mongod --port`", None), (":option:`{f}--port`", None),
        # whitespace variants between program and option (double space, tab, wrapped across source lines)
        (":option:`{f}mongod  --port`", None), (":option:`{f}mongod\t--port`", None), (":option:`{f}mongod\n--port`", None), (":binary:`{f}mongod`", None), (":binary:`{f}bin.mongod`", None),
        (":py:class:`{f}foo.Bar`", None), (":mongodb:setting:`{f}net.port`", None),
        (":method:`{f}db.coll.aggregate()`", None), (":method:`{f}db.coll.aggregate()`", None),
    ]

    def gen_text(self, rng):
        lines = [".. _lbl:", "", "Title Of Page", "=============", ""]
        if rng.random() < 0.5:
            lines += [".. contents::", "   :depth: 2", ""]
        defs = [
            [".. _other lbl:", "", "Sub Heading", "-----------", ""],
            [".. method:: db.coll.find(query)", "", "   finds", ""],
            [".. setting:: net.port", "", "   the port", ""],
            [".. dbcommand:: find", "", "   cmd", ""],
            [".. program:: mongod", "", ".. option:: --port <n>", "", "   port", ""],
            [".. binary:: mongod", "", "   bin", ""],
            # a callable whose signature is long enough to wrap
            [".. method:: db.coll.aggregate(pipeline,", "   options)", "", "   aggregates", ""],
            # the same kinds of object with the directive written under its qualified name
            [".. mongodb:setting:: net.port", "", "   the port", ""],
            [".. py:class:: foo.Bar", "", "   a class", ""],
            [".. mongodb:dbcommand:: find", "", "   cmd", ""],
            [".. _lbl:", "", "Another", "-------", ""],
            ["Sub Heading", "-----------", ""],
        ]
        chosen = [d for d in defs if rng.random() < 0.6]
        refs = []
        for _ in range(rng.randint(2, 6)):
            tmpl, _x = rng.choice(self.TEXT_ROLES)
            refs += ["para " + tmpl.format(f=rng.choice(["", "", "~", "!"])) + " end", ""]
        second = []
        for d in chosen:
            (lines if rng.random() < 0.7 else second).extend(d)
        lines += refs
        files = [["index.txt", "\n".join(lines) + "\n"]]
        if second or rng.random() < 0.3:
            more = ["Second Page", "===========", ""] + second
            for _ in range(rng.randint(0, 3)):
                tmpl, _x = rng.choice(self.TEXT_ROLES)
                more += ["para " + tmpl.format(f=rng.choice(["", "~"])) + " end", ""]
            files.append(["second.txt", "\n".join(more) + "\n"])
        return {"kind": "text", "files": files, "inv": []}

    ROLE_KINDS = [["", "plain"], ["", "callable"], ["", "cmdline_option"], ["dbcmd", "plain"], ["bin", "plain"], ["phpmethod", "callable"]]
    ROLE_ATOMS = ["a", "db.coll.find", "()", "(x, y)", "(", ")", "(\n)", "\n(", " ", "  ", "\t", "\n", "<", ">", "\x00<", "\x00>", "\x00", '\x00"', "~", "!",
                  "dbcmd", "dbcmd.", "bin.", "--port", "mongod", "label", "<t>", " <t>", "\x00 ", ".", "É", "bin", "bindiff", "dbcmds"]

    def gen_role(self, rng):
        pfx, ty = rng.choice(self.ROLE_KINDS)
        r = rng.random()
        if r < 0.35:
            tgt = "".join(rng.choice(self.ROLE_ATOMS) for _ in range(rng.randint(1, 4)))
            text = rng.choice(["", "label", "two words ", "l\x00<x\x00> "]) + rng.choice(["<", " <", "  <"]) + rng.choice(["", "~", "!"]) + tgt + ">"
        elif r < 0.6:
            text = rng.choice(["", "~", "!"]) + rng.choice(["db.coll.find", "find", "mongod --port", "--port", "a b  c", "dbcmd.find", "bin.mongod", "bindiff", "bin", "binary.x", "dbcmdline"]) + \
                rng.choice(["", "()", "(a, b)", " ()", "() ", "(a)(b)", ")("])
        else:
            text = "".join(rng.choice(self.ROLE_ATOMS) for _ in range(rng.randint(0, 6)))
        return {"kind": "role", "prefix": pfx, "type": ty, "text": text}

    def generate(self, rng, budget, tier):
        for _ in range(budget):
            yield self.gen_project(rng)
        for _ in range(budget // 10):
            yield self.gen_text(rng)
        for _ in range(budget // 3):
            yield self.gen_role(rng)

    def shrink_candidates(self, case):
        if case["kind"] == "role":
            t = case["text"]
            for i in range(len(t)):
                yield {**case, "text": t[:i] + t[i + 1:]}
            return
        if case["kind"] == "text":
            for fi, (name, text) in enumerate(case["files"]):
                if fi > 0:
                    yield {**case, "files": case["files"][:fi] + case["files"][fi + 1:]}
                paras = text.split("\n\n")
                for i in range(len(paras)):
                    yield {**case, "files": case["files"][:fi] + [[name, "\n\n".join(paras[:i] + paras[i + 1:])]] + case["files"][fi + 1:]}
            return
        if case.get("inv"):
            yield {**case, "inv": []}
            for k, inv in enumerate(case["inv"]):
                for i in range(len(inv["entries"])):
                    ninv = {**inv, "entries": inv["entries"][:i] + inv["entries"][i + 1:]}
                    yield {**case, "inv": case["inv"][:k] + [ninv] + case["inv"][k + 1:]}
        for grp in ("pages", "incs"):
            files = case[grp]
            for fi, f in enumerate(files):
                if grp == "pages" and len(files) > 1:
                    yield {**case, "pages": files[:fi] + files[fi + 1:]}
                for i, it in enumerate(f["items"]):
                    nf = {**f, "items": f["items"][:i] + f["items"][i + 1:]}
                    yield {**case, grp: files[:fi] + [nf] + files[fi + 1:]}
                    if it["t"] == "target" and len(it["idents"]) > 1:
                        for k in range(len(it["idents"])):
                            nit = {**it, "idents": it["idents"][:k] + it["idents"][k + 1:]}
                            nf = {**f, "items": f["items"][:i] + [nit] + f["items"][i + 1:]}
                            yield {**case, grp: files[:fi] + [nf] + files[fi + 1:]}
                    if it["t"] == "inc":
                        # inline the include
                        inner = [x for x in case["incs"][it["file"]]["items"]]
                        nf = {**f, "items": f["items"][:i] + inner + f["items"][i + 1:]}
                        yield {**case, grp: files[:fi] + [nf] + files[fi + 1:]}

    # ---- implementation ----
    def run_role(self, case):
        ty = {"plain": specparser.TargetType.plain, "callable": specparser.TargetType.callable,
              "cmdline_option": specparser.TargetType.cmdline_option}[case["type"]]
        h = rstparser.RefRoleHandler("mongodb", "r", case["prefix"] or None, ty, frozenset())
        try:
            nodes, _msgs = h("r", "", case["text"], 1, None)
        except Exception as e:
            return {"exc": type(e).__name__, "role": None}
        node = nodes[0]
        kids = list(node.children)
        label = None
        if kids:
            label = kids[0].astext()
        return {"exc": None, "role": {"target": node["target"], "flag": node["flag"] if "flag" in node else "", "label": label}}

    def run_impl(self, case):
        if case["kind"] == "role":
            return self.run_role(case)
        pages, invs = build_project(case)
        before = flat_pages(pages)
        db = TargetDatabase()
        db.intersphinx_inventories = invs
        try:
            res = Postprocessor(pp.config(), db).run({p.fileid: p for p in pages}, threading.Event())
        except Exception as e:
            return {"exc": type(e).__name__, "msg": str(e)[:200], "before": before}
        out_pages = []
        for p in root_pages(pages):
            ast = res.pages[p.fileid].ast
            targets, heads, refs = [], [], []
            for node, src in walk_src(ast, p.fileid.as_posix()):
                if isinstance(node, n.RefRole):
                    refs.append({"src": src, "rid": node.span[0], "domain": node.domain, "role": node.name, "target": node.target,
                                 "flag": node.flag, "fileid": list(node.fileid) if node.fileid is not None else None, "url": node.url,
                                 "kids": inl_spec(node.children)})
                elif isinstance(node, n.Target):
                    idents = [c for c in node.children if isinstance(c, n.TargetIdentifier)]
                    targets.append({"html_id": node.html_id, "domain": node.domain, "role": node.name,
                                    "idents": [{"ids": list(i.ids), "title": inl_spec(i.children)} for i in idents]})
                elif isinstance(node, n.Heading):
                    heads.append(node.id)
                elif isinstance(node, n.Directive) and node.name == "collapsible":
                    heads.append(node.options.get("id"))
            hl = ast.options.get("headings") if isinstance(ast, n.Root) else None
            out_pages.append({"slug": p.fileid.without_known_suffix, "fileid": p.fileid.as_posix(), "targets": targets, "headings": heads,
                              "refs": refs, "contents": None if hl is None else [[h["depth"], h["id"]] for h in hl]})
        diags = {}
        for fid, ds in res.diagnostics.items():
            lst = []
            for d in ds:
                k = DIAG_KINDS.get(type(d).__name__)
                if k == "notfound":
                    lst.append([k, d.name, d.target, d.start[0]])
                elif k == "ambiguous":
                    lst.append([k, d.name, d.target, list(d.candidates), d.start[0]])
                elif k == "childless":
                    lst.append([k, d.start[0]])
            if lst:
                diags[fid.as_posix()] = lst
        dbd = [[k, [[d.canonical_name, d.fileid.without_known_suffix, d.html5_id, inl_spec(d.title)] for d in v]]
               for k, v in res.targets.local_definitions.items() if v]
        return {"exc": None, "pages": out_pages, "diags": diags, "db": dbd, "before": before,
                "built": sorted(f.as_posix() for f in res.pages)}

    # ---- model ----
    def model_request(self, case):
        if case["kind"] == "role":
            return {"op": "c08.role", "spacechars": "".join(sorted(c for c in set(case["text"]) | {" "} if c.isspace())),
                    "roles": [{"prefix": case["prefix"], "type": case["type"], "text": case["text"]}]}
        pages, invs = build_project(case)
        flat = flat_pages(pages)
        chars = set()

        def scan(x):
            if isinstance(x, str):
                chars.update(x)
            elif isinstance(x, dict):
                for v in x.values():
                    scan(v)
            elif isinstance(x, list):
                for v in x:
                    scan(v)
        scan(flat)
        scan(case.get("inv") or [])
        chars.update(" :-.")
        jinv = []
        for inv in (case.get("inv") or []):
            jinv.append([{"key": e["key"], "name": e["name"], "dr": e["dr"], "url": urllib.parse.urljoin(inv["base"], e["uri"]), "disp": e["disp"]}
                         for e in dedup_last(inv["entries"])])
        pat_w = util.PAT_INVALID_ID_CHARACTERS
        return {"op": "c08.run",
                "spacechars": "".join(sorted(c for c in chars if c.isspace())),
                "wordchars": "".join(sorted(c for c in chars if ord(c) > 127 and pat_w.sub("-", c) == c)),
                "lowertab": [[c, c.lower()] for c in sorted(chars) if c.lower() != c],
                "prefixes": prefixes(), "inventories": jinv, "pages": flat}

    def compare(self, case, model, impl):
        if case["kind"] == "role":
            if impl["exc"]:
                return f"role handler raised {impl['exc']}"
            m = model["out"][0]
            want = {"target": m["target"], "flag": m["flag"], "label": m["label"] or None}
            got = dict(impl["role"])
            got["label"] = got["label"] or None
            return None if want == got else f"role text {case['text']!r} ({case['prefix']!r}, {case['type']}): model {want} impl {got}"
        if impl["exc"] or model.get("exc"):
            if impl["exc"] != model.get("exc"):
                return f"exception differs: model {model.get('exc')} impl {impl['exc']} {impl.get('msg')}"
            return None
        if model["db"] != impl["db"]:
            return f"local_definitions differ: model {model['db']} impl {impl['db']}"
        mdiags = {}
        for pg, mids, mrefs, mcont in zip(impl["pages"], model["htmlIds"], model["refs"], model["contents"]):
            got_ids = [t["html_id"] for t in pg["targets"]]
            if got_ids != mids:
                return f"html ids differ on {pg['slug']}: model {mids} impl {got_ids}"
            if mcont != pg["contents"]:
                return f"on-this-page list differs on {pg['slug']}: model {mcont} impl {pg['contents']}"
            if len(mrefs) != len(pg["refs"]):
                return f"number of references differs on {pg['slug']}"
            for mr, ir in zip(mrefs, pg["refs"]):
                idest = ["f"] + ir["fileid"] if ir["fileid"] is not None else (["u", ir["url"]] if ir["url"] is not None else None)
                got = {"src": ir["src"], "rid": ir["rid"], "target": ir["target"], "dest": idest, "kids": ir["kids"]}
                want = {k: mr[k] for k in got}
                if got != want:
                    return f"reference outcome differs on {pg['slug']}: model {want} impl {got}"
                for d in mr["diags"]:
                    if d[0] == "childless":
                        mdiags.setdefault(mr["src"], []).append(["childless", mr["rid"]])
                    else:
                        mdiags.setdefault(mr["src"], []).append(d + [mr["rid"]])
        if mdiags != impl["diags"]:
            return f"diagnostics differ: model {mdiags} impl {impl['diags']}"
        return None

    # ---- direct oracle: the property itself on the implementation's output ----
    def oracle(self, case, impl):
        if case["kind"] == "role":
            return self.role_oracle(case, impl)
        if impl["exc"]:
            return None  # totality is C02's business
        pages = {p["slug"]: p for p in impl["pages"]}
        # definitions actually present in the built output: key -> [(slug, html_id, ids of the identifier, title text)]
        defs = {}
        for p in impl["pages"]:
            for t in p["targets"]:
                for ident in t["idents"]:
                    for i in ident["ids"]:
                        defs.setdefault(f"{t['domain']}:{t['role']}:{norm(i)}", []).append(
                            (p["slug"], t["html_id"], tuple(ident["ids"]), inl_text(ident["title"])))
        if case["kind"] == "text":
            for p in impl["pages"]:
                for t in p["targets"]:
                    if ":" in t["role"]:
                        # independent of how roles look targets up: a role is named <domain>:<name>, so a definition whose NAME
                        # holds a domain prefix of its own can be reached by no reference at all
                        return (f"definition {t['domain']}:{t['role']} {[i for ident in t['idents'] for i in ident['ids']]} on {p['slug']} is registered under a "
                                f"role name that itself holds a domain prefix (directive written under its qualified name): no reference role resolves to it")
        invs = case.get("inv") or []
        diag_count = {}
        for f, ds in impl["diags"].items():
            for d in ds:
                diag_count[(f, d[0], d[-1])] = diag_count.get((f, d[0], d[-1]), 0) + 1
        amb_min, amb_max, nf_need = {}, {}, {}
        for pb, p in zip(impl["before"], impl["pages"]):
            orig = [it for it in pb["items"] if it["t"] == "ref"]
            if [o["rid"] for o in orig] != [r["rid"] for r in p["refs"]]:
                return f"references of {p['slug']} lost or reordered"
            for o, r in zip(orig, p["refs"]):
                if (o["domain"], o["role"]) == ("std", "doc"):
                    continue
                if case["kind"] == "text" and o["role"] == "option" and re.sub(r"\s+", "", o["target"]) == "mongod--port":
                    # independent of the parse-time role handler: "<program> <option>" names the option of that program,
                    # whatever whitespace separates the two (double space, tab, a line break inside the role text)
                    return (f"program-qualified option reference {o['target']!r} (line {o['rid']}) was not normalised to 'mongod.--port': "
                            "a defined option is then reported as not found")
                if (case["kind"] == "text" and o["role"] == "method" and o["target"] == "db.coll.aggregate" and r["fileid"] is None and r["url"] is None
                        and any(".. method:: db.coll.aggregate(" in text for _nm, text in case["files"])):
                    # independent of how the directive strips the parameter list: a callable is known by its name, however its
                    # signature is laid out in the source
                    return (f"reference method:'db.coll.aggregate' (line {o['rid']}) on {p['slug']}: the method is defined (`.. method:: db.coll.aggregate(pipeline,` "
                            "continued on the next line) but the reference has no destination")
                key = norm(f"{o['domain']}:{o['role']}:{o['target']}")
                local = defs.get(key, [])
                ext = []
                for inv in invs:
                    table = {e["key"]: e for e in inv["entries"]}
                    e = table.get(key) or table.get(key.lower())
                    if e is not None:
                        ext.append(urllib.parse.urljoin(inv["base"], e["uri"]))
                where = f"reference {o['role']}:{o['target']!r} (line {o['rid']}) on {p['slug']}"
                dkey = (r["src"], r["rid"])
                if has_text(o["kids"]) and r["kids"] != o["kids"]:
                    return f"explicit text of {where} changed: {o['kids']} -> {r['kids']}"
                if not local and not ext:
                    if r["fileid"] is not None or r["url"] is not None:
                        return f"{where} has no definition anywhere but was resolved to {r['fileid'] or r['url']}"
                    nf_need[dkey] = nf_need.get(dkey, 0) + 1
                    continue
                # defined: must have a destination belonging to one of the definitions
                if r["fileid"] is None and r["url"] is None:
                    return f"{where} is defined ({len(local)} local, {len(ext)} external) but was left unresolved"
                chosen = None
                if r["fileid"] is not None:
                    slug, anchor = r["fileid"]
                    tp = pages.get(slug)
                    if tp is None or (slug + ".txt") not in impl["built"]:
                        return f"{where} points to page {slug!r} which is not part of the build"
                    if anchor not in [t["html_id"] for t in tp["targets"]]:
                        return f"{where} points to {slug}#{anchor} but no target on that page carries this id (dangling link)"
                    carriers = [t for t in tp["targets"] if t["html_id"] == anchor]
                    if len(carriers) > 1 and len({tuple(tuple(i["ids"]) for i in t["idents"]) for t in carriers}) > 1:
                        return (f"{where} points to {slug}#{anchor}, an id that {len(carriers)} different targets of that page carry: "
                                "the link lands on whichever comes first")
                    mine = [d for d in local if d[0] == slug and d[1] == anchor]
                    if not mine:
                        return f"{where} points to {slug}#{anchor}, which is not a definition of that name (definitions: {[(d[0], d[1]) for d in local]})"
                    chosen = mine
                    if not any(r["target"] in d[2] for d in mine):
                        return f"{where}: node target {r['target']!r} is not a name of the chosen definition"
                else:
                    if r["url"] not in ext:
                        return f"{where} got url {r['url']!r}, not an inventory entry of that name ({ext})"
                # competing definitions
                nodes = sorted(set((d[0], d[1]) for d in local))
                clean = len(nodes) == len(local)  # no name repeated inside one target node
                total = len(local) + len(ext)
                if total == 1:
                    amb_max[dkey] = amb_max.get(dkey, 0)
                elif clean:
                    here = [d for d in nodes if d[0] == p["slug"]]
                    if len(nodes) == 1:
                        # single local definition next to inventory entries: the code prefers it silently; accept that or a report
                        if r["fileid"] is not None and tuple(r["fileid"]) == nodes[0]:
                            amb_max[dkey] = amb_max.get(dkey, 0) + 1
                        else:
                            amb_min[dkey] = amb_min.get(dkey, 0) + 1
                            amb_max[dkey] = amb_max.get(dkey, 0) + 1
                    elif len(nodes) > 1 and len(here) == 1:
                        if r["fileid"] is None or tuple(r["fileid"]) != here[0]:
                            return f"{where}: the only same-page definition {here[0]} was not preferred (got {r['fileid'] or r['url']})"
                        amb_max[dkey] = amb_max.get(dkey, 0)
                    else:
                        amb_min[dkey] = amb_min.get(dkey, 0) + 1
                        amb_max[dkey] = amb_max.get(dkey, 0) + 1
                else:
                    amb_max[dkey] = amb_max.get(dkey, 0) + 1
                # injected title
                if not has_text(o["kids"]) and chosen is not None and r["kids"] != o["kids"]:
                    got = inl_text(r["kids"])
                    titles = [d[3] for d in chosen]
                    if "~" not in o["flag"]:
                        if got not in titles:
                            return f"{where}: injected text {got!r} is not the title of the chosen definition {titles}"
                    elif not any(is_subseq(got, t) for t in titles):
                        return f"{where}: abbreviated text {got!r} is not part of the title of the chosen definition {titles}"
        for dkey, need in nf_need.items():
            have = diag_count.get((dkey[0], "notfound", dkey[1]), 0)
            if have < need:
                return f"undefined reference at line {dkey[1]} of {dkey[0]}: {need} occurrence(s) but {have} TargetNotFound diagnostic(s)"
        for (f, kind, line), have in diag_count.items():
            if kind == "notfound" and have > nf_need.get((f, line), 0):
                return f"TargetNotFound reported at line {line} of {f} for a defined target"
            if kind == "ambiguous" and (f, line) in amb_max and have > amb_max[(f, line)]:
                return f"AmbiguousTarget reported at line {line} of {f} although the definition is unique or decided by the same-page rule"
        for dkey, need in amb_min.items():
            have = diag_count.get((dkey[0], "ambiguous", dkey[1]), 0)
            if have < need:
                return f"competing definitions for the reference at line {dkey[1]} of {dkey[0]} not reported as AmbiguousTarget ({have} < {need})"
        for p in impl["pages"]:
            for depth, hid in (p["contents"] or []):
                if hid not in p["headings"]:
                    return f"on-this-page entry {hid!r} of {p['slug']} is not the id of a heading of that page ({p['headings']})"
        return None

    def role_oracle(self, case, impl):
        """the part of the property that is decided at parse time, for unambiguous spellings only:
        `label <target>` keeps the label and links the target, `~`/`!` are flags and not part of the name,
        a callable's trailing argument list is not part of the name, the giza prefix is added once"""
        if impl["exc"]:
            return None
        text, role = case["text"], impl["role"]
        m = re.fullmatch(r"(?:([a-z][a-z ]*[a-z]) )?(<)?([~!]?)([a-z][a-z.]*[a-z])(\(\))?(>)?", text)
        if not m or bool(m.group(2)) != bool(m.group(6)) or (m.group(1) and not m.group(2)):
            return None
        label, _o, flag, name, parens, _c = m.groups()
        if not m.group(2) and label:
            return None
        if parens and case["type"] != "callable":
            return None
        want = name
        # the definition side registers prefix + "." + name for EVERY name; a reference may spell the prefix out
        if case["prefix"] and not want.startswith(case["prefix"] + "."):
            want = case["prefix"] + "." + want
        if role["target"] != want:
            return f"role text {text!r} ({case['prefix']!r}, {case['type']}) links {role['target']!r}, expected {want!r}"
        if role["flag"] != flag:
            return f"role text {text!r}: flag {role['flag']!r}, expected {flag!r}"
        if label and role["label"] != label:
            return f"role text {text!r}: explicit label {role['label']!r}, expected {label!r}"
        if not label and case["type"] != "cmdline_option" and role["label"]:
            return f"role text {text!r}: label {role['label']!r} invented"
        return None

    # ---- :doc: roles written in an include that lives in another directory than the page ----
    def extra_checks(self, tier, rng):
        """A relative `:doc:` target without text of its own, written in an include: the link is emitted as written and leads, from
        the page that is built, to a page next to THAT page; the text put into it has to be the title of the page it leads to.
        (rst text through the real parser + Postprocessor; the file the parser looks for while parsing is not on disk here, so its
        CannotOpenFile diagnostics are not looked at.)"""
        viol, n_ = [], 0
        for _ in range(6 if tier == "quick" else 60):
            pdir = rng.choice(["guides", "ref/deep", "a"])
            idir = rng.choice(["includes", "includes/sub", "shared"])
            name = rng.choice(["install", "setup", "x"])
            spell = rng.choice([name, "./" + name, name])
            t_near, t_far = f"Near {rng.randint(0, 99)}", f"Far {rng.randint(0, 99)}"
            files = {
                "index.txt": f"=====\nIndex\n=====\n\n.. toctree::\n\n   /{pdir}/index\n   /{pdir}/{name}\n   /{idir}/{name}\n",
                f"{pdir}/index.txt": f"=====\nGuide\n=====\n\n.. include:: /{idir}/fact.rst\n",
                f"{pdir}/{name}.txt": "=" * len(t_near) + f"\n{t_near}\n" + "=" * len(t_near) + "\n\nText.\n",
                f"{idir}/{name}.txt": "=" * len(t_far) + f"\n{t_far}\n" + "=" * len(t_far) + "\n\nText.\n",
                f"{idir}/fact.rst": f"See :doc:`{spell}` for more.\n",
            }
            case = {"kind": "docrel", "files": files, "page": f"{pdir}/index.txt", "near": t_near, "far": t_far}
            n_ += 1
            try:
                pages = [rst.parse(text, fid)[0] for fid, text in files.items()]
                res = pp.run(pages)
                roles = [x for x in pp.walk(res.pages[n.FileId(case["page"])].ast) if isinstance(x, n.RefRole) and x.name == "doc"]
            except Exception as e:
                viol.append({"case": case, "desc": f"doc-title: building the project raised {type(e).__name__}: {e}"[:300], "key": "doc-title:raised"})
                break
            got = ["".join(c.get_text() for c in r.children) for r in roles]
            links = [r.fileid[0] if r.fileid else None for r in roles]
            if got != [t_near]:
                viol.append({"case": case, "impl": {"text": got, "fileid": links},
                             "desc": (f"doc-title: :doc:`{spell}` written in {idir}/fact.rst and built into {case['page']} is emitted as {links} - from that "
                                      f"page it leads to {pdir}/{name} ({t_near!r}) - but carries the text {got} (the page {idir}/{name} is titled {t_far!r})"),
                             "key": "doc-title"})
                break
        return viol, {"relative_doc_roles_in_includes": n_}

    def finding_key(self, case, impl, desc):
        d = re.sub(r"\(line \d+\)|line \d+", "", desc)
        d = re.sub(r"'[^']*'|\"[^\"]*\"|\[[^\]]*\]|\([^)]*\)|\{[^}]*\}", "", d)
        d = re.sub(r" on \S+| of \S+", "", d)
        return " ".join(d.split())[:90]

    def nontrivial_key(self, case, impl):
        if case["kind"] == "role":
            return json.dumps(case, sort_keys=True) if any(c in case["text"] for c in "<(~! \x00") else None
        if impl.get("exc"):
            return None
        return json.dumps(case, sort_keys=True) if self.branch_tags(case, None, impl)[1:] else None

    def branch_tags(self, case, model, impl):
        tags = [case["kind"]]
        if impl.get("exc"):
            return tags + ["exc:" + impl["exc"]]
        if case["kind"] == "role":
            r = impl["role"]
            return tags + (["role-label"] if r["label"] else []) + (["role-flag"] if r["flag"] else []) + \
                (["role-oracle"] if re.fullmatch(r"(?:([a-z][a-z ]*[a-z]) )?(<)?([~!]?)([a-z][a-z.]*[a-z])(\(\))?(>)?", case["text"]) else [])
        kinds = set()
        for f, ds in impl["diags"].items():
            for d in ds:
                kinds.add(d[0])
            if f.endswith(".rst"):
                kinds.add("diag-in-include")
        for pb, p in zip(impl["before"], impl["pages"]):
            for o, r in zip([it for it in pb["items"] if it["t"] == "ref"], p["refs"]):
                if r["fileid"] is not None:
                    kinds.add("to-same-page" if r["fileid"][0] == p["slug"] else "to-other-page")
                if r["url"] is not None:
                    kinds.add("to-url")
                if norm(o["target"]) != o["target"]:
                    kinds.add("ws-variant")
                if "~" in o["flag"]:
                    kinds.add("abbrev")
                if r["src"] != p["fileid"]:
                    kinds.add("ref-in-include")
                if has_text(o["kids"]):
                    kinds.add("explicit-text")
            if p["contents"]:
                kinds.add("contents")
            if any(t["html_id"] and re.search(r"-\d+$", t["html_id"]) for t in p["targets"]):
                kinds.add("suffixed-id")
        return tags + sorted(kinds)

    def sample(self, case, impl):
        if case["kind"] == "role":
            return {"case": case, "role": impl.get("role")}
        if impl.get("exc"):
            return {"case": case, "exc": impl["exc"]}
        return {"case": case, "refs": [[r["rid"], r["fileid"] or r["url"]] for p in impl["pages"] for r in p["refs"]][:8],
                "diags": impl["diags"]}


def is_subseq(a, b):
    it = iter(b)
    return all(c in it for c in a)


def dedup_last(entries):
    """a dict keeps the last value of a repeated key, at the position of the first"""
    out = {}
    for e in entries:
        out[e["key"]] = e
    return list(out.values())


PROP = C08()
