"""C02 — postprocessing is total: any parsed project yields output plus diagnostics."""
import json
import re
import traceback
from pathlib import Path

import core
from impl import pp, rst
from snooty import n
from snooty.types import ProjectConfig

# (name, options that may be given [value samples], argument samples, takes content)
SPECIAL = [
    ("tabs", {"tabset": ["drivers", "platforms", ""], "hidden": ["true", ""]}, ["", "Arg"], True),
    ("tab", {"tabid": ["shell", "python", "a b", ""]}, ["", "Shell", "Py"], True),
    ("tabs-selector", {"default-tabid": ["shell", "nope"]}, ["", "drivers", "platforms", "x"], False),
    ("tabs-pillstrip", {"default-tabid": ["shell"]}, ["", "drivers"], False),
    ("method-selector", {}, [""], True),
    ("method-option", {"id": ["driver", "cli", "mongosh", "zz", ""]}, [""], True),
    ("method-description", {}, [""], True),
    ("facet", {"name": ["genre", "programming_language", "zz", ""], "values": ["tutorial", "a,b", ""]}, [""], True),
    ("collapsible", {"heading": ["Head", "", " "], "sub_heading": ["s"], "expanded": ["true", ""]}, [""], True),
    ("contents", {"depth": ["1", "2", "x", ""], "local": [""], "backlinks": ["none"], "class": ["singlecol"]}, ["", "On this page"], False),
    ("multi-page-tutorial", {"time-required": ["3", "x", ""], "show-next-top": ["true", ""]}, [""], False),
    ("openapi-changelog", {"api-version": ["2.0", "x"]}, ["", "cloud"], False),
    ("chapters", {}, [""], True),
    ("chapter", {"description": ["d"], "image": ["/i.png"], "icon": ["/i.png"]}, ["", "Chapter"], True),
    ("guide", {}, ["", "/page1", "/nope"], True),
    ("ia", {}, [""], True),
    ("entry", {"id": ["e1", ""], "url": ["https://x.y", "/page1", "/nope", "/page1.txt", "page1", "page2", "/guides/g1", "g1", "guides/g1", "/page2/", "/index", "", "http://[foo", "http://[::1]/x", "//host/p", "mailto:x@y", "/page1#frag", "?q"],
               "project-name": ["proj"], "primary": ["true", ""]}, ["", "Title"], True),
    ("card-group", {"columns": ["3", "x"], "ia-entry-id": ["e1", "zz"], "layout": ["default"], "style": ["default"], "type": ["small"]}, [""], True),
    ("card", {"headline": ["H"], "url": ["https://x.y"], "cta": ["c"], "icon": ["general_content_learn"], "tag": ["t"]}, [""], True),
    ("wayfinding", {}, ["", "arg"], True),
    ("wayfinding-option", {"id": ["c", "csharp", "zz", ""]}, ["", "https://x.y/a"], False),
    ("wayfinding-description", {}, [""], True),
    ("composable-tutorial", {"options": ["language, interface", "zz", ""], "defaults": ["python, driver", "zz", ""]}, [""], True),
    ("selected-content", {"selections": ["python, driver", "zz", ""]}, [""], True),
    ("banner", {"variant": ["warning", "zz"]}, [""], True),
    ("procedure", {"style": ["normal", "connected", "zz"], "title": ["t"]}, [""], True),
    ("step", {}, ["", "Step one"], True),
    ("time", {}, ["", "5", "x"], False),
    ("short-description", {}, [""], True),
    ("instruqt", {"title": ["t"], "drawer": ["true", ""]}, ["", "https://play.instruqt.com/x"], False),
    ("image", {"alt": ["a"], "width": ["10", "x"]}, ["", "/images/a.png", "/nope.png"], False),
    ("figure", {"alt": ["a"], "figwidth": ["10px"]}, ["", "/images/a.png"], True),
    ("include", {"start-after": ["m1", "zz"], "end-before": ["m2", "zz"]}, ["", "/includes/inc0.rst", "/includes/inc1.rst", "/nope.rst", "/index.txt", "/page1.txt"], True),
    ("toctree", {"titlesonly": [""], "hidden": [""]}, [""], "toc"),
    ("note", {}, [""], True),
    ("program", {}, ["", "mongod"], False),
    ("option", {}, ["", "--port", "-f <x>"], True),
    ("openapi", {"uses-realm": [""], "preview": [""], "api-version": ["2.0"]}, ["", "/specs/x.yaml", "/nope.yaml"], False),
    ("default-domain", {}, ["", "mongodb", "zz"], False),
    ("replacement", {}, ["", "sub", "sub2"], "repl"),
    ("glossary", {}, [""], "glossary"),
    ("list-table", {"header-rows": ["1", "x"], "widths": ["10 20", "x"]}, [""], "table"),
    ("io-code-block", {"copyable": ["true"]}, [""], "io"),
    ("code-block", {"emphasize-lines": ["1", "99"]}, ["", "python"], "code"),
]
SUBST_BODIES = ["x", "|sub|", "*e*", "|sub| (formerly |sub|)", "|sub2|", "|sub2| and |sub2|", "|sub| or |sub2| or |sub|", ":ref:`a` |sub|", "|nosub|"]
INLINE = ["plain", "*emph*", "**strong**", "``lit``", ":ref:`a`", ":ref:`text <a>`", ":ref:`nope`", ":doc:`/page1`", ":doc:`/nope`", ":doc:`page1`", ":doc:`/guides/g1`",
          "|sub|", "|sub2|", "|nosub|",
          ":guilabel:`x`", ":method:`db.x()`", "`link <https://x.y>`__", "`named`_", "[#f]_", ":option:`--port`", ":option:`mongod --port`",
          ":abbr:`a (b)`", ":icon:`check`", ":rfc:`1`"]


def gen_block(rng, depth, indent=""):
    """lines of one random block"""
    r = rng.random()
    if r < 0.18 or depth >= 4:
        return [indent + " ".join(rng.choice(INLINE) for _ in range(rng.randint(1, 3))), ""]
    if r < 0.25:
        t = rng.choice(["Title", "Other", "A b", "x", "See :ref:`a` here", ":ref:`b`", "Uses |sub| and :ref:`t <a>`", ":doc:`/page1` guide", "``lit`` [#f]_"])
        pre = [indent + f".. _{rng.choice(['a', 'b'])}:", ""] if rng.random() < 0.35 else []
        return pre + [indent + t, indent + rng.choice("=-~^") * (len(t) + 2), ""]
    if r < 0.30:
        return [indent + f".. _{rng.choice(['a', 'b', 'a'])}:", ""]
    if r < 0.34:
        return [indent + rng.choice([".. |sub| replace:: x", ".. |sub| replace:: |sub|", ".. |sub| replace:: |sub| and |sub|", ".. |sub2| replace:: |sub| |sub|",
                                     ".. |sub| replace:: |sub2|", ".. [#f] note", ".. comment", ".. m1", ".. m2", ".. _named: https://x.y"]), ""]
    if r < 0.40:
        out = []
        for _ in range(rng.randint(1, 3)):
            out += [indent + "- item"] if rng.random() < 0.5 else [indent + "term", indent + "  definition"]
        return out + [""]
    name, opts, args, content = rng.choice(SPECIAL)
    lines = [indent + f".. {name}::" + ((" " + rng.choice(args)) if rng.random() < 0.7 else "")]
    lines[0] = lines[0].rstrip()
    ci = indent + "   "
    for k, vs in opts.items():
        if rng.random() < 0.5:
            lines.append((ci + f":{k}: {rng.choice(vs)}").rstrip())
    lines.append("")
    if content is True:
        for _ in range(rng.randint(0, 3)):
            lines += gen_block(rng, depth + 1, ci)
    elif content == "toc":
        for _ in range(rng.randint(0, 3)):
            lines.append(ci + rng.choice(["/page1", "/page2", "/nope", "Title </page1>", "https://x.y", "Ext <https://x.y>", "/index", "page1", "/includes/inc0",
                                          "/page1.txt", "/guides/g1", "g1", "guides/g1", "/page2/", "T <page2>"]))
        lines.append("")
    elif content == "repl":
        if rng.random() < 0.85:
            lines += [ci + rng.choice(SUBST_BODIES), ""]
        else:
            lines += gen_block(rng, depth + 1, ci)
    elif content == "glossary":
        for _ in range(rng.randint(0, 2)):
            lines += [ci + rng.choice(["term", "Term B"]), ci + "  def", ""]
    elif content == "table":
        lines += [ci + "* - a", ci + "  - b", ci + "* - c", ci + ("  - d" if rng.random() < 0.7 else ""), ""]
    elif content == "io":
        for part in ("input", "output"):
            if rng.random() < 0.8:
                lines += [ci + f".. {part}::", ci + "   :language: python", "", ci + "   x = 1", ""]
    elif content == "code":
        lines += [ci + "x = 1", ""]
    return lines


# families of directives whose handlers keep pattern / nesting bookkeeping across levels; a chain nests members of ONE family
# 3-9 levels deep (the uniform generator above almost never produces e.g. tabs > tab > tabs > tab > procedure > step > procedure)
FAMILIES = [
    ["tabs", "tab", "procedure", "step"],
    ["tabs", "tab", "procedure", "step", "note", "collapsible"],
    ["method-selector", "method-option", "method-description", "tabs", "tab"],
    ["wayfinding", "wayfinding-option", "wayfinding-description", "note"],
    ["chapters", "chapter", "guide", "card-group", "card"],
    ["ia", "entry", "card-group", "card"],
    ["composable-tutorial", "selected-content", "procedure", "step", "tabs", "tab"],
    ["collapsible", "facet", "banner", "contents", "procedure", "step"],
    ["facet", "facet", "collapsible"],
    ["multi-page-tutorial", "procedure", "step", "time", "contents"],
]
NEXT = {"tabs": ["tab"], "tab": ["tabs", "procedure", "tab"], "procedure": ["step"], "step": ["procedure", "tabs", "step"],
        "method-selector": ["method-option"], "method-option": ["method-description", "tabs"], "chapters": ["chapter"],
        "chapter": ["guide"], "card-group": ["card"], "ia": ["entry"], "composable-tutorial": ["selected-content"],
        "selected-content": ["procedure", "tabs"], "wayfinding": ["wayfinding-option", "wayfinding-description"]}
SPEC_BY_NAME = {row[0]: row for row in SPECIAL}


def gen_chain(rng, indent=""):
    fam = rng.choice(FAMILIES)
    depth = rng.randint(3, 9)
    cur = rng.choice(fam[:2])
    levels = []
    for _ in range(depth):
        levels.append(cur)
        nxt = NEXT.get(cur)
        cur = rng.choice(nxt) if (nxt and rng.random() < 0.75) else rng.choice(fam)

    def emit(i, ind):
        if i == len(levels):
            return [ind + rng.choice(INLINE), ""]
        name, opts, args, content = SPEC_BY_NAME[levels[i]]
        first = ind + f".. {name}::" + ((" " + rng.choice(args)) if rng.random() < 0.6 else "")
        lines = [first.rstrip()]
        ci = ind + "   "
        for k, vs in opts.items():
            if rng.random() < 0.6:
                lines.append((ci + f":{k}: {rng.choice(vs)}").rstrip())
        lines.append("")
        if content is not True:
            return lines
        if rng.random() < 0.25:
            lines += [ci + rng.choice(INLINE), ""]
        lines += emit(i + 1, ci)
        if rng.random() < 0.35 and i + 1 < len(levels):
            # a sibling of the same kind as the nested one (second tab / step / option ...)
            n2, o2, a2, c2 = SPEC_BY_NAME[levels[i + 1]]
            sib = [(ci + f".. {n2}::" + ((" " + rng.choice(a2)) if rng.random() < 0.6 else "")).rstrip()]
            for k, vs in o2.items():
                if rng.random() < 0.6:
                    sib.append((ci + "   " + f":{k}: {rng.choice(vs)}").rstrip())
            sib.append("")
            if c2 is True:
                sib += [ci + "   " + rng.choice(INLINE), ""]
            lines += sib
        return lines
    return emit(0, indent)


def gen_ia(rng):
    urls = ["/page1", "/page2", "/page1.txt", "page1", "page2", "/guides/g1", "g1", "guides/g1", "/guides/g1.txt", "/nope", "https://x.y", "/index", "/page2/", "../page1",
            "http://[foo", "//host/p", "/page1#frag"]
    lines = [".. ia::", ""]
    for _ in range(rng.randint(1, 4)):
        lines += ["   .. entry::" + rng.choice(["", " Title"]), "      :url: " + rng.choice(urls)]
        if rng.random() < 0.3:
            lines.append("      :id: e1")
        lines.append("")
    return lines


def gen_page(rng, selfname=None):
    lines = []
    if rng.random() < 0.8:
        lines += ["Page title", "==========", ""]
    if rng.random() < 0.1:
        lines = [":orphan:", ""] + lines
    if rng.random() < 0.12:
        # page-level fields, among them names that handlers use for page options of their own
        fields = [f":{rng.choice(['template', 'hidefeedback', 'selectors', 'default_tabs', 'headings', 'ia', 'tabs', 'x', 'multi_page_tutorial_settings'])}: {rng.choice(['foo', '', 'drivers', '1'])}".rstrip()
                  for _ in range(rng.randint(1, 2))]
        lines = fields + [""] + lines
    deep = rng.random() < 0.3
    if deep:
        # a page with an on-page table of contents limited to a depth, and sections that go deeper than that: what sits in the deep
        # sections is skipped by the table of contents but walked by every handler all the same
        lines += [".. contents::"] + ([f"   :depth: {rng.choice([0, 1, 1, 2])}"] if rng.random() < 0.8 else []) + [""]
    level = 0
    for _ in range(rng.randint(1, 6)):
        if deep and rng.random() < 0.5:
            level = min(level + 1, 3) if rng.random() < 0.7 else max(level - 1, 1)
            title = f"Section level {level}"
            lines += [title, "-~^"[level - 1] * len(title), ""]
        lines += gen_chain(rng) if rng.random() < (0.4 if deep else 0.15) else gen_block(rng, 0)
        if selfname and rng.random() < 0.15:
            # a file that runs into its own include cycle more than once within one expansion
            lines += [f".. include:: /{selfname}", ""]
    if rng.random() < 0.06:
        # a working tabs selector (selector + a tab set with known tab ids), optionally next to page-level fields of the names
        # the selector handler writes its results under
        if rng.random() < 0.6:
            lines = [f":{rng.choice(['selectors', 'default_tabs'])}: {rng.choice(['foo', 'drivers'])}", ""] + lines
        lines += ["", ".. tabs-selector:: drivers"] + (["   :default-tabid: " + rng.choice(["shell", "nope"])] if rng.random() < 0.6 else []) + [
            "", ".. tabs-drivers::", "", "   .. tab::", "      :tabid: shell", "", "      in the shell", "",
            "   .. tab::", "      :tabid: python", "", "      in python", ""]
    return "\n".join(lines) + "\n"


class HandlerMonitor:
    """Observes, on the REAL handlers, the hypothesis of theorem handler_stack_discipline: the bookkeeping stacks /
    counters of a handler have the same size after exit_node(x) as before enter_node(x), and are empty at page end."""
    WATCH = {
        "ContentsHandler": ["scanned_pattern", "current_depth"],
        "TabsSelectorHandler": ["scanned_pattern"],
        "SubstitutionHandler": ["include_replacement_definitions", "active_references"],
    }

    def __init__(self):
        self.problems = []
        self.saved = {}

    @staticmethod
    def size(obj, attr):
        v = getattr(obj, attr, None)
        return v if isinstance(v, int) else (len(v) if v is not None else 0)

    def __enter__(self):
        import snooty.postprocess as P
        mon = self
        for cname, attrs in self.WATCH.items():
            cls = getattr(P, cname, None)
            if cls is None:
                continue
            for meth in ("enter_node", "exit_node", "exit_page"):
                if meth not in cls.__dict__:
                    continue
                orig = cls.__dict__[meth]
                self.saved[(cls, meth)] = orig

                def wrap(orig=orig, meth=meth, attrs=attrs, cname=cname):
                    def f(self_, stack, node):
                        if meth == "enter_node":
                            marks = self_.__dict__.setdefault("_verif_marks", {})
                            marks[id(node)] = [mon.size(self_, a) for a in attrs]
                        r = orig(self_, stack, node)
                        if meth == "exit_node":
                            before = self_.__dict__.get("_verif_marks", {}).pop(id(node), None)
                            now = [mon.size(self_, a) for a in attrs]
                            if before is not None and before != now:
                                mon.problems.append(f"{cname}.{attrs}: sizes {before} before enter_node but {now} after exit_node of a {type(node).__name__}")
                        if meth == "exit_page":
                            now = [mon.size(self_, a) for a in attrs]
                            if any(now):
                                mon.problems.append(f"{cname}.{attrs}: sizes {now} at the end of a page")
                        return r
                    return f
                setattr(cls, meth, wrap())
        return self

    def __exit__(self, *a):
        for (cls, meth), orig in self.saved.items():
            setattr(cls, meth, orig)
        return False


class C02(core.PropertyCheck):
    id = "C02"
    quick_budget = 2500
    thorough_budget = 40000
    rule = ("text-level projects: 1-3 pages + 0-2 include files (+ self/mutual includes, toctree cycles) assembled from every directive the "
            "postprocessor special-cases with each option present/absent and arbitrary nesting, chains of 3-9 nested directives of one handler family "
            "(tabs/tab/procedure/step, method-selector, wayfinding, chapters, ia, composable-tutorial, facets ...), plus inline roles/substitutions/footnotes; "
            "each file parsed by the real parser, then the real Postprocessor.run over all pages; plus event-walk cases (random synthetic trees) "
            "compared with the Lean model of EventParser. non-trivial = the project contains at least one special-cased directive")
    assumptions = [
        "the network branches of OpenAPIHandler are not reachable offline (fetch errors become diagnostics) and are not modelled",
        "projects are built from parser output only (the property quantifies over projects whose files parse); hand-made ASTs that the parser cannot produce are outside the claim",
    ]

    def gen_tables(self):
        import gen_guards
        try:
            gen_guards.write()
            gen_guards.write_handlers()
        except Exception as e:  # translator broken: reported as a broken tie, then searched
            return [f"gen_guards: {type(e).__name__}: {e}"]
        return []

    def generate(self, rng, budget, tier):
        for i in range(budget):
            if i % 6 == 5:
                yield self.gen_walk_case(rng)
                continue
            if i % 12 == 10:
                # title injection kernel: a random title (texts, containers, references to `own` and to others, nested)
                def tnode(d):
                    r = rng.random()
                    if r < 0.4 or d > 3:
                        return ["t", rng.choice(["See ", "x", " here", "é"])]
                    if r < 0.65:
                        return ["w", [tnode(d + 1) for _ in range(rng.randint(0, 3))]]
                    return ["r", rng.choice(["a", "a", "b", "c"]), [tnode(d + 1) for _ in range(rng.randint(0, 2))]]
                yield {"kind": "strip", "own": rng.choice(["a", "b"]), "nodes": [tnode(0) for _ in range(rng.randint(0, 4))]}
                continue
            if i % 12 == 4:
                # handler kernel: the open-directive stack handed to the real TabsSelectorHandler.scan_for_pattern
                names = ["tabs", "tab", "procedure", "step", "note", "tabs", "procedure"]
                yield {"kind": "scan", "stack": [rng.choice(names) for _ in range(rng.choice([0, 1, 2, 3, 4, 5, 7, 9, 12]))]}
                continue
            files = {"index.txt": gen_page(rng)}
            for k in range(rng.randint(0, 2)):
                files[f"page{k + 1}.txt"] = gen_page(rng)
            if rng.random() < 0.35:
                files["guides/g1.txt"] = gen_page(rng)
            for k in range(rng.randint(0, 2)):
                files[f"includes/inc{k}.rst"] = gen_page(rng, f"includes/inc{k}.rst")
            if rng.random() < 0.12:
                # information-architecture stream: every page opens with an `ia` block, so the IA tree is really walked
                for f in [f for f in files if f.endswith(".txt")]:
                    files[f] = "T %s\n=====\n\n" % f.split(".")[0].replace("/", " ") + "\n".join(gen_ia(rng)) + "\n" + files[f].replace("=====", "-----")
            cfg = {}
            if rng.random() < 0.3:
                cfg["default_domain"] = rng.choice(["mongodb", "std"])
            if rng.random() < 0.2:
                cfg["toc_landing_pages"] = ["/page1"]
            if rng.random() < 0.2:
                cfg["multi_page_tutorials"] = ["/page1"]
            if rng.random() < 0.2:
                cfg["banners"] = [{"targets": rng.choice([["*"], [""], ["*.txt"], ["guides/*", ""], ["index.txt"], ["nothing/*"], ["."], ["./"], ["./*"], ["/"], ["**"], ["guides//"]]),
                                   "variant": rng.choice(["info", "warning"]), "value": rng.choice(["Banner *text*", "See :ref:`a`", "|sub|"])}]
            if rng.random() < 0.2:
                cfg["manpages"] = {"mongo": {"file": rng.choice(["index.txt", "page1.txt", "nope.txt"]), "title": "T", "section": 1}}
                if rng.random() < 0.3:
                    cfg["bundle"] = {"manpages": rng.choice(["manpages.tar.gz", "manpages.tar", "manpages.zip", "manpages"])}
            if rng.random() < 0.3:
                cfg["substitutions"] = {"sub": rng.choice(SUBST_BODIES)}
                if rng.random() < 0.5:
                    cfg["substitutions"]["sub2"] = rng.choice(SUBST_BODIES)
            if rng.random() < 0.08:
                # a project without a start page (neither index.txt nor contents.txt): the toctree is empty
                files["home.txt"] = files.pop("index.txt")
            if rng.random() < 0.12:
                # the shape of a page generated from YAML: stored under includes/steps/run.rst, its Root names the YAML file;
                # its content may include itself / be included from the pages
                body = gen_page(rng)
                if rng.random() < 0.6:
                    body += "\n.. include:: /includes/steps/run.rst\n"
                files["includes/steps/run.rst"] = body
                cfg["_generated"] = {"includes/steps/run.rst": "includes/steps-run.yaml"}
                for f in [f for f in files if f.endswith(".txt")][:1]:
                    files[f] += "\n.. include:: /includes/steps/run.rst\n"
            yield {"kind": "project", "files": files, "cfg": cfg}

    # ---- event walk cases: [kind, children] with kinds root/dir/dli/plain
    def gen_walk_case(self, rng):
        def tree(d):
            k = rng.choice(["plain", "plain", "root", "dir", "dli", "leaf"])
            if k == "leaf" or d > 3:
                return ["leaf", []]
            return [k, [tree(d + 1) for _ in range(rng.randint(0, 3))]]
        return {"kind": "walk", "pages": [[tree(0) for _ in range(rng.randint(0, 3))] for _ in range(rng.randint(1, 3))]}

    def shrink_candidates(self, case):
        if case["kind"] in ("disk", "strip"):
            return
        if case["kind"] == "scan":
            for i in range(len(case["stack"])):
                yield {**case, "stack": case["stack"][:i] + case["stack"][i + 1:]}
            return
        if case["kind"] != "project":
            return
        files = case["files"]
        for f in list(files):
            if f != "index.txt":
                yield {**case, "files": {k: v for k, v in files.items() if k != f}}
        for f, text in files.items():
            lines = text.split("\n")
            # drop blocks of lines, biggest first
            for size in (16, 8, 4, 2, 1):
                for i in range(0, len(lines), size):
                    cand = lines[:i] + lines[i + size:]
                    if cand != lines:
                        yield {**case, "files": {**files, f: "\n".join(cand)}}
        if case["cfg"]:
            yield {**case, "cfg": {}}

    # ---- implementation
    def build_walk(self, case):
        counter = [0]

        def mk(spec, fileid_hint):
            kind, cs = spec
            counter[0] += 1
            i = counter[0]
            if kind == "leaf":
                return n.Text((i,), "t")
            if kind == "root":
                return n.Root((i,), [mk(c, fileid_hint) for c in cs], n.FileId(f"inc{i}.rst"), {})
            if kind == "dir":
                kids = [mk(c, fileid_hint) for c in cs]
                return n.Directive((i,), kids[1:], "", "x", [k for k in kids[:1] if isinstance(k, n.Text)] , {})
            if kind == "dli":
                kids = [mk(c, fileid_hint) for c in cs]
                return n.DefinitionListItem((i,), kids[1:], [k for k in kids[:1] if isinstance(k, n.Text)])
            return n.Section((i,), [mk(c, fileid_hint) for c in cs])
        pages = []
        for pi, body in enumerate(case["pages"]):
            fid = n.FileId(f"p{pi}.txt")
            counter[0] += 1
            pages.append((fid, n.Root((counter[0],), [mk(s, fid) for s in body], fid, {})))
        return pages

    def run_impl(self, case):
        if case["kind"] == "strip":
            from snooty import postprocess

            def build(x):
                if x[0] == "t":
                    return n.Text((0,), x[1])
                if x[0] == "w":
                    return n.Emphasis((0,), [build(c) for c in x[1]])
                return n.RefRole((0,), [build(c) for c in x[2]], "std", "label", x[1], "", None, None)

            def back(node):
                if isinstance(node, n.Text):
                    return ["t", node.value]
                if isinstance(node, n.RefRole):
                    return ["r", node.target, [back(c) for c in node.children]]
                return ["w", [back(c) for c in node.children]]
            own = n.RefRole((0,), [], "std", "label", case["own"], "", None, None)
            try:
                out = postprocess.without_ref_roles([build(x) for x in case["nodes"]], own)
            except Exception as e:
                return {"exc": type(e).__name__, "where": "postprocess.without_ref_roles", "msg": str(e)[:80]}
            return {"exc": None, "nodes": [back(x) for x in out]}
        if case["kind"] == "scan":
            import collections
            import types
            from snooty import postprocess
            from snooty.n import FileId
            h = postprocess.TabsSelectorHandler.__new__(postprocess.TabsSelectorHandler)
            diags = collections.defaultdict(list)
            ctx = types.SimpleNamespace(diagnostics=diags)
            postprocess.TabsSelectorHandler.__init__(h, ctx)
            h.scanned_pattern = list(case["stack"])
            fs = types.SimpleNamespace(current=FileId("index.txt"), root=FileId("index.txt"))
            node = n.Directive((3,), [], "", "procedure", [], {})
            try:
                h.scan_for_pattern(fs, node)
            except Exception as e:
                return {"exc": type(e).__name__, "where": "TabsSelectorHandler.scan_for_pattern", "msg": str(e)[:80]}
            return {"exc": None, "ok": len(diags[FileId("index.txt")]) > 0}
        if case["kind"] == "walk":
            import threading
            from snooty.eventparser import EventParser
            from snooty.page import Page
            pages = self.build_walk(case)
            log = []
            ep = EventParser(threading.Event())
            ep.add_event_listener(EventParser.PAGE_START_EVENT, lambda st, page: log.append(["ps", st.root.as_posix(), st.current.as_posix()]))
            ep.add_event_listener(EventParser.PAGE_END_EVENT, lambda st, page: log.append(["pe", st.root.as_posix(), st.current.as_posix()]))
            ep.add_event_listener(EventParser.OBJECT_START_EVENT, lambda st, node: log.append(["in", node.span[0], st.root.as_posix(), st.current.as_posix()]))
            ep.add_event_listener(EventParser.OBJECT_END_EVENT, lambda st, node: log.append(["out", node.span[0], st.root.as_posix(), st.current.as_posix()]))
            try:
                ep.consume((fid, Page.create(fid, None, "", ast)) for fid, ast in pages)
            except Exception as e:
                return {"exc": type(e).__name__, "where": traceback.format_exc()[-600:]}
            return {"exc": None, "log": log, "stack_after": len(ep.fileid_stack._stack)}
        from snooty.types import BannerConfig, BundleConfig, ManPageConfig, ParsedBannerConfig
        plain = {k: v for k, v in case["cfg"].items() if k not in ("substitutions", "banners", "manpages", "bundle", "_generated")}
        cfg = ProjectConfig(rst.ROOT, "verif", **plain)
        if "manpages" in case["cfg"]:
            cfg.manpages = {k: ManPageConfig(**v) for k, v in case["cfg"]["manpages"].items()}
        if "bundle" in case["cfg"]:
            cfg.bundle = BundleConfig(**case["cfg"]["bundle"])
        pages = []
        try:
            if "substitutions" in case["cfg"]:
                cfg.substitutions = dict(case["cfg"]["substitutions"])
                cfg.substitution_nodes = {}
                for k, v in cfg.substitutions.items():
                    page, _ = rst.parse(v, "sub.txt", cfg)
                    kids = page.ast.children
                    cfg.substitution_nodes[k] = list(kids[0].children) if kids and isinstance(kids[0], n.Paragraph) else []
            for b in case["cfg"].get("banners", []):
                # what _Project.__init__ does with [[banners]] of snooty.toml
                cfg.banners.append(BannerConfig(**b))
                bpage, _ = rst.parse(b["value"], "banner.txt", cfg)
                node = n.Directive((-1,), [], "mongodb", "banner", [], {"variant": b["variant"]})
                node.children = bpage.ast.children
                if node.children:
                    cfg.banner_nodes.append(ParsedBannerConfig(b["targets"], node))
            gen = case["cfg"].get("_generated", {})
            for f, text in case["files"].items():
                page, diags = rst.parse(text, f, cfg)
                page.finish(diags)
                if f in gen:
                    # stored under its output path (the key the include pass looks up), the tree names the YAML source
                    from snooty.page import Page
                    src = n.FileId(gen[f])
                    page.ast.fileid = src
                    gp = Page.create(src, Path(f).name, text, page.ast)
                    gp.category = Path(f).parent.name
                    assert gp.fake_full_fileid().as_posix() == f, gp.fake_full_fileid()
                    page = gp
                pages.append(page)
        except Exception as e:
            return {"exc": None, "parse_exc": type(e).__name__}  # parse totality is C01's business
        monitor = HandlerMonitor()
        try:
            with monitor:
                res = pp.run(pages, cfg)
        except Exception as e:
            where, line = "?", 0
            t = e.__traceback__
            while t is not None:
                fr = t.tb_frame
                if "/snooty/" in fr.f_code.co_filename:
                    slf = fr.f_locals.get("self")
                    cls = (type(slf).__name__ + ".") if slf is not None else ""
                    where = f"{fr.f_code.co_filename.split('/snooty/')[-1]}:{cls}{fr.f_code.co_name}"
                    line = t.tb_lineno
                t = t.tb_next
            return {"exc": type(e).__name__, "msg": str(e)[:120], "where": where, "line": line}
        missing = [f for f in case["files"] if f.endswith(".txt") and n.FileId(f) not in res.pages]
        return {"exc": None, "missing_pages": missing, "bookkeeping": monitor.problems[:3], "ndiag": sum(len(v) for v in res.diagnostics.values()),
                "has_meta": isinstance(res.metadata, dict)}

    # ---- model (event walk only)
    def model_request(self, case):
        if case["kind"] == "strip":
            return {"op": "c02.strip", "own": case["own"], "nodes": case["nodes"]}
        if case["kind"] == "scan":
            return {"op": "c02.scan", "stack": case["stack"]}
        if case["kind"] != "walk":
            # no model run for projects; an (empty) request makes `compare` see the monitor's findings
            return {"op": "c02.walk", "pages": []}
        pages = self.build_walk(case)

        def enc(node):
            if isinstance(node, n.Root):
                return {"k": "root", "id": node.span[0], "file": node.fileid.as_posix(), "c": [enc(c) for c in node.children]}
            if isinstance(node, n.Directive):
                return {"k": "dir", "id": node.span[0], "pre": [enc(a) for a in node.argument], "c": [enc(c) for c in node.children]}
            if isinstance(node, n.DefinitionListItem):
                return {"k": "dli", "id": node.span[0], "pre": [enc(a) for a in node.term], "c": [enc(c) for c in node.children]}
            if isinstance(node, n.Parent):
                return {"k": "plain", "id": node.span[0], "c": [enc(c) for c in node.children]}
            return {"k": "leaf", "id": node.span[0]}
        return {"op": "c02.walk", "pages": [{"file": fid.as_posix(), "ast": enc(ast)} for fid, ast in pages]}

    def compare(self, case, model, impl):
        if case["kind"] == "strip":
            if impl.get("exc"):
                return f"without_ref_roles raised {impl['exc']}"
            return None if model.get("nodes") == impl["nodes"] else f"without_ref_roles({case['nodes']}, own={case['own']}): model {model.get('nodes')} impl {impl['nodes']}"
        if case["kind"] == "scan":
            want = model.get("ok") if "ok" in model else "exc:" + model.get("exc", "?")
            got = impl.get("ok") if not impl.get("exc") else "exc:" + impl["exc"]
            return None if want == got else f"scan_for_pattern on {case['stack']}: model {want} impl {got}"
        if case["kind"] != "walk":
            # the hypothesis of theorem handler_stack_discipline observed on the real handlers. Not a C02 violation by
            # itself (nothing raised): a broken tie, after which the framework searches for an input that does raise.
            if impl.get("bookkeeping"):
                return f"handler bookkeeping unbalanced (hypothesis of handler_stack_discipline): {impl['bookkeeping'][0]}"
            return None
        if impl["exc"]:
            return f"event walk raised {impl['exc']}"
        if model["log"] != impl["log"]:
            for a, b in zip(model["log"], impl["log"]):
                if a != b:
                    return f"event logs differ: model {a} impl {b}"
            return f"event logs differ in length: model {len(model['log'])} impl {len(impl['log'])}"
        return None

    # ---- oracle
    def oracle(self, case, impl):
        if case["kind"] == "strip":
            def has_ref(x):
                return x[0] == "r" or (x[0] == "w" and any(has_ref(c) for c in x[1]))
            if impl.get("exc"):
                return f"postprocessing raised {impl['exc']} at {impl['where']}"
            if any(has_ref(x) for x in impl["nodes"]):
                return f"a title prepared for injection still holds a cross-reference role: {impl['nodes']} (the reference pass can then recurse without end)"
            return None
        if case["kind"] == "scan":
            if impl.get("exc"):
                return f"postprocessing raised {impl['exc']} at {impl['where']} (open directives {' > '.join(case['stack'])})"
            return None
        if case["kind"] == "walk":
            if impl["exc"]:
                return f"event walk raised {impl['exc']}"
            if impl["stack_after"] != 0:
                return "file stack not empty after the walk"
            return None
        if impl.get("parse_exc"):
            return None
        if impl["exc"]:
            msg = impl["msg"] if impl["exc"] == "KeyError" else ""
            return f"postprocessing raised {impl['exc']} at {impl['where']} {msg}".strip()
        if impl["missing_pages"]:
            return f"pages not delivered: {impl['missing_pages']}"

        return None

    def finding_key(self, case, impl, desc):
        return desc

    # ---- whole projects on disk through Project.build() ---------------------------------------------------------------
    def extra_checks(self, tier, rng):
        import logging
        from impl import c02disk, c04gen
        logging.disable(logging.CRITICAL)
        n = 30 if tier == "quick" else 300
        viol, seen, tags, built = [], set(), {}, 0
        directed = c02disk.directed_projects()
        for it in range(n + len(directed)):
            if it < len(directed):
                info, files = {"tags": [directed[it][0] + ":directed"]}, directed[it][1]
            else:
                case = c04gen.gen_project_case(rng)
                # prebuilt `.ast` pages (hand-made JSON trees, here generated with deliberate type faults for C04) are not rST
                # sources: outside the quantifier of this property
                files = {k: v for k, v in case["files"].items() if not k.endswith(".ast")}
                info = c02disk.add_disk_features(rng, files)
            for t in info["tags"]:
                tags[t] = tags.get(t, 0) + 1
            res = c02disk.build(files)
            built += 1
            if res["exc"]:
                key = f"build-raised:{res['exc']}@{res['where']}"
                if key not in seen:
                    seen.add(key)
                    viol.append({"case": {"kind": "disk", "files": {k: (v if isinstance(v, (str, dict)) else {"hex": v.hex()}) for k, v in files.items()}, "features": info["tags"]},
                                 "desc": f"Project.build() of a project on disk raised {res['exc']} at {res['where']}: {res['msg']} (features {info['tags']})",
                                 "key": key})
        return viol, {"disk_projects": {"built": built, "features": tags,
                                        "what": "generated projects + facets.toml (well-formed / malformed, two levels) + nested project + odd files, built with the real Project.build(); any exception is a violation"}}

    def nontrivial_key(self, case, impl):
        if case["kind"] == "walk":
            return json.dumps(case)
        if case["kind"] == "scan":
            return json.dumps(case) if len(case["stack"]) >= 3 else None
        if case["kind"] == "strip":
            return json.dumps(case) if '"r"' in json.dumps(case["nodes"]) else None
        return json.dumps(case, sort_keys=True) if ".. " in "".join(case["files"].values()) else None

    def branch_tags(self, case, model, impl):
        tags = [case["kind"]]
        if impl.get("exc"):
            tags.append(f"exc:{impl['exc']}@{impl.get('where')}:{impl.get('line')}:{impl.get('msg', '')[:40]}")
        if case["kind"] == "scan" and impl.get("ok"):
            tags.append("scan:pattern-found")
        if impl.get("parse_exc"):
            tags.append("parse_exc:" + impl["parse_exc"])
        if case["kind"] == "project":
            for name in set(re.findall(r"\.\. ([a-z-]+)::", "".join(case["files"].values()))):
                tags.append("d:" + name)
        return tags

    def sample(self, case, impl):
        return case


PROP = C02()
