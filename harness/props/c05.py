"""C05 — builds are deterministic and reproducible.

In-process part: correspondence of the order-normalising kernels with the Lean model
(structural_hash under a free hash, PageDatabase snapshot, ZipBackend manifest order, messages
that print a set) + direct oracles that evaluate the same value under two enumeration / arrival
orders.  Cross-process part (`extra_checks`): the property itself — generated projects built in
subprocesses under different PYTHONHASHSEED / worker counts / file creation orders / process
histories, compared byte for byte."""
import contextlib
import dataclasses
import enum
import hashlib
import io
import json
import os
import random
import shutil
import subprocess
import tempfile
import threading
import zipfile
from concurrent.futures import ThreadPoolExecutor
from pathlib import Path, PurePosixPath

import core
from impl import rst
from snooty import n, specparser, util
from snooty.diagnostics import ConfigurationProblem, DocUtilsParseError, InvalidChild
from snooty.n import FileId
from snooty.page import Page
from snooty.page_database import PageDatabase
from snooty.postprocess import PostprocessorResult
from snooty.target_database import TargetDatabase
from snooty.types import StaticAsset

BUILD_SCRIPT = Path(__file__).resolve().parent.parent / "impl" / "c05_build.py"


# ---------------------------------------------------------------------------------------------
# structural_hash: value descriptions -> Python objects -> model values
# ---------------------------------------------------------------------------------------------

class Color(enum.Enum):
    foo = 1
    bar = 2
    baz = "z"


class Num(enum.IntEnum):
    one = 1
    two = 2


ENUMS = [Color, Num]
FIELD_NAMES = ["a", "b", "ab", "B", "é", "z_1", "aa", "_x", "a1"]
STRS = ["", "a", "b", "ab", "é", "日本", "x y", "A", "0", "😀", "a\nb"] + [f"s{i}" for i in range(24)]
INTS = [0, 1, 8, 16, 24, 32, -1, 7, 255, 10**12]
FLOATS = ["1.5", "0.1", "1e+100", "-2.0", "inf"]
PATHS = ["a", "a/b", "/x/y.txt", "."]
_RECORD_CLASSES = {}


def record_class(fields):
    """fields: tuple of (name, nohash)"""
    key = tuple(fields)
    if key not in _RECORD_CLASSES:
        _RECORD_CLASSES[key] = dataclasses.make_dataclass(
            f"R{len(_RECORD_CLASSES)}",
            [(nm, object, dataclasses.field(default=None, metadata=({"nohash": True} if nh else {}))) for nm, nh in fields],
        )
    return _RECORD_CLASSES[key]


class Unhashable:
    pass


def build(spec, rev=False):
    k = spec["k"]
    if k == "int":
        return spec["v"]
    if k == "bool":
        return bool(spec["v"])
    if k == "str":
        return spec["v"]
    if k == "float":
        return float(spec["v"])
    if k == "path":
        return PurePosixPath(spec["v"])
    if k == "none":
        return None
    if k == "enum":
        return ENUMS[spec["cls"]][spec["m"]]
    if k == "other":
        return complex(1, 2) if spec.get("v") else Unhashable()
    if k == "list":
        return [build(x, rev) for x in spec["xs"]]
    if k == "tuple":
        return tuple(build(x, rev) for x in spec["xs"])
    if k == "set":
        members = [build(x, rev) for x in spec["xs"]]
        if rev:
            members.reverse()
        s = set()
        for m in members:  # explicit insertion order: colliding members enumerate in insertion order
            s.add(m)
        return frozenset(s) if spec.get("frozen") else s
    if k == "dict":
        return {key: build(v, rev) for key, v in spec["es"]}
    if k == "rec":
        cls = record_class(tuple((nm, bool(nh)) for nm, nh, _ in spec["fields"]))
        return cls(**{nm: build(v, rev) for nm, _, v in spec["fields"]})
    raise ValueError(k)


def cps(s):
    return [ord(c) for c in s]


def translate(obj):
    """Python object -> HVal JSON (value-level translator; set members in the order THIS process enumerates them)"""
    t = type(obj)
    if t in (int, bool, str, float) or isinstance(obj, PurePosixPath) or isinstance(obj, enum.IntEnum):
        return {"t": "prim", "s": cps(str(obj))}
    if dataclasses.is_dataclass(obj) and not isinstance(obj, type):
        return {"t": "record", "fields": [
            {"name": cps(f.name), "nohash": bool(f.metadata.get("nohash")), "val": translate(getattr(obj, f.name))}
            for f in dataclasses.fields(obj)]}
    if t in (list, tuple):
        return {"t": "seq", "xs": [translate(x) for x in obj]}
    if t in (set, frozenset):
        return {"t": "set", "xs": [translate(x) for x in obj]}
    if t is dict:
        return {"t": "map", "es": [{"key": cps(k), "val": translate(v)} for k, v in obj.items()]}
    if isinstance(obj, enum.Enum):
        return {"t": "enum", "s": cps(str(obj))}
    if obj is None:
        return {"t": "none"}
    return {"t": "other"}


class FreeHash:
    """stand-in for hashlib.blake2b: the digest is the byte string fed (injective)"""

    def __init__(self, data=b"", **kw):
        self.buf = bytearray(data)

    def update(self, b):
        self.buf += b

    def digest(self):
        return bytes(self.buf)


_PATCH_LOCK = threading.Lock()


def free_structural_hash(obj):
    with _PATCH_LOCK:
        orig = hashlib.blake2b
        hashlib.blake2b = FreeHash
        try:
            return util.structural_hash(obj)
        finally:
            hashlib.blake2b = orig


def gen_val(rng, depth, hashable=False):
    leaf = depth <= 0 or rng.random() < 0.35
    if leaf:
        c = rng.choice(["int", "int", "str", "str", "str", "bool", "float", "path", "none", "enum", "enum", "other"])
        if c == "int":
            return {"k": "int", "v": rng.choice(INTS)}
        if c == "str":
            return {"k": "str", "v": rng.choice(STRS)}
        if c == "bool":
            return {"k": "bool", "v": rng.random() < 0.5}
        if c == "float":
            return {"k": "float", "v": rng.choice(FLOATS)}
        if c == "path":
            return {"k": "path", "v": rng.choice(PATHS)}
        if c == "none":
            return {"k": "none"}
        if c == "enum":
            ci = rng.randrange(2)
            return {"k": "enum", "cls": ci, "m": rng.choice(list(ENUMS[ci].__members__))}
        if rng.random() < 0.15:
            return {"k": "other", "v": 1 if hashable else rng.choice([0, 1])}
        return {"k": "str", "v": rng.choice(STRS)}
    kinds = ["tuple", "set"] if hashable else ["list", "tuple", "set", "set", "dict", "rec", "rec"]
    c = rng.choice(kinds)
    if c in ("list", "tuple"):
        return {"k": c, "xs": [gen_val(rng, depth - 1, hashable) for _ in range(rng.randint(0, 3))]}
    if c == "set":
        xs, objs = [], []
        for _ in range(rng.choice([0, 1, 2, 2, 3, 3, 4, 4])):
            x = gen_val(rng, depth - 1, True)
            o = build(x)
            if any(o == p for p in objs):  # equal members would collapse (1 == True == 1.0)
                continue
            xs.append(x)
            objs.append(o)
        return {"k": "set", "xs": xs, "frozen": True if hashable else rng.random() < 0.3}
    if c == "dict":
        keys = rng.sample(STRS, rng.randint(0, 3))
        return {"k": "dict", "es": [[key, gen_val(rng, depth - 1)] for key in keys]}
    names = rng.sample(FIELD_NAMES, rng.randint(0, 4))
    return {"k": "rec", "fields": [[nm, rng.random() < 0.25, gen_val(rng, depth - 1)] for nm in names]}


def has_set2(spec):
    if isinstance(spec, dict):
        if spec.get("k") == "set" and len(spec["xs"]) >= 2:
            return True
        return any(has_set2(v) for v in spec.values())
    if isinstance(spec, list):
        return any(has_set2(v) for v in spec)
    return False


# ---------------------------------------------------------------------------------------------
# PageDatabase / ZipBackend
# ---------------------------------------------------------------------------------------------

KEYS = ["a.txt", "a/b.txt", "a-b.txt", "a.b/c.txt", "b.txt", "a/a.txt", "A.txt", "a/b/c.txt", "é.txt", "a.rst", "includes/x.rst", "index.txt", "a b.txt", "ab.txt"]


class _RecordingPostprocessor:
    def __init__(self):
        self.seen = None

    def run(self, pages, cancellation_token):
        self.seen = [[k.as_posix(), int(v.source)] for k, v in pages.items()]
        return PostprocessorResult({}, {}, {}, TargetDatabase())


def run_snapshot(arrivals):
    db = PageDatabase()
    for key, val in arrivals:
        fid = FileId(key)
        db[fid] = (Page.create(fid, None, str(val), n.Root((0,), [], fid, {})), fid, [])
    pp_ = _RecordingPostprocessor()
    db.flush_and_wait(lambda: pp_)
    return pp_.seen


def asset_parts(a):
    """[key, upload, payload] (the file is the one the key spells) or [key, fileid, upload, payload]"""
    if len(a) == 3:
        return a[0], a[0].lstrip("/"), a[1], a[2]
    return tuple(a)


def payload_checksum(payload):
    return hashlib.blake2b(f"asset-{payload}".encode(), digest_size=32).hexdigest()


def make_asset(key, fileid, upload, payload):
    data = f"asset-{payload}".encode()
    return StaticAsset(key, FileId(fileid), Path("/nonexistent-verif") / fileid, upload, [], None, payload_checksum(payload), data)


def asset_set(assets):
    s = set()
    for a in assets:
        s.add(make_asset(*asset_parts(a)))
    return s


def run_manifest(assets, events):
    import bson
    from snooty.main import ZipBackend

    buf = io.BytesIO()
    backend = ZipBackend(zipfile.ZipFile(buf, mode="w"))
    fid = FileId("page.txt")
    page = Page.create(fid, None, "", n.Root((0,), [], fid, {}))
    page.static_assets = asset_set(assets)
    with contextlib.redirect_stdout(io.StringIO()):
        for key, ids in events:
            backend.on_diagnostics(FileId(key), [ConfigurationProblem(str(i), 0) for i in ids])
        backend.on_update(["p", "u", "b"], {}, fid, page)
        backend.flush()
        backend.close()
    zf = zipfile.ZipFile(io.BytesIO(buf.getvalue()))
    doc = bson.decode(zf.read("documents/page.bson"))
    diags = []
    for name in zf.namelist():
        if name.startswith("diagnostics/"):
            body = bson.decode(zf.read(name))
            diags.append([name[len("diagnostics/"):-len(".bson")], [int(d["message"]) for d in body["diagnostics"]]])
    return {"assets": [[a["key"], a["checksum"]] for a in doc["static_assets"]], "diagnostics": diags,
            "zip_sha": hashlib.sha1(buf.getvalue()).hexdigest()}


def stable_interleave(rng, events):
    """another order of the same events keeping the relative order of events of one key"""
    by_key = {}
    for k, ids in events:
        by_key.setdefault(k, []).append(ids)
    order = [k for k, _ in events]
    rng.shuffle(order)
    return [[k, by_key[k].pop(0)] for k in order]


# ---------------------------------------------------------------------------------------------
# messages
# ---------------------------------------------------------------------------------------------

class _RevSet(frozenset):
    """a frozenset that enumerates in the reverse of the built-in order (legal: sets are unordered)"""

    def __iter__(self):
        return iter(list(frozenset.__iter__(self))[::-1])


class _RevRequired(frozenset):
    def __sub__(self, other):
        return _RevSet(frozenset.__sub__(self, other))


MSG_DIRECTIVES = {"twitter": ["creator", "title", "image", "image-alt"], "og": ["title", "image"]}


def run_missing(directive, given, reverse):
    spec = specparser.Spec.get().directive[directive]
    attr = "_Directive__required_options"
    orig = getattr(spec, attr)
    text = f".. {directive}::\n" + "".join(f"   :{o}: x\n" for o in given) + "\n"
    if reverse:
        setattr(spec, attr, _RevRequired(orig))
    try:
        _page, diags = rst.parse(text)
    finally:
        setattr(spec, attr, orig)
    return [d.message for d in diags if isinstance(d, DocUtilsParseError) and "requires the following" in d.message]


WAYFINDING = ".. wayfinding::\n\n   .. note::\n\n      x\n"


# ---------------------------------------------------------------------------------------------
# generated projects for the cross-process differential
# ---------------------------------------------------------------------------------------------

SILENCE_POOL = ["ChapterAlreadyExists", "UnknownTabset", "GuideAlreadyHasChapter", "InvalidTableStructure",
                "UnknownTabID", "TabMustBeDirective", "ImageSizeUndetermined", "OrphanedPage"]

SNIPPETS = [
    "Plain paragraph with *emphasis* and ``literal``.\n",
    ".. _{label}:\n\nSection {label}\n~~~~~~~~~~~~~~~~\n\nLabelled section.\n",
    ".. _{label2}:\n\nSection {i}\n~~~~~~~~~~~~~~~~\n\nLabelled section.\n",
    "See :ref:`{label}` and :ref:`text <{label2}>` and :ref:`missing-{i}`.\n",
    "Uses |undef-{i}| and |known|.\n",
    ".. twitter::\n",
    ".. twitter::\n   :title: t\n",
    ".. og::\n",
    ".. wayfinding::\n\n   .. note::\n\n      hi\n",
    ".. wayfinding::\n\n   Paragraph child.\n",
    ".. io-code-block::\n",
    ".. io-code-block::\n\n   .. input::\n      :language: python\n\n      print({i})\n\n   .. output::\n\n      {i}\n",
    ".. io-code-block::\n\n   .. note::\n\n      x\n",
    ".. image:: /images/b.png\n   :alt: b\n\n.. image:: /images/a.png\n   :alt: a\n\n.. figure:: /images/c.png\n   :alt: c\n",
    ".. image:: /images/missing-{i}.png\n   :alt: m\n",
    # the same files under other spellings (relative to the page, with a redundant segment): what a page records about an asset
    # is the spelling in ITS source, whichever page mentioned the file first
    ".. image:: images/a.png\n   :alt: rel\n\n.. figure:: /images/../images/b.png\n   :alt: dotdot\n",
    ".. figure:: images/c.png\n   :alt: rel-c\n\n.. image:: /images/./a.png\n   :alt: dot\n",
    ".. include:: /includes/inc{inc}.rst\n",
    ".. tabs-drivers::\n\n   tabs:\n     - id: python\n       content: |\n         py\n     - id: shell\n       content: |\n         sh\n",
    ".. tabs-drivers::\n\n   tabs:\n     - id: java-sync\n       content: |\n         j\n     - id: nosuchtab\n       content: |\n         n\n",
    ".. tabs-selector:: drivers\n\n.. tabs-drivers::\n\n   tabs:\n     - id: python\n       content: |\n         py\n     - id: shell\n       content: |\n         sh\n     - id: nodejs\n       content: |\n         js\n\n.. tabs-drivers::\n\n   tabs:\n     - id: java-sync\n       content: |\n         j\n     - id: python\n       content: |\n         p\n",
    ".. tabs::\n\n   .. tab:: One\n      :tabid: one\n\n      1\n\n   .. tab:: Two\n      :tabid: two\n\n      2\n",
    ":doc:`/{doc}` and :doc:`/nonexistent-{i}`.\n",
    ".. list-table::\n\n   * - a\n     - b\n   * - c\n     - d\n",
    ".. code-block:: python\n   :emphasize-lines: 1\n\n   print(1)\n",
    ".. note::\n\n   - item\n\n     - nested\n\n   1. one\n",
    ".. unknown-directive-{i}::\n",
    ":unknownrole:`x` and :guilabel:`ok`.\n",
    ".. glossary::\n\n   term{i}\n     definition\n\n   another{i}\n     definition\n",
    ":term:`term0` :term:`nope`\n",
    ".. option:: --flag{i}\n\n   text\n",
    ".. method:: db.coll.find{i}()\n\n   text :method:`db.coll.find0()`\n",
    ".. include:: /includes/steps/run{inc}.rst\n",
    "Heading{i}\n--------\n\ntext\n",
    "Same\n----\n\ntext\n",
    ".. versionadded:: 4.{i}\n",
    ".. |local{i}| replace:: value\n\n|local{i}|\n",
    ".. contents::\n   :local:\n",
    ".. card-group::\n   :columns: 2\n\n   .. card::\n      :headline: h\n      :url: https://example.com\n\n      body\n",
]

STEPS_YAML = """title: Step one {i}
ref: step-one
content: |
  Content :ref:`{label}`.
---
title: Step two
ref: step-two
pre: |
  |undef-y|
...
"""

EXTRACTS_YAML = """ref: ext-{i}
content: |
  Extract body.
---
ref: ext-b-{i}
inherit:
  file: extracts-e{i}.yaml
  ref: ext-{i}
...
"""


def gen_project(rng, idx):
    npages = rng.randint(3, 7)
    names = ["index"] + [rng.choice(["", "sub/", "sub/deep/", "z/"]) + f"page{j}" for j in range(1, npages)]
    labels = [f"lbl-{j}" for j in range(4)]
    files = {}
    silence = rng.sample(SILENCE_POOL, rng.choice([0, 2, 2, 3, 4]))
    toml = [f'name = "proj{idx}"', 'title = "Proj"']
    if silence:
        toml.append("silence_diagnostics = [" + ", ".join(f'"{s}"' for s in silence) + "]")
    if rng.random() < 0.5:
        toml.append('toc_landing_pages = ["/' + names[-1] + '"]')
    if rng.random() < 0.3:
        toml.append('default_domain = "mongodb"')
    toml.append("\n[substitutions]\nknown = \"*known* text\"\n\n[constants]\nc1 = \"v1\"\n")
    files["snooty.toml"] = "\n".join(toml) + "\n"
    ninc = rng.randint(1, 3)
    for j in range(ninc):
        body = "".join(
            rng.choice(SNIPPETS[:15] + SNIPPETS[16:30]).format(i=j, label=rng.choice(labels), label2=rng.choice(labels), inc=0, doc=rng.choice(names)) + "\n"
            for _ in range(rng.randint(1, 3)))
        files[f"source/includes/inc{j}.rst"] = body
    dup_pages = set(rng.sample(names[1:], min(len(names) - 1, rng.choice([2, 3])))) if (len(names) >= 4 and rng.random() < 0.6) else set()
    for j, name in enumerate(names):
        parts = [f"{'=' * 10}\nTitle {j}\n{'=' * 10}\n"]
        for _ in range(rng.randint(2, 7)):
            sn = rng.choice(SNIPPETS)
            parts.append(sn.format(i=rng.randint(0, 2), label=rng.choice(labels), label2=rng.choice(labels),
                                   inc=rng.randrange(ninc), doc=rng.choice(names)))
        if rng.random() < 0.6:
            # one image file referred to from several pages under different spellings (absolute, relative to the page): what a page
            # records about the asset is its OWN spelling, whichever page happened to be finished first
            depth = name.count("/")
            spell = rng.choice(["/images/a.png", "../" * depth + "images/a.png", "../" * depth + "images/a.png"])
            parts.append(f".. image:: {spell}\n   :alt: shared\n")
        if dup_pages and name in dup_pages:
            # one label defined on several pages and referred to from a page that does not define it: the reference is ambiguous,
            # and the message that says so lists the pages - in an order that must not depend on string hashing
            parts.append(".. _dup-label:\n\nShared label on " + name.replace("/", " ") + "\n~~~~~~~~~~~~~~~~~~~~~~~~~~~~~~~~~~~~~~~~\n\nText.\n")
        elif dup_pages and rng.random() < 0.5:
            parts.append("See :ref:`dup-label` for more.\n")
        if j == 0:
            parts.append(".. toctree::\n\n" + "".join(f"   /{nm}\n" for nm in names[1:] if rng.random() < 0.8))
        elif rng.random() < 0.3:
            parts.append(".. toctree::\n\n" + "".join(f"   /{nm}\n" for nm in rng.sample(names[1:], min(2, len(names) - 1))))
        files[f"source/{name}.txt"] = "\n".join(parts)
    for j in range(ninc):
        files[f"source/includes/steps-run{j}.yaml"] = STEPS_YAML.format(i=j, label=rng.choice(labels))
    if rng.random() < 0.6:
        files["source/includes/extracts-e0.yaml"] = EXTRACTS_YAML.format(i=0)
    if rng.random() < 0.5:
        # a base entry whose own parent is missing, inherited from two other files: which file carries the
        # diagnostics of the broken chain must not depend on the order in which the files are discovered
        files["source/includes/extracts-base.yaml"] = "ref: base-x\ninherit:\n  file: extracts-nowhere.yaml\n  ref: gone\ncontent: |\n  Base body.\n...\n"
        for nm in ("alpha", "omega"):
            files[f"source/includes/extracts-{nm}.yaml"] = f"ref: {nm}-x\ninherit:\n  file: extracts-base.yaml\n  ref: base-x\n...\n"
    for nm in "abc":
        files[f"source/images/{nm}.png"] = {"$b": f"\x89PNG\r\n\x1a\n{nm}"}
    subdirs = sorted({nm.split("/")[0] for nm in names if "/" in nm})
    if subdirs and rng.random() < 0.3:
        # one directory of pages reachable under two names (a symbolic link beside it): under which name its pages are built must
        # not depend on the order in which the operating system lists the two
        d = rng.choice(subdirs)
        files[f"source/{rng.choice(['aaa-', 'zzz-'])}alias"] = {"$link": d}
    if rng.random() < 0.4:
        # two different files that one page refers to under the same spelling: includes in two directories, each with a figure
        # named relative to its own directory. What the page's document lists first must not follow string hashing.
        for d in ("parta", "partb"):
            files[f"source/{d}/inc.rst"] = f"Text of {d}.\n\n.. figure:: pic.png\n   :alt: {d}\n"
            files[f"source/{d}/pic.png"] = {"$b": f"\x89PNG\r\n\x1a\n{d}"}
        tgt = f"source/{rng.choice(names)}.txt"
        files[tgt] += "\n.. include:: /parta/inc.rst\n\n.. include:: /partb/inc.rst\n"
    if rng.random() < 0.6:
        # facets at several directory levels: a page gets the facets of its own directory plus, for every category that
        # directory does not set, those of the directories above - in an order that must not depend on string hashing
        pool = [("genre", "tutorial"), ("genre", "reference"), ("target_product", "atlas"), ("target_product", "compass"), ("target_product", "drivers"),
                ("programming_language", "go"), ("programming_language", "java"), ("programming_language", "c")]

        def toml_of(pairs):
            return "".join(f'[[facets]]\ncategory = "{c}"\nvalue = "{v}"\n\n' for c, v in pairs)
        files["source/facets.toml"] = toml_of(rng.sample(pool, rng.randint(3, 6)))
        for d in ("sub", "sub/deep", "z"):
            if rng.random() < 0.6 and any(n.startswith(d + "/") for n in names):
                files[f"source/{d}/facets.toml"] = toml_of(rng.sample(pool, rng.randint(1, 2)))
    return files


PREFIX_PROJECT = {
    "snooty.toml": 'name = "prefix"\ntitle = "Prefix"\ndefault_domain = "mongodb"\nsilence_diagnostics = ["OrphanedPage"]\n',
    "source/index.txt": "======\nPrefix\n======\n\n.. _lbl-0:\n\n.. _lbl-1:\n\nUnrelated\n---------\n\n"
                        ".. note::\n\n   - a\n\n     - b\n\n       1. c\n\n.. list-table::\n\n   * - a\n     - b\n\n"
                        ".. twitter::\n\n.. io-code-block::\n\n   .. input::\n      :language: python\n\n      print(1)\n\n   .. output::\n\n      1\n\n.. wayfinding::\n\n   .. note::\n\n      x\n\n"
                        ".. glossary::\n\n   term0\n     other definition\n\n.. method:: db.coll.find0()\n\n   x\n\n"
                        ".. image:: /images/a.png\n   :alt: a\n\n.. toctree::\n\n   /other\n",
    "source/other.txt": "=====\nOther\n=====\n\n.. _lbl-2:\n\nSame\n----\n\n:ref:`lbl-0` |known|\n",
    "source/images/a.png": {"$b": "\x89PNG\r\n\x1a\nprefix"},
}


def write_project(root: Path, files: dict, shuffle_seed: int):
    if root.exists():
        shutil.rmtree(root)
    names = sorted(files)
    random.Random(shuffle_seed).shuffle(names)
    for name in names:
        p = root / name
        p.parent.mkdir(parents=True, exist_ok=True)
        body = files[name]
        if isinstance(body, dict) and "$link" in body:
            # a symbolic link (created after the loop, when its neighbours exist; relative target)
            continue
        if isinstance(body, dict):
            p.write_bytes(body["$b"].encode("latin-1"))
        else:
            p.write_text(body, encoding="utf-8")
    _make_links(root, files)


def _make_links(root: Path, files: dict):
    for name in sorted(files):
        body = files[name]
        if isinstance(body, dict) and "$link" in body:
            p = root / name
            p.parent.mkdir(parents=True, exist_ok=True)
            os.symlink(body["$link"], p)


def run_build(root: Path, cfg: dict, prefix_root: Path, out: Path):
    env = {k: v for k, v in os.environ.items() if k not in ("PYTHONHASHSEED",)}
    env["PYTHONHASHSEED"] = str(cfg["seed"])
    env["PYTHONPATH"] = str(core.REPO)
    if cfg.get("shuffle"):
        # discovery order: the directory listing order seen by os.walk is permuted in the subprocess
        env["VERIF_WALK_SEED"] = str(cfg["shuffle"])
    else:
        env.pop("VERIF_WALK_SEED", None)
    zip_out, json_out = out / "out.zip", out / "out.json"
    for f in (zip_out, json_out):
        if f.exists():
            f.unlink()
    cmd = ["/venv/bin/python", "-W", "ignore", str(BUILD_SCRIPT), str(root), str(cfg["workers"]), str(zip_out), str(json_out)]
    if cfg.get("prefix"):
        cmd.append(str(prefix_root))
    try:
        p = subprocess.run(cmd, env=env, stdout=subprocess.PIPE, stderr=subprocess.PIPE, timeout=300, cwd=str(out))
    except subprocess.TimeoutExpired:
        raise core.Infra(f"build subprocess timed out: {cfg}")
    if p.returncode != 0 or not json_out.exists():
        return {"crash": p.stderr.decode("utf-8", "replace")[-600:]}
    return {"zip": zip_out.read_bytes(), "dump": json.loads(json_out.read_text(encoding="utf-8"))}


def first_difference(a, b):
    """(component, description) of the first observable difference of two runs, or None"""
    if ("crash" in a) != ("crash" in b):
        return "crash", f"one run crashed: {(a.get('crash') or b.get('crash'))[-300:]}"
    if "crash" in a:
        ta, tb = a["crash"].strip().split("\n")[-1], b["crash"].strip().split("\n")[-1]
        return None if ta == tb else ("crash", f"different crashes: {ta!r} vs {tb!r}")
    da, db = a["dump"], b["dump"]
    if da["exc"] != db["exc"]:
        return "exc", f"build outcome differs: {da['exc']!r} vs {db['exc']!r}"
    if da["cache_filename"] != db["cache_filename"]:
        return "cache_filename", f"cache file name differs: {da['cache_filename']} vs {db['cache_filename']}"
    for f in sorted(set(da["diagnostics"]) | set(db["diagnostics"])):
        xa, xb = da["diagnostics"].get(f, []), db["diagnostics"].get(f, [])
        if xa != xb:
            for i in range(max(len(xa), len(xb))):
                ea = xa[i] if i < len(xa) else None
                eb = xb[i] if i < len(xb) else None
                if ea != eb:
                    ty = (ea or eb)["type"]
                    return f"diagnostics:{ty}", f"diagnostics of {f} differ at position {i}: {json.dumps(ea, ensure_ascii=False)} vs {json.dumps(eb, ensure_ascii=False)}"
    if da["page_order"] != db["page_order"]:
        return "page_order", f"pages emitted in different order: {da['page_order']} vs {db['page_order']}"
    for f in da["page_order"]:
        if json.dumps(da["pages"][f]) != json.dumps(db["pages"][f]):
            return "page", f"page {f} differs (AST / assets / facets)"
    if json.dumps(da["metadata"]) != json.dumps(db["metadata"]):
        for k in da["metadata"]:
            if json.dumps(da["metadata"][k]) != json.dumps(db["metadata"].get(k)):
                return f"metadata:{k}", f"metadata field {k} differs: {json.dumps(da['metadata'][k])[:200]} vs {json.dumps(db['metadata'].get(k))[:200]}"
        return "metadata", "metadata key order differs"
    if a["zip"] != b["zip"]:
        na = zipfile.ZipFile(io.BytesIO(a["zip"])).namelist()
        nb = zipfile.ZipFile(io.BytesIO(b["zip"])).namelist()
        if na != nb:
            return "manifest_order", f"manifest entries differ / are ordered differently: {na} vs {nb}"
        return "manifest_bytes", "manifest bytes differ with identical entry names"
    return None


def make_configs(rng, count):
    """first = baseline; the rest cover seeds {1,2,3,drawn}, workers {1,2,8}, creation orders, warm process"""
    seeds = [1, 2, 3] + [rng.randrange(4, 2 ** 32 - 1) for _ in range(max(0, count - 4))]
    workers = [2, 8, 1, 2, 8, 1, 2, 8]
    cfgs = [{"seed": 0, "workers": 1, "shuffle": 0, "prefix": False}]
    for i in range(count - 1):
        cfgs.append({"seed": seeds[i % len(seeds)] if i < len(seeds) else rng.randrange(4, 2 ** 32 - 1),
                     "workers": workers[i % len(workers)], "shuffle": rng.randrange(1, 10 ** 6), "prefix": i % 2 == 1})
    return cfgs


def diff_pair(files, cfg_a, cfg_b, base: Path):
    root, prefix_root, out = base / "proj", base / "prefix", base / "out"
    out.mkdir(parents=True, exist_ok=True)
    if not prefix_root.exists():
        write_project(prefix_root, PREFIX_PROJECT, 0)
    write_project(root, files, cfg_a["shuffle"])
    a = run_build(root, cfg_a, prefix_root, out)
    write_project(root, files, cfg_b["shuffle"])
    b = run_build(root, cfg_b, prefix_root, out)
    return a, b


# ---------------------------------------------------------------------------------------------


# ---- process history: a parse must not depend on what the same process parsed before -------------------------------------
HISTORY_SCRIPT = Path(__file__).resolve().parent.parent / "impl" / "c05_history.py"
H_ADORN = ["=", "-", "~", "^", "*", "#"]
H_WORDS = ["alpha", "beta", "gamma", "delta", "shard", "replica", "index", "cursor"]


def history_doc(rng) -> str:
    """documents built from the constructs that park state in process-wide caches: over/underlined and underlined titles at
    changing levels (nested state machines are pooled), transitions at the very end of a body, directives with nested content,
    lists, roles (registry lookups), default-domain switches"""
    out = []

    def title(depth):
        t = " ".join(rng.choice(H_WORDS) for _ in range(rng.randint(1, 2))).capitalize()
        c = H_ADORN[min(depth, len(H_ADORN) - 1)] if rng.random() < 0.8 else rng.choice(H_ADORN)
        ln = len(t) if rng.random() < 0.85 else rng.choice([3, len(t) + 2])
        if rng.random() < 0.45:
            return [c * ln, t, c * ln, ""]
        return [t, c * ln, ""]

    def body(ind):
        r = rng.random()
        if r < 0.35:
            lines = [" ".join(rng.choice(H_WORDS) for _ in range(rng.randint(2, 6))) + "."]
        elif r < 0.5:
            lines = [f"- {rng.choice(H_WORDS)}", f"- {rng.choice(H_WORDS)}"]
        elif r < 0.65:
            lines = [f"See :ref:`{rng.choice(H_WORDS)}` and :{rng.choice(['method', 'binary', 'guilabel', 'nosuch'])}:`{rng.choice(H_WORDS)}`."]
        elif r < 0.72:
            # names that live in more than one domain: which one an unqualified use means depends on the default domain
            lines = [rng.choice([".. option:: --verbose", ".. data:: limit", ".. func:: find()", ".. method:: db.x()"]), "",
                     f"   Use :option:`--verbose` with :data:`limit`, :func:`find()` and :ref:`{rng.choice(H_WORDS)}`."]
        elif r < 0.8:
            lines = ["-" * rng.choice([4, 8, 20])]
        elif r < 0.9:
            lines = [f".. default-domain:: {rng.choice(['mongodb', 'std', 'py'])}"]
        else:
            lines = [rng.choice(H_WORDS), "   " + rng.choice(H_WORDS) + " definition"]
        return [ind + l for l in lines] + [""]

    depth = 0
    if rng.random() < 0.8:
        out += title(0)
    for _ in range(rng.randint(2, 7)):
        r = rng.random()
        if r < 0.35:
            depth = max(0, min(3, depth + rng.choice([-2, -1, 0, 0, 1])))
            out += title(depth)
        elif r < 0.55:
            name = rng.choice(["note", "tip", "warning", "important", "example", "step", "procedure", "only html"])
            head = ".. " + (name if " " in name else name + "::")
            if " " in name:
                head = ".. only:: html"
            out += [head, ""]
            for _ in range(rng.randint(1, 3)):
                out += body("   ")
        else:
            out += body("")
    # endings: with / without the trailing blank line, sometimes a transition as the very last line
    while out and out[-1] == "":
        out.pop()
    if rng.random() < 0.3:
        out += ["", ("   " if rng.random() < 0.3 else "") + "-" * 8]
    return "\n".join(out) + ("\n" if rng.random() < 0.7 else "")


H_DOMAINS = [None, None, "mongodb", "mongomirror", "py", "js", "std"]


def history_domains(docs):
    """the default domain of the project each document belongs to: a function of the text, so that shrinking keeps it"""
    return [H_DOMAINS[int(hashlib.blake2b(d.encode("utf-8"), digest_size=2).hexdigest(), 16) % len(H_DOMAINS)] for d in docs]


def run_history(docs, order, base: Path, tag: str):
    req, res = base / f"hist-{tag}-in.json", base / f"hist-{tag}-out.json"
    req.write_text(json.dumps({"docs": docs, "order": order, "domains": history_domains(docs)}, ensure_ascii=False), encoding="utf-8")
    env = {k: v for k, v in os.environ.items()}
    env["PYTHONHASHSEED"] = "0"
    env["PYTHONPATH"] = str(core.REPO)
    try:
        p = subprocess.run(["/venv/bin/python", "-W", "ignore", str(HISTORY_SCRIPT), str(req), str(res)], env=env,
                           stdout=subprocess.PIPE, stderr=subprocess.PIPE, timeout=600, cwd=str(base))
    except subprocess.TimeoutExpired:
        raise core.Infra("history subprocess timed out")
    if p.returncode != 0 or not res.exists():
        raise core.Infra("history subprocess failed: " + p.stderr.decode("utf-8", "replace")[-400:])
    return json.loads(res.read_text(encoding="utf-8"))


def history_difference(docs, orders, base: Path):
    """index of the first document whose result differs between the runs, with a description; or None"""
    runs = [run_history(docs, o, base, str(k)) for k, o in enumerate(orders)]
    for i in range(len(docs)):
        for k in range(1, len(runs)):
            a, b = runs[0].get(str(i)), runs[k].get(str(i))
            if a is None or b is None:
                continue
            if a != b:
                what = "exception" if ("exc" in a or "exc" in b) else ("ast" if a.get("ast") != b.get("ast") else "diagnostics")
                return i, k, what, f"document {i} parsed in order {orders[0]} vs {orders[k]}: {what} differ"
    return None


def shrink_history(docs, orders, base: Path):
    """keep only the documents needed: try the pair (culprit before victim) alone"""
    d = history_difference(docs, orders, base)
    if not d:
        return docs, orders
    victim = d[0]
    for other in range(len(docs)):
        if other == victim:
            continue
        sub = [docs[other], docs[victim]]
        o2 = [[0, 1], [1, 0]]
        if history_difference(sub, o2, base):
            return sub, o2
    return docs, orders


class C05(core.PropertyCheck):
    id = "C05"
    level = "proof"
    parallel = False
    quick_budget = 600
    thorough_budget = 5000
    rule = ("in-process: random nested values (dataclasses with nohash fields, lists, tuples, dicts, enums, None, unhashable objects, sets of size 0-4 "
            "whose members collide in the hash table so that insertion order changes enumeration order) through structural_hash under a free hash (exact byte comparison with the model) "
            "and under blake2b with every set built in two insertion orders; PageDatabase filled in two arrival orders; ZipBackend fed permuted events / asset sets; "
            "missing-options message with the required-options set enumerated forwards and backwards. non-trivial = value holds a set of >= 2 members / >= 2 pages / >= 2 names. "
            "cross-process: generated projects (silence_diagnostics >= 2 names, directives with >= 2 missing options, invalid children, io-code-block without children, images, tabs, giza yaml, duplicate labels) "
            "built in subprocesses under PYTHONHASHSEED {0,1,2,3,drawn} x max_workers {1,2,8} x shuffled file creation order x an unrelated project built first in the same process; "
            "manifest bytes, cache file name, pages, metadata, per-file diagnostics compared byte for byte")
    assumptions = [
        "hashlib.blake2b is the parameter H of the model (theorems hold for every H); the free hash used for correspondence is injective",
        "PurePosixPath ordering is lexicographic on the list of parts, str/bytes ordering lexicographic on code points/bytes (checked on every run: static obligations)",
        "the cross-process claim (no order dependence outside the modelled kernels) is established by differential execution only",
    ]
    extra_trusted = ["subprocess differential harness (harness/impl/c05_build.py): a recording ZipBackend subclass, JSON dumps compared as text"]

    # ---- hypotheses ----
    def static_obligations(self):
        rng = random.Random(5)
        import functools

        def lex_parts(a, b):
            return a.split("/") <= b.split("/")
        bad = []
        ks = KEYS + ["a//b.txt", "a/./b.txt"]
        for a in ks:
            for b in ks:
                fa, fb = FileId(a), FileId(b)
                if (fa <= fb) != (fa.as_posix().split("/") <= fb.as_posix().split("/")):
                    bad.append((a, b))
        bad2 = []
        for _ in range(3000):
            x = bytes(rng.randrange(256) for _ in range(rng.randint(0, 4)))
            y = bytes(rng.randrange(256) for _ in range(rng.randint(0, 4)))
            if (x <= y) != (list(x) <= list(y)):
                bad2.append((x, y))
        seq_sensitive = util.structural_hash([1, 2]) != util.structural_hash([2, 1])
        return [
            ("pathLe: FileId comparison is lexicographic on the list of path parts", not bad, str(bad[:3])),
            ("bytesLe: bytes comparison is lexicographic on byte values", not bad2, str(bad2[:3])),
            ("sequences stay order-sensitive (fix does not over-normalise)", seq_sensitive, ""),
        ]

    # ---- cases ----
    def generate(self, rng, budget, tier):
        if tier != "search":
            # witnesses of the refutation theorems / D10, replayed on the real code
            yield {"kind": "shash", "spec": {"k": "set", "xs": [{"k": "int", "v": 0}, {"k": "int", "v": 8}], "frozen": False}}
            yield {"kind": "shash", "spec": {"k": "rec", "fields": [["silence_diagnostics", False, {"k": "set", "xs": [{"k": "int", "v": 8}, {"k": "int", "v": 16}, {"k": "int", "v": 0}], "frozen": False}]]}}
            for d, req in MSG_DIRECTIVES.items():
                for mask in range(2 ** len(req)):
                    yield {"kind": "msg", "directive": d, "given": [o for i, o in enumerate(req) if mask >> i & 1]}
            yield {"kind": "children"}
        # what a broken configuration is reported as must not depend on string hashing either: tables that lack SEVERAL required
        # fields (of different types), several unknown fields, several wrong types at once
        for t in ('[manpages.m1]\nfile = "index.txt"\n', '[manpages.m1]\n', '[[banners]]\nvalue = "x"\n', '[bundle]\nbogus = 1\nalso_bogus = 2\n',
                  '[manpages.m1]\nfile = "index.txt"\n\n[manpages.m2]\ntitle = "T"\n'):
            yield {"kind": "loaderr", "toml": 'name = "c05"\n\n' + t}
        for _ in range(6 if tier == "quick" else 40):
            parts = ['name = "c05"']
            for _ in range(rng.randint(1, 3)):
                r = rng.random()
                if r < 0.4:
                    have = rng.sample(['file = "index.txt"', 'title = "T"', "section = 1"], rng.randint(0, 1))
                    parts += ["", f"[manpages.m{rng.randint(0, 9)}]"] + have
                elif r < 0.7:
                    have = rng.sample(['targets = ["*"]', 'variant = "info"', 'value = "text"'], rng.randint(0, 1))
                    parts += ["", "[[banners]]"] + have
                elif r < 0.85:
                    parts.insert(1, f"bogus_{rng.randint(0, 9)} = 1")
                    parts.insert(1, f"unknown_{rng.randint(0, 9)} = 2")
                else:
                    parts.insert(1, "title = 5")
                    parts.insert(1, "intersphinx = 7")
            yield {"kind": "loaderr", "toml": "\n".join(parts) + "\n"}
        for _ in range(budget):
            yield {"kind": "shash", "spec": gen_val(rng, rng.randint(1, 4))}
        for _ in range(budget // 4):
            nk = rng.randint(1, 6)
            keys = rng.sample(KEYS, nk)
            arrivals = [[k, rng.randrange(100)] for k in keys]
            for _r in range(rng.choice([0, 0, 1, 2])):
                if keys:
                    arrivals.insert(rng.randint(0, len(arrivals)), [rng.choice(keys), rng.randrange(100, 200)])
            final = {}
            for k, v in arrivals:
                final[k] = v
            perm = [[k, v] for k, v in final.items()]
            rng.shuffle(perm)
            yield {"kind": "snapshot", "arrivals": arrivals, "perm": perm}
        for _ in range(budget // 4):
            akeys = rng.sample(["/images/a.png", "/images/b.png", "images/a.png", "/a.png", "/images/é.png", "/z/0.png", "/images/a-b.png", "/images/a/b.png"], rng.randint(0, 5))
            # distinct fileids (set identity) — "/images/a.png" and "images/a.png" are the same file
            seen, assets = set(), []
            for k in akeys:
                if k.lstrip("/") in seen:
                    continue
                seen.add(k.lstrip("/"))
                assets.append([k, k.lstrip("/"), rng.random() < 0.8, len(assets)])
            if rng.random() < 0.5:
                # different files under ONE spelling: a path relative to the directory of the file that names it (two includes in two
                # directories, each with `figure:: pic.png`). The set tells them apart by file id; the document must order them all the same.
                k = rng.choice(["pic.png", "images/a.png", "é.png"])
                for d in rng.sample(["parta", "partb", "z/deep", "0"], rng.randint(2, 3)):
                    if f"{d}/{k}" not in seen:
                        seen.add(f"{d}/{k}")
                        assets.append([k, f"{d}/{k}", rng.random() < 0.9, len(assets)])
            events = [[rng.choice(KEYS[:8]), [rng.randrange(1000) for _ in range(rng.choice([0, 1, 1, 2, 3]))]] for _ in range(rng.randint(0, 7))]
            a2 = list(assets)
            rng.shuffle(a2)
            yield {"kind": "manifest", "assets": assets, "assets2": a2, "events": events, "events2": stable_interleave(rng, events)}

    def shrink_candidates(self, case):
        k = case["kind"]
        if k == "diff":
            files = case["project"]
            for name in sorted(files, key=lambda x: (-len(str(files[x])), x)):
                if name in ("snooty.toml", "source/index.txt"):
                    continue
                yield {**case, "project": {f: b for f, b in files.items() if f != name}}
            return
        if k == "snapshot":
            for i in range(len(case["arrivals"])):
                arr = case["arrivals"][:i] + case["arrivals"][i + 1:]
                final = {}
                for kk, v in arr:
                    final[kk] = v
                perm = [p for p in case["perm"] if p[0] in final]
                perm = [[kk, final[kk]] for kk, _ in perm]
                yield {**case, "arrivals": arr, "perm": perm}
        if k == "manifest":
            for i in range(len(case["events"])):
                ev = case["events"][:i] + case["events"][i + 1:]
                yield {**case, "events": ev, "events2": ev[::-1] if len({e[0] for e in ev}) == len(ev) else ev}
            for i in range(len(case["assets"])):
                a = case["assets"][:i] + case["assets"][i + 1:]
                yield {**case, "assets": a, "assets2": a[::-1]}
        if k == "shash":
            def subs(spec):
                kk = spec["k"]
                if kk in ("list", "tuple", "set"):
                    for i in range(len(spec["xs"])):
                        yield {**spec, "xs": spec["xs"][:i] + spec["xs"][i + 1:]}
                        yield spec["xs"][i]
                        for s in subs(spec["xs"][i]):
                            yield {**spec, "xs": spec["xs"][:i] + [s] + spec["xs"][i + 1:]}
                elif kk == "dict":
                    for i in range(len(spec["es"])):
                        yield {**spec, "es": spec["es"][:i] + spec["es"][i + 1:]}
                        yield spec["es"][i][1]
                elif kk == "rec":
                    for i in range(len(spec["fields"])):
                        yield {**spec, "fields": spec["fields"][:i] + spec["fields"][i + 1:]}
                        yield spec["fields"][i][2]
                        for s in subs(spec["fields"][i][2]):
                            yield {**spec, "fields": spec["fields"][:i] + [[spec["fields"][i][0], spec["fields"][i][1], s]] + spec["fields"][i + 1:]}
            for s in subs(case["spec"]):
                try:
                    build(s)
                    build(s, rev=True)
                except TypeError:
                    continue
                yield {**case, "spec": s}

    # ---- implementation ----
    def run_impl(self, case):
        k = case["kind"]
        if k == "shash":
            obj = build(case["spec"])
            try:
                free = {"ok": list(free_structural_hash(obj))}
            except TypeError:
                free = {"exc": "TypeError"}
            try:
                d1 = util.structural_hash(obj).hex()
            except TypeError:
                d1 = "TypeError"
            obj2 = build(case["spec"], rev=True)
            try:
                d2 = util.structural_hash(obj2).hex()
            except TypeError:
                d2 = "TypeError"
            return {"free": free, "d1": d1, "d2": d2, "reordered": translate(obj) != translate(obj2)}
        if k == "snapshot":
            return {"a": run_snapshot(case["arrivals"]), "b": run_snapshot(case["perm"])}
        if k == "manifest":
            enum1 = [[a.key, a.fileid.as_posix(), a.upload, int(a.data.decode().split("-")[1])] for a in asset_set(case["assets"])]
            return {"a": run_manifest(case["assets"], case["events"]), "b": run_manifest(case["assets2"], case["events2"]), "enum": enum1}
        if k == "msg":
            return {"fwd": run_missing(case["directive"], case["given"], False), "rev": run_missing(case["directive"], case["given"], True)}
        if k == "loaderr":
            base = Path(tempfile.mkdtemp(prefix="c05-loaderr-"))
            try:
                (base / "source").mkdir()
                (base / "snooty.toml").write_text(case["toml"], encoding="utf-8")
                outs = []
                for seed in (1, 2, 3, 5, 8, 13):
                    env = {k_: v for k_, v in os.environ.items() if k_ != "PYTHONHASHSEED"}
                    env.update(PYTHONHASHSEED=str(seed), PYTHONPATH=str(core.REPO))
                    p = subprocess.run(["/venv/bin/python", str(Path(__file__).resolve().parent.parent / "impl" / "c05_loaderr.py"), str(base)],
                                       env=env, stdout=subprocess.PIPE, stderr=subprocess.PIPE, text=True, timeout=120, cwd=str(core.REPO))
                    if p.returncode != 0:
                        raise core.Infra(f"c05_loaderr failed: {p.stderr[-300:]}")
                    outs.append([seed, p.stdout])
            finally:
                shutil.rmtree(base, ignore_errors=True)
            return {"outs": outs}
        if k == "children":
            _page, diags = rst.parse(WAYFINDING)
            return {"suggestions": [d.suggestion for d in diags if isinstance(d, InvalidChild)]}
        if k == "diff":
            base = Path(tempfile.mkdtemp(prefix="c05-replay-"))
            try:
                a, b = diff_pair(case["project"], case["configs"][0], case["configs"][1], base)
                d = first_difference(a, b)
            finally:
                shutil.rmtree(base, ignore_errors=True)
            return {"component": d[0] if d else None, "difference": d[1] if d else None}
        if k == "history":
            base = Path(tempfile.mkdtemp(prefix="c05-hist-replay-"))
            try:
                d = history_difference(case["docs"], case["orders"], base)
            finally:
                shutil.rmtree(base, ignore_errors=True)
            return {"component": ("history:" + d[2]) if d else None, "difference": d[3] if d else None}
        raise ValueError(k)

    # ---- model ----
    def model_request(self, case):
        k = case["kind"]
        if k == "shash":
            return {"op": "c05.shash", "value": translate(build(case["spec"])), "fixed": True}
        if k == "snapshot":
            return {"op": "c05.snapshot", "arrivals": [[key.split("/"), v] for key, v in case["arrivals"]]}
        if k == "manifest":
            enum1 = [[a.key, a.fileid.as_posix(), a.upload, int(a.data.decode().split("-")[1])] for a in asset_set(case["assets"])]
            return {"op": "c05.manifest", "assets": enum1, "events": [[key.split("/"), ids] for key, ids in case["events"]]}
        if k == "msg":
            req = specparser.Spec.get().directive[case["directive"]].required_options
            return {"op": "c05.msg", "name": case["directive"], "enumeration": list(req - set(case["given"])), "fixed": True}
        if k == "children":
            return {"op": "c05.msg", "name": "wayfinding", "enumeration": list({"wayfinding-option", "wayfinding-description"}), "fixed": True}
        return None

    def compare(self, case, model, impl):
        k = case["kind"]
        if k == "shash":
            if model != impl["free"]:
                return f"structural_hash under the free hash: model {str(model)[:300]} impl {str(impl['free'])[:300]}"
        elif k == "snapshot":
            want = [["/".join(key), v] for key, v in model["snapshot"]]
            if want != impl["a"]:
                return f"snapshot: model {want} impl {impl['a']}"
        elif k == "manifest":
            want_a = [[a[0], payload_checksum(a[1])] for a in model["assets"]]
            got_a = impl["a"]["assets"]
            if want_a != got_a:
                return f"asset order: model {want_a} impl {got_a}"
            want_d = [["/".join(key), ids] for key, ids in model["diagnostics"]]
            if want_d != impl["a"]["diagnostics"]:
                return f"diagnostics entries: model {want_d} impl {impl['a']['diagnostics']}"
        elif k == "msg":
            want = [model["missing"]] if len(case["given"]) < len(MSG_DIRECTIVES[case["directive"]]) else []
            if want != impl["fwd"]:
                return f"missing-options message: model {want} impl {impl['fwd']}"
        elif k == "children":
            if impl["suggestions"] != [model["children"]]:
                return f"expected-children text: model {model['children']!r} impl {impl['suggestions']}"
        return None

    # ---- the property itself ----
    def oracle(self, case, impl):
        k = case["kind"]
        if k == "shash":
            if impl["d1"] != impl["d2"]:
                return f"structural_hash of one value differs between two enumeration orders of its sets: {impl['d1']} vs {impl['d2']}"
        elif k == "snapshot":
            if impl["a"] != impl["b"]:
                return f"snapshot handed to the postprocessor depends on arrival order: {impl['a']} vs {impl['b']}"
        elif k == "manifest":
            if impl["a"]["assets"] != impl["b"]["assets"]:
                return f"manifest asset order depends on set enumeration: {impl['a']['assets']} vs {impl['b']['assets']}"
            if impl["a"]["diagnostics"] != impl["b"]["diagnostics"]:
                return f"manifest diagnostics entries depend on reporting order: {impl['a']['diagnostics']} vs {impl['b']['diagnostics']}"
            if impl["a"]["zip_sha"] != impl["b"]["zip_sha"]:
                return "manifest bytes depend on reporting order / set enumeration"
        elif k == "loaderr":
            first = impl["outs"][0]
            for seed, out in impl["outs"][1:]:
                if out != first[1]:
                    return (f"what opening the project reports depends on string hashing: PYTHONHASHSEED={first[0]} gives {first[1][:300]}, "
                            f"PYTHONHASHSEED={seed} gives {out[:300]}")
        elif k == "msg":
            if impl["fwd"] != impl["rev"]:
                return f"missing-options message depends on set enumeration order: {impl['fwd']} vs {impl['rev']}"
        elif k == "diff":
            if impl["component"]:
                return f"two builds of the same project differ [{impl['component']}]: {impl['difference']}"
        elif k == "history":
            if impl["component"]:
                return f"the parse of a document depends on what the process parsed before [{impl['component']}]: {impl['difference']}"
        return None

    def finding_key(self, case, impl, desc):
        if case["kind"] == "diff":
            return "diff:" + str(impl.get("component"))
        if case["kind"] == "history":
            return str(impl.get("component"))
        return case["kind"] + ":" + desc.split(":")[0][:60]

    def nontrivial_key(self, case, impl):
        k = case["kind"]
        if k == "shash" and not has_set2(case["spec"]):
            return None
        if k == "snapshot" and len({a[0] for a in case["arrivals"]}) < 2:
            return None
        if k == "manifest" and len(case["assets"]) < 2 and len({e[0] for e in case["events"] if e[1]}) < 2:
            return None
        if k == "msg" and len(MSG_DIRECTIVES[case["directive"]]) - len(case["given"]) < 2:
            return None
        return json.dumps(case, sort_keys=True, ensure_ascii=False)

    def branch_tags(self, case, model, impl):
        tags = [case["kind"]]
        if case["kind"] == "shash":
            if impl["free"].get("exc"):
                tags.append("shash:TypeError")
            if impl["reordered"]:
                tags.append("shash:two-enumeration-orders-exercised")
            if has_set2(case["spec"]):
                tags.append("shash:set>=2")
        if case["kind"] == "snapshot" and len(case["arrivals"]) != len(case["perm"]):
            tags.append("snapshot:key-delivered-twice")
        if case["kind"] == "manifest" and impl["enum"] != [list(asset_parts(a)) for a in case["assets"]]:
            tags.append("manifest:set-enumeration!=insertion")
        if case["kind"] == "manifest":
            keys = [asset_parts(a)[0] for a in case["assets"] if asset_parts(a)[2]]
            if len(set(keys)) < len(keys):
                tags.append("manifest:two-files-under-one-spelling")
                if model and model.get("assets_key_only") != model.get("assets"):
                    tags.append("manifest:key-only-sort-would-differ")
        return tags

    def sample(self, case, impl):
        return {"case": case, "impl": {k: (v if len(str(v)) < 300 else str(v)[:300]) for k, v in impl.items()}}

    # ---- the cross-process differential ----
    def extra_checks(self, tier, rng):
        nproj, ncfg = (10, 6) if tier == "quick" else (40, 15)
        base = Path(tempfile.mkdtemp(prefix="c05-"))
        projects = [gen_project(rng, i) for i in range(nproj)]
        configs = [make_configs(rng, ncfg) for _ in range(nproj)]
        violations, nbuilds, components = [], [0], {}
        lock = threading.Lock()

        def one(i):
            pbase = base / f"p{i}"
            root, prefix_root, out = pbase / "proj", pbase / "prefix", pbase / "out"
            out.mkdir(parents=True, exist_ok=True)
            write_project(prefix_root, PREFIX_PROJECT, 0)
            ref = None
            found = []
            for cfg in configs[i]:
                write_project(root, projects[i], cfg["shuffle"])
                obs = run_build(root, cfg, prefix_root, out)
                with lock:
                    nbuilds[0] += 1
                if ref is None:
                    ref = (cfg, obs)
                    continue
                d = first_difference(ref[1], obs)
                if d and not any(f["key"] == "diff:" + d[0] for f in found):
                    found.append({
                        "case": {"kind": "diff", "project": projects[i], "configs": [ref[0], cfg]},
                        "impl": {"component": d[0], "difference": d[1]},
                        "desc": f"two builds of the same project differ [{d[0]}]: {d[1]}",
                        "key": "diff:" + d[0],
                    })
            return ref[1], found

        try:
            with ThreadPoolExecutor(max(1, min(core.NPROC, nproj, 8))) as ex:
                results = list(ex.map(one, range(nproj)))
        finally:
            shutil.rmtree(base, ignore_errors=True)
        # process history: the same documents parsed in one process in two different orders
        ngroups, per = (6, 14) if tier == "quick" else (40, 20)
        hbase = Path(tempfile.mkdtemp(prefix="c05-hist-"))
        hist_docs = 0
        try:
            def hist(g):
                r = random.Random(f"{g}:{hist_seed}")
                docs = [history_doc(r) for _ in range(per)]
                fwd = list(range(per))
                orders = [fwd, fwd[::-1]]
                if tier != "quick":
                    sh = fwd[:]
                    r.shuffle(sh)
                    orders.append(sh)
                gb = hbase / f"g{g}"
                gb.mkdir()
                d = history_difference(docs, orders, gb)
                if not d:
                    return None
                sd, so = shrink_history(docs, [orders[0], orders[d[1]]], gb)
                d2 = history_difference(sd, so, gb) or d
                return {"case": {"kind": "history", "docs": sd, "orders": so},
                        "impl": {"component": "history:" + d2[2], "difference": d2[3]},
                        "desc": f"the parse of a document depends on what the process parsed before [history:{d2[2]}]: {d2[3]}",
                        "key": "history:" + d2[2]}
            hist_seed = rng.randrange(10 ** 9)
            with ThreadPoolExecutor(max(1, min(core.NPROC, ngroups, 8))) as ex:
                hres = list(ex.map(hist, range(ngroups)))
            hist_docs = ngroups * per
            seen_h = set()
            for h in hres:
                if h and h["key"] not in seen_h:
                    seen_h.add(h["key"])
                    violations.append(h)
        finally:
            shutil.rmtree(hbase, ignore_errors=True)
        ndiag, diag_types, crashed = 0, set(), 0
        for ref, found in results:
            violations.extend(found)
            if "crash" in ref:
                crashed += 1
                continue
            for f, ds in ref["dump"]["diagnostics"].items():
                ndiag += len(ds)
                diag_types.update(d["type"] for d in ds)
        cov = {"differential": {
            "projects": nproj, "configurations_per_project": ncfg, "builds": nbuilds[0],
            "baseline_builds_that_crashed": crashed,
            "diagnostics_in_baselines": ndiag, "diagnostic_types_seen": sorted(diag_types),
            "differences_found": len(violations),
            "configurations_example": configs[0],
        }, "process_history": {"groups": ngroups, "documents_per_group": per, "documents": hist_docs,
                               "orders": "forward vs reversed" + ("" if tier == "quick" else " vs shuffled"),
                               "what": "each document's serialised AST and diagnostics must be the same whatever the process parsed before it"}}
        return violations, cov


PROP = C05()
